"""bounded stand-in for C18 (parameter extraction): synthetic extract files vs independent slicing."""
import io, os, struct, sys
sys.path.insert(0, os.path.dirname(__file__))
from _common import main

BOUND = 'indexes that list several sub ids for one table (rows carrying any of them); two files in one process whose indexes assign different sub ids, with rows the second index does not list; files of several hundred rows (> 64 KiB); seeded synthetic extract files: random table-index assignments (incl. unconfigured tables), 0..5 rows per table interleaved, every packaged table plus generated layouts (incl. a redefinition of a packaged table name), compressed and expanded, latin_1/cp500, blocked/unblocked; two readers of the same table in one process; files without trailer / tables without configuration'


def frame(recs, blocked):
    s = b''.join(struct.pack('>I', len(r)) + r for r in recs) + b'\x00' * 4
    if not blocked:
        return s
    out = b''
    for i in range(0, len(s), 1012):
        out += s[i:i + 1012].ljust(1012, b'\x40') + b'\x40\x40'
    return out


def oracle(inp):
    import random
    from cardutil.mciipm import IpmParamReader, MciIpmDataError
    from cardutil.config import config
    from cardutil import CardutilError
    rng = random.Random(inp['seed'])
    enc, blocked, expanded = inp['enc'], inp['blocked'], inp['expanded']
    tables = dict(config['mci_parameter_tables'])
    if inp.get('generated'):
        tables = dict(tables)
        tables['IP0999T1'] = {'a': {'start': 19, 'end': 19 + rng.randint(1, 9)}, 'b': {'start': 40, 'end': 44}, 'c': {'start': 60 + rng.randint(0, 20), 'end': 100}}
        tables['IP0040T1'] = {'only': {'start': 25, 'end': 31}}
    names = list(tables) + ['IP0777T1']
    subs = {}
    for t in names:
        subs[t] = '%03d' % rng.randint(0, 999)
        while list(subs.values()).count(subs[t]) > 1:
            subs[t] = '%03d' % rng.randint(0, 999)
    alpha = 'ABCDEFGHIJKLMNOPQRSTUVWXYZ0123456789'
    recs = []
    subs2 = {}
    if inp.get('multi_sub'):
        # the index lists two (three for the requested table) sub ids for a table: rows carrying any of them are its rows
        mrng = random.Random(inp['seed'] + 1000)
        used = set(subs.values())
        for t in names:
            subs2[t] = []
            for _ in range(3 if t == inp['table'] else mrng.randint(0, 2)):
                x = '%03d' % mrng.randint(0, 999)
                while x in used:
                    x = '%03d' % mrng.randint(0, 999)
                used.add(x)
                subs2[t].append(x)
    for t in names:
        for k, sub in enumerate([subs[t]] + subs2.get(t, [])):
            line = list(' ' * 300)
            line[11:19] = 'IP0000T1'
            line[19:27] = t
            line[243:246] = sub
            recs.append(''.join(line))
    if inp.get('multi_sub') == 'first-listed-last':
        recs = recs[::-1]
    if not inp.get('no_trailer'):
        recs.append('TRAILER RECORD IP0000T1' + ' ' * 40)
    rows = []
    for t in names:
        for _ in range(rng.randint(0, 5) if not inp.get('big') else rng.randint(8, 14)):
            body = ''.join(rng.choice(alpha) for _ in range(rng.randint(120, 300)))
            rows.append((t, body))
    rng.shuffle(rows)
    data_x = []
    for t, body in rows:
        ts = ''.join(rng.choice('0123456789') for _ in range(10))
        code = rng.choice('AI')
        x = ts + code + t + body                      # expanded: ts(10) code(1) table(8) columns from 19
        sub = subs[t] if not subs2.get(t) else mrng.choice([subs[t]] + subs2[t])
        c = ts[:7] + code + sub + body                # compressed: ts(7) code(1) sub(3) columns from 11
        data_x.append((t, x, c))
        recs.append(x if expanded else c)
    raw = frame([r.encode(enc) for r in recs], blocked)
    want_tid = inp['table']
    try:
        readers = [IpmParamReader(io.BytesIO(raw), want_tid, encoding=enc, param_config=tables, blocked=blocked, expanded=expanded)]
    except CardutilError as e:
        if inp.get('no_trailer') or not tables.get(want_tid):
            return None
        return 'refused: well-formed extract refused: %r' % e
    if inp.get('no_trailer') or not tables.get(want_tid):
        return 'accepted: file without index trailer / table without configuration was accepted'
    if inp.get('two_readers'):
        other = IpmParamReader(io.BytesIO(frame([r.encode(enc) for r in recs[:len(names) + 1]] + [(x if not expanded else c).encode(enc) for _, x, c in data_x], blocked)),
                               want_tid, encoding=enc, param_config=tables, blocked=blocked, expanded=not expanded)
        list(other)
    if inp.get('orphans') and not expanded:
        # a second file in the same process: the requested table has ANOTHER sub id there, and rows carrying the first file's
        # sub id are not listed in the second file's index at all -> they belong to no table and must not be returned
        list(readers[0])
        old_sub = subs[want_tid]
        new_sub = '%03d' % ((int(old_sub) + 1) % 1000)
        while new_sub in subs.values():
            new_sub = '%03d' % ((int(new_sub) + 1) % 1000)
        recs2 = []
        for t in names:
            line = list(' ' * 300)
            line[11:19] = 'IP0000T1'
            line[19:27] = t
            line[243:246] = new_sub if t == want_tid else subs[t]
            recs2.append(''.join(line))
        recs2.append('TRAILER RECORD IP0000T1' + ' ' * 40)
        body2 = []
        for k in range(4):
            ts = '%07d' % (1234567 + k)
            body2.append((new_sub if k % 2 == 0 else old_sub, ts + 'A' + (new_sub if k % 2 == 0 else old_sub) + ('ROW%d' % k).ljust(150, 'x')))
        recs2 += [c for _, c in body2]
        r2 = IpmParamReader(io.BytesIO(frame([r.encode(enc) for r in recs2], blocked)), want_tid, encoding=enc, param_config=tables, blocked=blocked)
        got2 = list(r2)
        want2 = [c for sub, c in body2 if sub == new_sub]
        if len(got2) != len(want2):
            return 'rows: second file in the same process: %d rows returned for table %s, its own index assigns it %d rows (rows with a sub id the index does not list were returned)' % (len(got2), want_tid, len(want2))
        return None
    got = list(readers[0])
    want = [(x, c) for t, x, c in data_x if t == want_tid]
    if len(got) != len(want):
        return 'rows: table %s: %d rows returned, file holds %d' % (want_tid, len(got), len(want))
    for g, (x, c) in zip(got, want):
        if g.get('table_id') != want_tid or g.get('effective_timestamp') != (x[0:10] if expanded else c[0:7]) or g.get('active_inactive_code') != x[10:11]:
            return 'row-header: wrong table id / timestamp / code in a returned row'
        for col, pos in tables[want_tid].items():
            if g.get(col) != x[pos['start']:pos['end']]:
                return 'column: %s of table %s is %r, configured positions hold %r (%s)' % (col, want_tid, g.get(col), x[pos['start']:pos['end']], 'expanded' if expanded else 'compressed')
    return None


def cases(tier, rng):
    from cardutil.config import config
    n = 0
    for seed in range(6 if tier == 'quick' else 80):
        for expanded in (False, True):
            for enc in ('latin_1', 'cp500'):
                for blocked in (False, True):
                    for table in list(config['mci_parameter_tables']) + ['IP0999T1']:
                        gen = table == 'IP0999T1' or seed % 2 == 1
                        yield {'seed': seed, 'enc': enc, 'blocked': blocked, 'expanded': expanded, 'table': table, 'generated': gen, 'two_readers': seed % 3 == 0}
    for seed in (1, 2):
        for blocked in (True, False):
            yield {'seed': seed, 'enc': 'latin_1', 'blocked': blocked, 'expanded': False, 'table': 'IP0040T1', 'orphans': True}
    # files of several hundred rows (well above 16 / 64 KiB, the usual buffer sizes)
    for blocked in (True, False):
        for expanded in (False, True):
            yield {'seed': 3, 'enc': 'cp500' if expanded else 'latin_1', 'blocked': blocked, 'expanded': expanded, 'table': 'IP0040T1', 'big': True}
            yield {'seed': 4, 'enc': 'latin_1', 'blocked': blocked, 'expanded': expanded, 'table': 'IP0999T1', 'generated': True, 'big': True}
    for seed in (1, 2, 3):
        for ms in (True, 'first-listed-last'):
            for expanded in (False, True):
                yield {'seed': seed, 'enc': 'latin_1' if seed % 2 else 'cp500', 'blocked': bool(seed % 2), 'expanded': expanded, 'table': 'IP0040T1', 'multi_sub': ms}
                yield {'seed': seed, 'enc': 'latin_1', 'blocked': False, 'expanded': expanded, 'table': 'IP0999T1', 'generated': True, 'multi_sub': ms}
    yield {'seed': 1, 'enc': 'latin_1', 'blocked': True, 'expanded': False, 'table': 'IP0040T1', 'no_trailer': True}
    yield {'seed': 1, 'enc': 'latin_1', 'blocked': True, 'expanded': False, 'table': 'IP0777T1'}


if __name__ == '__main__':
    main(cases, oracle, BOUND)
