"""bounded stand-in for C09 (truncated files): every truncation offset of generated files vs reference parser."""
import io, os, sys
sys.path.insert(0, os.path.dirname(__file__))
from _common import main
import vbs_common as V

BOUND = 'files of 35..75 KiB cut around 4/8/16/32/64 KiB and at the end; records ending in runs of 0x40 (blank-filled data); VBS, blocked-VBS and IPM files of 1..7 records with record ends swept across block edges; every truncation offset 0..len (quick: every offset of 6 files; thorough: 40 files)'


def build(kind, lens):
    from cardutil.mciipm import VbsWriter, IpmWriter
    f = io.BytesIO()
    if kind == 'ipm':
        with IpmWriter(f, blocked=True) as w:
            for n in lens:
                w.write({'MTI': '1144', 'DE2': '4' * 16, 'DE72': 'y' * (n % 990 + 1)})
        return f.getvalue(), True
    blocked = kind in ('blocked', 'blocked40')
    with VbsWriter(f, blocked=blocked) as w:
        for i, n in enumerate(lens):
            # '...40' files: records are blank-filled (EBCDIC space = 0x40), as in real IPM data
            w.write((V.rec_bytes(n // 2, i) + b'\x40' * (n - n // 2)) if kind.endswith('40') else V.rec_bytes(n, i))
    return f.getvalue(), blocked


def oracle(inp):
    if inp.get('kind') == 'cut':
        data, blocked = build(inp['file'], inp['lens'])
        t = inp['t']
        if t > len(data):
            return None
        if inp['file'] == 'ipm':
            from cardutil.mciipm import IpmReader
            want, ending, _ = V.ref_parse(V.ref_payload(data[:t]))
            got, gend, exc = V.read_all(IpmReader(io.BytesIO(data[:t]), blocked=True))
            if gend.startswith('crash'):
                return 'other-exception: IPM file cut at %d raised %s' % (t, gend[6:])
            if len(got) != len(want):
                return 'records: IPM file cut at %d delivered %d records, %d are complete' % (t, len(got), len(want))
            return None
        return V.check_reader_on_stream(data[:t], blocked, '%s file lens=%s cut at %d/%d' % (inp['file'], inp['lens'], t, len(data)), expect_number=False)
    return V.generic_oracle(inp)


def cases(tier, rng):
    files = [('blocked40', [30, 2, 700]), ('vbs40', [9, 40]), ('blocked40', [1008, 1100, 6]), ('vbs', [10, 1, 300]), ('blocked', [1004]), ('blocked', [1008, 5]), ('blocked', [1007, 1010, 3]), ('blocked', [2100, 20]), ('ipm', [5, 500, 989, 3, 77, 800, 12])]
    if tier == 'thorough':
        for a in range(1000, 1017):
            files.append(('blocked', [a, 9]))
            files.append(('vbs', [a]))
    for kind, lens in files:
        data, _ = build(kind, lens)
        for t in range(len(data) + 1):
            yield {'kind': 'cut', 'file': kind, 'lens': lens, 't': t}
    # files above 16 / 64 KiB, cut at offsets around the usual buffer sizes and at the end
    for kind, lens in (('blocked', [500] * 70), ('vbs', [500] * 70), ('blocked', [6000] * 12), ('ipm', list(range(100, 420)))):
        data, _ = build(kind, lens)
        offs = set()
        for c in (4096, 8192, 16384, 32768, 65536, len(data)):
            offs |= {c + d for d in (-1015, -1014, -5, -1, 0, 1, 2, 4, 5, 1013, 1014) if 0 <= c + d <= len(data)}
        for t in sorted(offs):
            yield {'kind': 'cut', 'file': kind, 'lens': lens, 't': t}


if __name__ == '__main__':
    main(cases, oracle, BOUND, budget_s=(60, 900))
