"""bounded stand-in for C09 (truncated files): every truncation offset of generated files vs reference parser."""
import io, os, sys
sys.path.insert(0, os.path.dirname(__file__))
from _common import main
import vbs_common as V

BOUND = 'files on disk read through buffered handles (default, 16, 1024, 4096 bytes) with length prefixes straddling the buffer boundaries; list helper on cut data; one file object cut, rewound and read by a second reader; files of 35..75 KiB cut around 4/8/16/32/64 KiB and at the end; records ending in runs of 0x40 (blank-filled data); VBS, blocked-VBS and IPM files of 1..7 records with record ends swept across block edges; every truncation offset 0..len (quick: every offset of 6 files; thorough: 40 files)'


def build(kind, lens):
    from cardutil.mciipm import VbsWriter, IpmWriter
    f = io.BytesIO()
    if kind == 'ipm':
        with IpmWriter(f, blocked=True) as w:
            for n in lens:
                w.write({'MTI': '1144', 'DE2': '4' * 16, 'DE72': 'y' * (n % 990 + 1)})
        return f.getvalue(), True
    blocked = kind in ('blocked', 'blocked40')
    with VbsWriter(f, blocked=blocked) as w:
        for i, n in enumerate(lens):
            # '...40' files: records are blank-filled (EBCDIC space = 0x40), as in real IPM data
            w.write((V.rec_bytes(n // 2, i) + b'\x40' * (n - n // 2)) if kind.endswith('40') else V.rec_bytes(n, i))
    return f.getvalue(), blocked


def oracle_helper(inp):
    """vbs_bytes_to_list on cut data: the complete records, or the library's data error -- never fewer/other records with a normal end"""
    from cardutil.mciipm import vbs_bytes_to_list, MciIpmDataError
    data, blocked = build(inp['file'], inp['lens'])
    cut = data[:inp['t']]
    want, ending, _ = V.ref_parse(V.ref_payload(cut) if blocked else cut)
    try:
        got = vbs_bytes_to_list(cut, blocked=blocked)
    except MciIpmDataError:
        return None if ending == 'error' else 'helper: vbs_bytes_to_list raised the data error on a cut holding only complete records (%s lens=%s cut=%d)' % (inp['file'], inp['lens'], inp['t'])
    except Exception as e:
        return 'other-exception: vbs_bytes_to_list raised %s' % type(e).__name__
    if got != want:
        return 'helper: vbs_bytes_to_list delivered %d records, the surviving bytes hold %d complete ones (%s lens=%s cut=%d)' % (len(got), len(want), inp['file'], inp['lens'], inp['t'])
    return None


def oracle_same_handle(inp):
    """the same file object read again after being cut (or rewound): the second reader sees the surviving bytes only"""
    from cardutil.mciipm import VbsReader
    data, blocked = build(inp['file'], inp['lens'])
    f = io.BytesIO(data)
    first, e1, _ = V.read_all(VbsReader(f, blocked=blocked))
    f.truncate(inp['t'])
    f.seek(0)
    cut = data[:inp['t']]
    want, ending, _ = V.ref_parse(V.ref_payload(cut) if blocked else cut)
    got, gend, exc = V.read_all(VbsReader(f, blocked=blocked))
    if gend.startswith('crash'):
        return 'other-exception: second reader on the same handle raised %s' % gend[6:]
    if got != want:
        return 'same-handle: after the file object was cut to %d bytes and rewound, a new reader delivered %d records, %d survive (%s)' % (inp['t'], len(got), len(want), inp['file'])
    if gend != ending:
        return 'same-handle: new reader on the cut handle ended with %s, expected %s' % (gend, ending)
    return None


def oracle_real_file(inp):
    """the cut file on disk, read through a real buffered handle (what open() gives the command-line tools): a length prefix
    or record that straddles the handle's buffer boundary is read like any other"""
    import tempfile
    from cardutil.mciipm import VbsReader
    data, blocked = build(inp['file'], inp['lens'])
    cut = data[:inp['t']]
    want, ending, _ = V.ref_parse(V.ref_payload(cut) if blocked else cut)
    fd, path = tempfile.mkstemp(prefix='c09_')
    try:
        with os.fdopen(fd, 'wb') as fh:
            fh.write(cut)
        with open(path, 'rb', buffering=inp['buffering']) as fh:
            got, gend, exc = V.read_all(VbsReader(fh, blocked=blocked))
    finally:
        os.unlink(path)
    if gend.startswith('crash'):
        return 'other-exception: reader on a buffered file handle raised %s' % gend[6:]
    if got != want:
        return 'real-file: %s file of %d records cut at %d, read through open(..., buffering=%d): %d records delivered, %d are complete' % (inp['file'], len(inp['lens']), inp['t'], inp['buffering'], len(got), len(want))
    if gend != ending:
        return 'real-file: reader on the buffered handle ended with %s, expected %s' % (gend, ending)
    return None


def oracle(inp):
    if inp.get('kind') == 'real-file':
        return oracle_real_file(inp)
    if inp.get('kind') == 'helper-cut':
        return oracle_helper(inp)
    if inp.get('kind') == 'same-handle':
        return oracle_same_handle(inp)
    if inp.get('kind') == 'cut':
        data, blocked = build(inp['file'], inp['lens'])
        t = inp['t']
        if t > len(data):
            return None
        if inp['file'] == 'ipm':
            from cardutil.mciipm import IpmReader
            want, ending, _ = V.ref_parse(V.ref_payload(data[:t]))
            got, gend, exc = V.read_all(IpmReader(io.BytesIO(data[:t]), blocked=True))
            if gend.startswith('crash'):
                return 'other-exception: IPM file cut at %d raised %s' % (t, gend[6:])
            if len(got) != len(want):
                return 'records: IPM file cut at %d delivered %d records, %d are complete' % (t, len(got), len(want))
            return None
        return V.check_reader_on_stream(data[:t], blocked, '%s file lens=%s cut at %d/%d' % (inp['file'], inp['lens'], t, len(data)), expect_number=False)
    return V.generic_oracle(inp)


def cases(tier, rng):
    for kind, lens in (('blocked40', [30, 2, 700]), ('vbs40', [9, 40, 64]), ('blocked', [1004, 7]), ('vbs', [10, 1, 300])):
        data, _ = build(kind, lens)
        for t in range(0, len(data) + 1, 1 if len(data) < 500 else 3):
            yield {'kind': 'helper-cut', 'file': kind, 'lens': lens, 't': t}
        for t in sorted({0, 4, 14, len(data) // 2, 1014, 1500, len(data) - 1014, len(data) - 5, len(data)}):
            if 0 <= t <= len(data):
                yield {'kind': 'same-handle', 'file': kind, 'lens': lens, 't': t}
    files = [('blocked40', [30, 2, 700]), ('vbs40', [9, 40]), ('blocked40', [1008, 1100, 6]), ('vbs', [10, 1, 300]), ('blocked', [1004]), ('blocked', [1008, 5]), ('blocked', [1007, 1010, 3]), ('blocked', [2100, 20]), ('ipm', [5, 500, 989, 3, 77, 800, 12])]
    if tier == 'thorough':
        for a in range(1000, 1017):
            files.append(('blocked', [a, 9]))
            files.append(('vbs', [a]))
    for kind, lens in files:
        data, _ = build(kind, lens)
        for t in range(len(data) + 1):
            yield {'kind': 'cut', 'file': kind, 'lens': lens, 't': t}
    # files above 16 / 64 KiB, cut at offsets around the usual buffer sizes and at the end
    for kind, lens in (('blocked', [500] * 70), ('vbs', [500] * 70), ('blocked', [6000] * 12), ('ipm', list(range(100, 420)))):
        data, _ = build(kind, lens)
        offs = set()
        for c in (4096, 8192, 16384, 32768, 65536, len(data)):
            offs |= {c + d for d in (-1015, -1014, -5, -1, 0, 1, 2, 4, 5, 1013, 1014) if 0 <= c + d <= len(data)}
        for t in sorted(offs):
            yield {'kind': 'cut', 'file': kind, 'lens': lens, 't': t}
    # files on disk read through buffered handles (default buffer and small ones): small records so that length prefixes
    # straddle every buffer boundary; cut at the end, just after each boundary, and mid-record
    for kind, lens in (('vbs', [10] * 900), ('vbs', [3, 7, 11] * 700), ('blocked', [10] * 900), ('vbs', [1000] * 20)):
        data, _ = build(kind, lens)
        for buffering in (-1, 16, 1024, 4096):
            for t in sorted({len(data), len(data) - 4, len(data) - 7, 8192 + 14, 8206, 8193, 16384 + 9, 4097, 1030} if buffering == -1 else {len(data), 8206, 1030}):
                if 0 <= t <= len(data):
                    yield {'kind': 'real-file', 'file': kind, 'lens': lens, 't': t, 'buffering': buffering}


if __name__ == '__main__':
    main(cases, oracle, BOUND, budget_s=(60, 900))
