"""bounded stand-in for C05 (1014 unblocking): reads compared with an independent payload extraction."""
import io, os, sys
sys.path.insert(0, os.path.dirname(__file__))
from _common import main

BOUND = 'files of 17, 33 and 70 blocks; files with all-0x40 blocks at every position of 3 (whole and cut short); blocked inputs of 1..4 blocks (and cut short at arbitrary bytes) x delivered-so-far residues {0,1,4,1011,1012,1013} reached by 2 read chunkings x next read size 1..2030 (quick: edges +-3 and step 61; thorough: all) and read(); unblock_1014: every truncation length of 1..3-block files (quick: step 7 + edges) and every single-byte corruption of each trailer byte'


def blocked(nblocks, seed=0, pad_blocks=()):
    out = b''
    for j in range(nblocks):
        if j in pad_blocks or -1 in pad_blocks:
            out += b'\x40' * 1014       # a block whose payload is all 0x40 (blank-filled record data, or the last block of a file)
            continue
        out += bytes(((i * 7 + j * 13 + seed) % 250) + 1 if ((i * 7 + j * 13 + seed) % 250) + 1 != 0x40 else 0xFD for i in range(1012)) + b'\x40\x40'
    return out


def payload_of(c):
    return b''.join(c[i:i + 1014][:1012] for i in range(0, len(c), 1014))


def run_reads(content, sizes):
    from cardutil.mciipm import Unblock1014
    u = Unblock1014(io.BytesIO(content))
    P = payload_of(content)
    d = 0
    for k in sizes:
        out = u.read() if k is None else u.read(k)
        want = P[d:] if k is None else P[d:d + k]
        if out != want:
            return 'read: sizes=%s on a %d-byte file: read(%s) after %d delivered bytes returned %d bytes, expected %d (%s)' % (
                sizes, len(content), k, d, len(out), len(want), 'content differs' if len(out) == len(want) else 'length differs')
        d += len(out)
    return None


def oracle(inp):
    if not isinstance(inp, dict) or inp.get('kind') not in ('read','unblock_fn','inverse'):
        return None          # unknown input kind (model of another property's unit)
    from cardutil.mciipm import unblock_1014, block_1014, MciIpmDataError
    kind = inp['kind']
    if kind == 'read':
        if 'sizes' in inp:
            return run_reads(blocked(inp['nblocks'], pad_blocks=tuple(inp.get('pad_blocks', ())))[:inp.get('cut')], inp['sizes'])
        L, d, k = inp['filelen'], inp['delivered'], inp['k']
        if not (0 <= L <= 6000 and 0 <= d <= 6000 and (k is None or 1 <= k <= 7000)):
            return None
        content = (blocked(L // 1014 + 1))[:L]
        pre = [d] if d else []
        r = run_reads(content, pre + [k])
        if r:
            return r
        if d > 1:
            return run_reads(content, [1, d - 1, k])
        return None
    if kind == 'unblock_fn':
        if 'data' in inp:
            content = bytes.fromhex(inp['data'])
        else:
            L, q = inp['filelen'], inp['badblock']
            if not 0 <= L <= 80000:
                return None
            content = bytearray(blocked(L // 1014 + 1)[:L])
            if 0 <= q < L // 1014:
                content[1014 * q + 1012] = 0x41
            content = bytes(content)
        good = len(content) % 1014 == 0 and all(content[i + 1012:i + 1014] == b'\x40\x40' for i in range(0, len(content), 1014))
        fo = io.BytesIO()
        try:
            unblock_1014(io.BytesIO(content), fo)
        except MciIpmDataError:
            return 'refusal: unblock_1014 refused a well-formed %d-byte input' % len(content) if good else None
        if not good:
            return 'acceptance: unblock_1014 accepted a malformed input (len %d, trailers %s)' % (
                len(content), [content[i + 1012:i + 1014].hex() for i in range(0, len(content), 1014)])
        if fo.getvalue() != payload_of(content):
            return 'output: unblock_1014 output differs from the payload of its input'
        return None
    if kind == 'inverse':
        d = bytes((i % 200) + 1 for i in range(inp['n']))
        fb, fu = io.BytesIO(), io.BytesIO()
        block_1014(io.BytesIO(d), fb)
        unblock_1014(io.BytesIO(fb.getvalue()), fu)
        u = fu.getvalue()
        if u[:len(d)] != d or u[len(d):].strip(b'\x40'):
            return 'inverse: unblock_1014(block_1014(d)) is not d followed by fill (n=%d)' % inp['n']
        return None


def cases(tier, rng):
    edges = sorted({e + d for e in (0, 1012, 1014, 2024, 2028) for d in range(-3, 4) if e + d >= 1})
    sizes = list(range(1, 2031)) if tier == 'thorough' else sorted(set(edges) | set(range(1, 2031, 61)))
    for nb in (1, 2, 3, 4):
        for pre in ([], [1], [4], [1011], [1012], [1013], [1000, 12], [4, 1009], [2024]):
            for k in sizes:
                yield {'kind': 'read', 'nblocks': nb, 'sizes': pre + [k, 5, None]}
            yield {'kind': 'read', 'nblocks': nb, 'sizes': pre + [None, 3]}
    for pads in ([0], [1], [0, 1], [2], [-1], [0, 2]):
        for szs in ([None], [1, None], [1012, 1012, 1012, None], [1013, None], [2024, 1, None], [3036, None], [4, 1008, 4, None], [5000]):
            yield {'kind': 'read', 'nblocks': 3, 'pad_blocks': pads, 'sizes': szs}
        for cut in (1013, 1014, 1500, 2027, 2028, 2029, 2500, 3041):
            yield {'kind': 'read', 'nblocks': 3, 'pad_blocks': pads, 'cut': cut, 'sizes': [7, None]}
            yield {'kind': 'read', 'nblocks': 3, 'pad_blocks': pads, 'cut': cut, 'sizes': [None]}
    for nb in (17, 33, 70):
        for szs in ([None], [5000] * (nb // 4) + [None], [16384, 1, None], [1012 * nb - 1, 5, 5], [100000]):
            yield {'kind': 'read', 'nblocks': nb, 'sizes': szs}
        yield {'kind': 'inverse', 'n': 1012 * nb - 7}
        yield {'kind': 'unblock_fn', 'filelen': 1014 * nb, 'badblock': -1}
        yield {'kind': 'unblock_fn', 'filelen': 1014 * nb, 'badblock': nb - 1}
        yield {'kind': 'unblock_fn', 'filelen': 1014 * nb, 'badblock': 16}
    for cut in (1, 500, 1012, 1013, 1014, 1015, 2027, 2028, 2029):
        for k in (1, 4, 1011, 1012, 1013, 2000):
            yield {'kind': 'read', 'nblocks': 3, 'cut': cut, 'sizes': [k, k, None]}
    for nb in (1, 2, 3):
        full = blocked(nb)
        step = 1 if tier == 'thorough' else 7
        for t in sorted(set(range(0, len(full) + 1, step)) | {len(full) - 1, len(full), 1012, 1013, 1014, 1015}):
            if t <= len(full):
                yield {'kind': 'unblock_fn', 'data': full[:t].hex()}
        for j in range(nb):
            for off in (1012, 1013):
                for v in (0x00, 0x20, 0x41, 0xff):
                    c = bytearray(full)
                    c[1014 * j + off] = v
                    yield {'kind': 'unblock_fn', 'data': bytes(c).hex()}
    for n in list(range(0, 3100, 1 if tier == 'thorough' else 41)) + [1011, 1012, 1013, 2023, 2024, 2025]:
        yield {'kind': 'inverse', 'n': n}
    for _ in range(100 if tier == 'quick' else 2000):
        yield {'kind': 'read', 'nblocks': rng.randint(1, 5), 'sizes': [rng.choice([1, 4, 300, 1011, 1012, 1013, 1014, 2000, rng.randint(1, 3000)]) for _ in range(rng.randint(1, 8))] + [None]}


if __name__ == '__main__':
    main(cases, oracle, BOUND, budget_s=(40, 400))
