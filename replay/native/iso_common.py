"""independent reference codec for the ISO 8583 layout of the property statements (C01, C02, C06, C07, C08, C12, C16),
written from the documented format, driven by the configuration dictionary only."""
import datetime, decimal, binascii, random


class Refuse(Exception):
    pass


def ls_of(c):
    return {'FIXED': 0, 'LLVAR': 2, 'LLLVAR': 3}[c['field_type']]


def ref_str(c, v):
    t = c.get('field_python_type')
    if t in ('int', 'long'):
        return '%0*d' % (c.get('field_length', 0), int(v))
    if t == 'datetime':
        return v.strftime(c.get('field_date_format', '%y%m%d'))
    if t == 'decimal':
        return format(decimal.Decimal(v), '0%df' % c.get('field_length', 0))
    return v


def ref_pds_carriers(msg):
    items = sorted((k, v) for k, v in msg.items() if k.startswith('PDS'))
    out, cur = [], ''
    for k, v in items:
        it = '%04d%03d%s' % (int(k[3:]), len(v), v)
        if len(cur) + len(it) > 999:
            out.append(cur)
            cur = ''
        cur += it
    if cur:
        out.append(cur)
    return out


def ref_encode(msg, cfg, enc, hexb=False):
    m = dict(msg)
    pds_bits = sorted(int(k) for k, c in cfg.items() if c.get('field_processor') == 'PDS')
    for bit, carrier in zip(pds_bits, ref_pds_carriers(m)):
        m['DE%d' % bit] = carrier
    bm = bytearray(16)
    bm[0] |= 0x80
    body = b''
    for bit in range(2, 128):
        v = m.get('DE%d' % bit)
        if v is None or (v == '' or v == b''):
            continue
        c = cfg[str(bit)]
        bm[(bit - 1) // 8] |= 1 << (7 - (bit - 1) % 8)
        ls = ls_of(c)
        if isinstance(v, bytes):
            data = v
        else:
            s = ref_str(c, v)
            if ls == 0:
                s = s[:c['field_length']].ljust(c['field_length'])
            data = s.encode(enc)
        if ls:
            if len(data) > 10 ** ls - 1:
                raise Refuse()
            data = ('%0*d' % (ls, len(data))).encode(enc) + data
        body += data
    return m.get('MTI', '').encode(enc) + (binascii.hexlify(bytes(bm)) if hexb else bytes(bm)) + body


def ref_decode(raw, cfg, enc, hexb=False, strict=True):
    """strict reading: returns dict of element values (text / bytes / typed) or raises Refuse"""
    hl = 36 if hexb else 20
    if len(raw) < hl:
        raise Refuse()
    try:
        mti = raw[:4].decode(enc)
        int(mti)
        bm = binascii.unhexlify(raw[4:36]) if hexb else raw[4:20]
    except (ValueError, UnicodeError):
        raise Refuse()
    data = raw[hl:]
    out = {'MTI': mti}
    p = 0
    framing = []
    for bit in range(2, 128):
        if not (bm[(bit - 1) // 8] >> (7 - (bit - 1) % 8)) & 1:
            continue
        c = cfg.get(str(bit))
        if not c:
            raise Refuse()
        ls = ls_of(c)
        if ls:
            pre = data[p:p + ls]
            try:
                ps = pre.decode(enc)
            except UnicodeError:
                raise Refuse()
            if len(ps) != ls or not (ps.isascii() and ps.isdigit()):
                raise Refuse('nondigit')
            L = int(ps)
        else:
            L = c['field_length']
        if p + ls + L > len(data):
            raise Refuse()
        body = data[p + ls:p + ls + L]
        framing.append((bit, p, ls, L))
        p += ls + L
        if c.get('field_processor') == 'ICC':
            out['DE%d' % bit] = body
        else:
            try:
                s = body.decode(enc)
            except UnicodeError:
                raise Refuse()
            t = c.get('field_python_type')
            try:
                if t in ('int', 'long'):
                    s = int(s)
                elif t == 'decimal':
                    s = decimal.Decimal(s)
                elif t == 'datetime':
                    s = datetime.datetime.strptime(s, c.get('field_date_format', '%y%m%d'))
            except (ValueError, decimal.InvalidOperation):
                raise Refuse()
            if c.get('field_processor') == 'PAN' and isinstance(s, str):
                s = s[:6] + '*' * (len(s) - 10) + s[-4:]
            if c.get('field_processor') == 'PAN-PREFIX' and isinstance(s, str):
                s = s[:9]
            out['DE%d' % bit] = s
            if c.get('field_processor') == 'PDS':
                q = 0
                while q < len(s):
                    tag, ln = s[q:q + 4], s[q + 4:q + 7]
                    if len(ln) != 3 or not (ln.isascii() and ln.isdigit()):
                        raise Refuse()
                    out['PDS' + tag] = s[q + 7:q + 7 + int(ln)]
                    q += 7 + int(ln)
    if p != len(data):
        raise Refuse()
    out['__framing__'] = framing
    return out


def packaged():
    from cardutil.config import config
    return config['bit_config']


def sample_value(c, rng, length=None):
    ls = ls_of(c)
    t = c.get('field_python_type')
    if c.get('field_processor') == 'ICC':
        n = length if length is not None else rng.randint(1, 40)
        body = bytes(rng.randrange(256) for _ in range(max(0, n - 2)))
        return b'\x9a' + bytes([len(body)]) + body if n >= 2 else b'\x00'
    if t in ('int', 'long'):
        W = c['field_length']
        return rng.choice([0, 1, 10 ** W - 1, rng.randrange(10 ** W)])
    if t == 'datetime':
        return datetime.datetime(rng.choice([1969, 1999, 2000, 2024, 2068]), rng.randint(1, 12), rng.randint(1, 28), rng.randint(0, 23), rng.randint(0, 59), rng.randint(0, 59))
    alphabet = 'ABCDEFGHIJKLMNOPQRSTUVWXYZ0123456789 abcxyz'
    if ls == 0:
        n = c['field_length']
    else:
        n = length if length is not None else rng.choice([1, 2, 9, 10, 10 ** ls - 1, rng.randint(1, 10 ** ls - 1)])
    if c.get('field_processor') == 'PDS':
        return None
    if c.get('field_processor') == 'DE43':
        s = 'NAME\\ADDR\\SUBURB\\2000      NSWAUS'
        return s
    return ''.join(rng.choice(alphabet) for _ in range(n))
