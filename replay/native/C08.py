"""bounded stand-in for C08 (exact framing on decode): strict reference decoder on valid messages and their mutations."""
import os, sys
sys.path.insert(0, os.path.dirname(__file__))
from _common import main, j2b, b2j
import iso_common as R

BOUND = 'hex-rendered bitmaps incl. fields with blanks, signs, underscores, 0x prefixes, newlines at 7 positions; each base message also under 3 re-orderings of the configuration keys and with bitmap bit 1 cleared; 15 base messages of text elements and their mutations: length digits replaced by sign, space, underscore, non-ASCII digits; lengths pointing before, at and past the end; declared lengths above configured maxima; bitmap bits added/removed; truncation and extension (about 1500 messages, quick) ; compared with a strict reference decoder'


def reorder(cfg, how):
    """the same configuration with its keys in another order (a configuration is a mapping: order carries no meaning)"""
    keys = list(cfg)
    if how == 'reversed':
        keys = keys[::-1]
    elif how == 'text-sorted':          # what json.dumps(sort_keys=True) / a YAML round trip produces: '1','10','100',...,'2','20'
        keys = sorted(keys)
    elif how == 'rotated':
        keys = keys[len(keys) // 2:] + keys[:len(keys) // 2]
    return {k: cfg[k] for k in keys}


def check_hex(raw, enc='latin_1'):
    """hex bitmap rendering: accepted iff the strict reference reading (32 hex digits, then exact framing) accepts; same values"""
    from cardutil.iso8583 import loads, Iso8583DataError
    cfg = R.packaged()
    try:
        ref = R.ref_decode(raw, cfg, enc, hexb=True)
    except R.Refuse as r:
        ref = None
        nondigit = (r.args[:1] == ('nondigit',))
    try:
        got = loads(raw, encoding=enc, hex_bitmap=True)
    except Iso8583DataError:
        got = None
    field = raw[4:36]
    is_hex = len(field) == 32 and all(chr(b) in '0123456789abcdefABCDEF' for b in field)
    if got is not None and not is_hex:
        return 'acceptance: message accepted although its bitmap field %r is not 32 hex digits' % field
    if got is None:
        return 'acceptance: well-framed hex-bitmap message rejected' if ref is not None else None
    if ref is None:
        return None if nondigit else 'framing: hex-bitmap message accepted that the strict reading refuses'
    for k, v in ref.items():
        if k != '__framing__' and got.get(k) != v:
            return 'value: %s decoded as %r, its own bytes hold %r (hex bitmap)' % (k, got.get(k), v)
    return None


def check(raw, enc='latin_1', order=None):
    from cardutil.iso8583 import loads, Iso8583DataError
    cfg = R.packaged()
    kw = {}
    if order:
        kw['iso_config'] = reorder(cfg, order)
    try:
        ref = R.ref_decode(raw, cfg, enc)
        ref_ok, nondigit = True, False
    except R.Refuse as r:
        ref, ref_ok, nondigit = None, False, (r.args[:1] == ('nondigit',))
    try:
        got = loads(raw, encoding=enc, **kw)
    except Iso8583DataError:
        got = None
    if got is None:
        return 'acceptance: well-framed message rejected (%r...)' % raw[20:40] if ref_ok else None
    if ref_ok:
        for k, v in ref.items():
            if k != '__framing__' and got.get(k) != v:
                return 'value: %s decoded as %r, its own bytes hold %r' % (k, got.get(k), v)
        return None
    # accepted although the strict reader refuses: allowed only for non-plain-digit numerals, and then still framed exactly
    hl = 20
    bm = raw[4:20]
    bits = [b for b in range(2, 128) if (bm[(b - 1) // 8] >> (7 - (b - 1) % 8)) & 1]
    data = raw[hl:]
    des = sorted(int(k[2:]) for k in got if k.startswith('DE') and k[2:].isdigit())
    if des != bits:
        return 'framing: accepted with elements %s, bitmap flags %s' % (des, bits)
    p = 0
    for b in bits:
        c = cfg[str(b)]
        ls = R.ls_of(c)
        v = got['DE%d' % b]
        if ls == 0:
            L = c['field_length']
        elif isinstance(v, (str, bytes)) and c.get('field_processor') not in ('PAN', 'PAN-PREFIX'):
            L = len(v)
            pre = data[p:p + ls]
            if pre.isdigit() and pre.isascii() and int(pre) != L:
                return 'framing: DE%d declares %s bytes but was given %d' % (b, pre, L)
        else:
            return None
        if isinstance(v, str) and c.get('field_python_type') is None and c.get('field_processor') in (None, 'DE43', 'PDS'):
            if data[p + ls:p + ls + L].decode(enc, 'replace') != v:
                return 'framing: DE%d is not the content of its own bytes' % b
        p += ls + L
    if p != len(data):
        return 'framing: accepted message whose elements cover %d of %d data bytes (not well framed%s)' % (p, len(data), ', non-digit numeral' if nondigit else '')
    return None


def oracle(inp):
    inp = j2b(inp)
    if inp.get('kind') == 'history':
        import C02
        return C02.check_history(inp)           # a configuration used before, then edited / copied / re-ordered: framing follows the configuration as it is NOW
    if inp.get('kind') == 'missing-cfg':
        # the caller's configuration does not know an element the message flags (the packaged one does): no exact reading exists
        from cardutil.iso8583 import loads, Iso8583DataError
        import copy
        raw = j2b(inp['raw']) if not isinstance(inp['raw'], bytes) else inp['raw']
        cfg = copy.deepcopy(dict(R.packaged()))
        cfg.pop(str(inp['bit']), None)
        try:
            got = loads(raw, iso_config=cfg)
        except Iso8583DataError:
            return None
        return 'acceptance: message flagging DE%d accepted under a configuration that has no entry for it (decoded keys %s)' % (inp['bit'], sorted(got)[:6])
    if inp.get('kind') == 'rawhex':
        return check_hex(inp['raw'])
    if inp.get('kind') == 'raw':
        return check(inp['raw'], order=inp.get('order'))
    if inp.get('kind') == 'framing' and isinstance(inp.get('data'), bytes):
        bm = bytearray(16); bm[0] |= 0x80
        for b in inp['bits']:
            bm[(b - 1) // 8] |= 1 << (7 - (b - 1) % 8)
        return check(b'1144' + bytes(bm) + inp['data'])
    if inp.get('kind') == 'decode-field' and isinstance(inp.get('data'), bytes):
        bit = {'LLVAR,text': 2, 'LLLVAR,text': 72, 'FIXED,text': 3}.get(inp['shape'])
        if bit is None:
            return None
        bm = bytearray(16); bm[0] |= 0x80; bm[(bit - 1) // 8] |= 1 << (7 - (bit - 1) % 8)
        return check(b'1144' + bytes(bm) + inp['data'])
    return None


def cases(tier, rng):
    from cardutil.iso8583 import dumps
    cfg = R.packaged()
    text_bits = [int(b) for b in cfg if b != '1' and not cfg[b].get('field_python_type') and cfg[b].get('field_processor') in (None,)]
    bases = []
    for _ in range(15):
        bs = sorted(rng.sample(text_bits, rng.randint(1, 5)))
        msg = {'MTI': '1144'}
        for b in bs:
            msg['DE%d' % b] = R.sample_value(cfg[str(b)], rng, rng.randint(1, 30))
        bases.append((bs, dumps(msg)))
    bases.append(([31, 33], dumps({'MTI': '1144', 'DE31': 'a' * 23, 'DE33': 'abcd'})))
    bases.append(([2, 3], dumps({'MTI': '1144', 'DE2': '4444555566667777', 'DE3': '000000'})))
    bases.append(([3, 24, 71, 94], dumps({'MTI': '1144', 'DE3': '123456', 'DE24': '200', 'DE71': '00000001', 'DE94': 'abc'})))
    import C02
    for c in C02.cases('quick', rng):
        if c.get('kind') != 'history':
            break
        yield c
    # hex rendering of the bitmap: valid messages, and bitmap fields that int()/fromhex() tolerate but are not hex renderings
    import binascii
    for bs, raw in bases[:8]:
        hx = raw[:4] + binascii.hexlify(raw[4:20]) + raw[20:]
        yield {'kind': 'rawhex', 'raw': b2j(hx)}
        yield {'kind': 'rawhex', 'raw': b2j(hx[:4] + hx[4:36].upper() + hx[36:])}
        yield {'kind': 'rawhex', 'raw': b2j(hx[:-1])}
        for pos in (0, 1, 2, 15, 16, 30, 31):
            for ch in b' +-_xXgG\n\t:':
                d = bytearray(hx); d[4 + pos] = ch
                yield {'kind': 'rawhex', 'raw': b2j(bytes(d))}
        for bad in (b' ' + hx[4:35], hx[5:36] + b' ', b'0x' + hx[6:36], b'+' + hx[5:36], hx[4:20] + b'_' + hx[21:36], hx[4:6] + b'  ' + hx[8:36], hx[4:34] + b'\n\n'):
            yield {'kind': 'rawhex', 'raw': b2j(hx[:4] + bad + hx[36:])}
    for bs, raw in bases[:10]:
        yield {'kind': 'missing-cfg', 'raw': b2j(raw), 'bit': bs[0]}
        yield {'kind': 'missing-cfg', 'raw': b2j(raw), 'bit': bs[-1]}
    for bs, raw in bases:
        yield {'kind': 'raw', 'raw': b2j(raw)}
        # the same message under the same configuration listed in another key order
        for order in ('reversed', 'text-sorted', 'rotated'):
            yield {'kind': 'raw', 'raw': b2j(raw), 'order': order}
            yield {'kind': 'raw', 'raw': b2j(raw[:-1]), 'order': order}
        # bit 1 clear (cardutil's own encoder always sets it; other producers need not): elements above 64 still occupy their bytes
        d = bytearray(raw); d[4] &= 0x7f
        yield {'kind': 'raw', 'raw': b2j(bytes(d))}
        yield {'kind': 'raw', 'raw': b2j(bytes(d)[:-1])}
        ref = R.ref_decode(raw, cfg, 'latin_1')
        for bit, p, ls, L in ref['__framing__']:
            for k in range(ls):
                for ch in b'-+ _\xb2\xb9\xf1:0' + bytes([0x39]):
                    d = bytearray(raw); d[20 + p + k] = ch
                    yield {'kind': 'raw', 'raw': b2j(bytes(d))}
            if ls:
                for newL in (0, 1, L - 1, L + 1, L + 2, len(raw), 10 ** ls - 1):
                    if 0 <= newL < 10 ** ls:
                        d = bytearray(raw); d[20 + p:20 + p + ls] = (b'%0*d' % (ls, newL))
                        yield {'kind': 'raw', 'raw': b2j(bytes(d))}
        for t in range(20, len(raw) + 1):
            yield {'kind': 'raw', 'raw': b2j(raw[:t])}
        yield {'kind': 'raw', 'raw': b2j(raw + b'x')}
        yield {'kind': 'raw', 'raw': b2j(raw + b'04abcd')}
        for b in text_bits[:20] + [126, 127]:
            d = bytearray(raw); d[4 + (b - 1) // 8] ^= 1 << (7 - (b - 1) % 8)
            yield {'kind': 'raw', 'raw': b2j(bytes(d))}
    # declared length above a configured maximum, tail parses as the remaining elements
    bm = bytearray(16); bm[0] |= 0x80
    for b in (31, 33):
        bm[(b - 1) // 8] |= 1 << (7 - (b - 1) % 8)
    yield {'kind': 'raw', 'raw': b2j(b'1144' + bytes(bm) + b'25' + b'a' * 23 + b'04abcd')}


if __name__ == '__main__':
    main(cases, oracle, BOUND, budget_s=(40, 600))
