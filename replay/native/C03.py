"""bounded stand-in for C03 (VBS framing round trip and byte-exact layout)."""
import os, sys
sys.path.insert(0, os.path.dirname(__file__))
from _common import main, b2j, j2b
import vbs_common as V

BOUND = 'configured maximum length changed between reads; helpers without the blocked argument on data that looks blocked; files of 30, 70 and 25 KiB; single-record files of every length 1..6000 (quick: 1..40, every length within +-6 of k*1012-4 and k*1012, step 37 otherwise; thorough: all), blocked and unblocked; multi-record lists sweeping block offsets; 0x00/0x40 runs; class API, write_many and list/bytes functions'


def maxlen_history(inp):
    """the configured maximum record length is read when a record is read, not remembered from an earlier read"""
    from cardutil.config import config
    from cardutil.mciipm import VbsReader, vbs_list_to_bytes, MciIpmDataError
    import io
    old = config.get('MAX_VBS_RECORD_LENGTH', None)
    try:
        for limit, n in inp['steps']:
            if limit is None:
                config.pop('MAX_VBS_RECORD_LENGTH', None)
            else:
                config['MAX_VBS_RECORD_LENGTH'] = limit
            eff = limit or 6000
            data = V.ref_frame([V.rec_bytes(n, 3)])
            if inp['blocked']:
                data = V.ref_block(data)
            got, end, exc = V.read_all(VbsReader(io.BytesIO(data), blocked=inp['blocked']))
            if n <= eff and (end != 'end' or got != [V.rec_bytes(n, 3)]):
                return 'maxlen-history: record of %d bytes under a configured maximum of %d not read back (%s) after steps %s' % (n, eff, end, inp['steps'])
            if n > eff and end != 'error':
                return 'maxlen-history: record of %d bytes above the configured maximum of %d was delivered after steps %s' % (n, eff, inp['steps'])
    finally:
        if old is None:
            config.pop('MAX_VBS_RECORD_LENGTH', None)
        else:
            config['MAX_VBS_RECORD_LENGTH'] = old
    return None


def helper_default(inp):
    """vbs_bytes_to_list / vbs_list_to_bytes called without the optional `blocked` argument mean unblocked, whatever the data looks like"""
    from cardutil.mciipm import vbs_list_to_bytes, vbs_bytes_to_list
    recs = [bytes([fill]) * n if fill is not None else V.rec_bytes(n, i) for i, (n, fill) in enumerate(inp['recs'])]
    data = vbs_list_to_bytes(recs)
    if data != V.ref_frame(recs):
        return 'helper-default: vbs_list_to_bytes(records) is not the unblocked VBS stream'
    back = vbs_bytes_to_list(data)
    if back != recs:
        return 'helper-default: vbs_bytes_to_list(vbs_list_to_bytes(records)) returned %d records, wrote %d (lens %s)' % (len(back), len(recs), [len(r) for r in recs][:5])
    return None


def oracle(inp):
    if inp.get('kind') == 'maxlen-history':
        return maxlen_history(inp)
    if inp.get('kind') == 'helper-default':
        return helper_default(inp)
    if inp.get('kind') == 'rt':
        recs = [V.rec_bytes(n, i) if fill is None else bytes([fill]) * n for i, (n, fill) in enumerate(inp['recs'])]
        return V.oracle_roundtrip(recs, inp['blocked'], inp.get('api', 'class'))
    return V.generic_oracle(inp)


def cases(tier, rng):
    for blocked in (False, True):
        yield {'kind': 'maxlen-history', 'blocked': blocked, 'steps': [[100, 50], [100, 101], [None, 101], [None, 6000], [None, 6001]]}
        yield {'kind': 'maxlen-history', 'blocked': blocked, 'steps': [[None, 500], [200, 201], [200, 200], [7000, 6500], [None, 6500]]}
    # data that looks blocked (0x40 0x40 where block trailers would be) through the helpers without `blocked=`
    for recs in ([[3000, 0x40]], [[6000, 0x40], [1, 0x40], [2020, 0x40]], [[1006, 0x40]], [[1008, None], [1006, 0x40], [5, None]], [[5, None]], []):
        yield {'kind': 'helper-default', 'recs': recs}
    near = set()
    for k in range(1, 7):
        for d in range(-6, 7):
            for base in (k * 1012, k * 1012 - 4, k * 1012 - 8):
                if 1 <= base + d <= 6000:
                    near.add(base + d)
    lens = range(1, 6001) if tier == 'thorough' else sorted(near | set(range(1, 41)) | set(range(1, 6001, 37)) | {5999, 6000})
    for blocked in (True, False):
        for n in lens:
            yield {'kind': 'rt', 'recs': [[n, None]], 'blocked': blocked, 'api': 'class' if n % 3 else ('list' if n % 2 else 'many')}
    for blocked in (True, False):
        for first in list(range(1000, 1020)) + [2016, 2020, 2024]:
            yield {'kind': 'rt', 'recs': [[first, None], [7, 0x40], [300, 0x00], [1012, None], [1, 0x40]], 'blocked': blocked}
        yield {'kind': 'rt', 'recs': [[3, 0x40]] * 400, 'blocked': blocked, 'api': 'many'}
        for n in (1008, 1012, 1016, 2020, 2024, 3000):
            for api in ('class', 'list'):
                yield {'kind': 'rt', 'recs': [[n, 0x40]], 'blocked': blocked, 'api': api}
                yield {'kind': 'rt', 'recs': [[5, None], [n, 0x40], [n, 0x40], [2, None]], 'blocked': blocked, 'api': api}
        yield {'kind': 'rt', 'recs': [], 'blocked': blocked}
        # files well above 16 / 64 KiB (usual buffer sizes): many small, several large, and mixed records
        for api in ('class', 'many', 'list'):
            yield {'kind': 'rt', 'recs': [[500, None]] * 60, 'blocked': blocked, 'api': api}
            yield {'kind': 'rt', 'recs': [[6000, None]] * 12, 'blocked': blocked, 'api': api}
            yield {'kind': 'rt', 'recs': [[20, None]] * 1000 + [[3000, 0x40], [7, None]], 'blocked': blocked, 'api': api}
    for _ in range(60 if tier == 'quick' else 1500):
        yield {'kind': 'rt', 'recs': [[rng.choice([1, 2, 4, 1008, 1012, 1016, 2020, 6000, rng.randint(1, 6000)]), rng.choice([None, 0, 0x40])] for _ in range(rng.randint(1, 9))],
               'blocked': rng.random() < 0.5, 'api': rng.choice(['class', 'many', 'list'])}


if __name__ == '__main__':
    main(cases, oracle, BOUND, budget_s=(40, 600))
