"""bounded stand-in for C03 (VBS framing round trip and byte-exact layout)."""
import os, sys
sys.path.insert(0, os.path.dirname(__file__))
from _common import main, b2j, j2b
import vbs_common as V

BOUND = 'files of 30, 70 and 25 KiB; single-record files of every length 1..6000 (quick: 1..40, every length within +-6 of k*1012-4 and k*1012, step 37 otherwise; thorough: all), blocked and unblocked; multi-record lists sweeping block offsets; 0x00/0x40 runs; class API, write_many and list/bytes functions'


def oracle(inp):
    if inp.get('kind') == 'rt':
        recs = [V.rec_bytes(n, i) if fill is None else bytes([fill]) * n for i, (n, fill) in enumerate(inp['recs'])]
        return V.oracle_roundtrip(recs, inp['blocked'], inp.get('api', 'class'))
    return V.generic_oracle(inp)


def cases(tier, rng):
    near = set()
    for k in range(1, 7):
        for d in range(-6, 7):
            for base in (k * 1012, k * 1012 - 4, k * 1012 - 8):
                if 1 <= base + d <= 6000:
                    near.add(base + d)
    lens = range(1, 6001) if tier == 'thorough' else sorted(near | set(range(1, 41)) | set(range(1, 6001, 37)) | {5999, 6000})
    for blocked in (True, False):
        for n in lens:
            yield {'kind': 'rt', 'recs': [[n, None]], 'blocked': blocked, 'api': 'class' if n % 3 else ('list' if n % 2 else 'many')}
    for blocked in (True, False):
        for first in list(range(1000, 1020)) + [2016, 2020, 2024]:
            yield {'kind': 'rt', 'recs': [[first, None], [7, 0x40], [300, 0x00], [1012, None], [1, 0x40]], 'blocked': blocked}
        yield {'kind': 'rt', 'recs': [[3, 0x40]] * 400, 'blocked': blocked, 'api': 'many'}
        for n in (1008, 1012, 1016, 2020, 2024, 3000):
            for api in ('class', 'list'):
                yield {'kind': 'rt', 'recs': [[n, 0x40]], 'blocked': blocked, 'api': api}
                yield {'kind': 'rt', 'recs': [[5, None], [n, 0x40], [n, 0x40], [2, None]], 'blocked': blocked, 'api': api}
        yield {'kind': 'rt', 'recs': [], 'blocked': blocked}
        # files well above 16 / 64 KiB (usual buffer sizes): many small, several large, and mixed records
        for api in ('class', 'many', 'list'):
            yield {'kind': 'rt', 'recs': [[500, None]] * 60, 'blocked': blocked, 'api': api}
            yield {'kind': 'rt', 'recs': [[6000, None]] * 12, 'blocked': blocked, 'api': api}
            yield {'kind': 'rt', 'recs': [[20, None]] * 1000 + [[3000, 0x40], [7, None]], 'blocked': blocked, 'api': api}
    for _ in range(60 if tier == 'quick' else 1500):
        yield {'kind': 'rt', 'recs': [[rng.choice([1, 2, 4, 1008, 1012, 1016, 2020, 6000, rng.randint(1, 6000)]), rng.choice([None, 0, 0x40])] for _ in range(rng.randint(1, 9))],
               'blocked': rng.random() < 0.5, 'api': rng.choice(['class', 'many', 'list'])}


if __name__ == '__main__':
    main(cases, oracle, BOUND, budget_s=(40, 600))
