"""bounded stand-in for C04 (1014 blocking): position-coded data, independent layout checker."""
import io, os, sys
sys.path.insert(0, os.path.dirname(__file__))
from _common import main

BOUND = 'blocked output of the list helper and of the writer class (8 record sets); streams of 4..70 KiB around the usual buffer sizes; data that is itself all 0x40 / all 0x00 (one-shot and streaming, block-edge lengths); every residue of bytes-already-written mod 1012 in {0,1,2,505,506,1010,1011} reached by 2 chunkings (trailer pending and trailer written for residue 0) x every next write length 0..3040 (quick: step 1 around block edges +-3, else step 97; thorough: all) ; one-shot blocker for n in 0..3100; finalise via seek(0) and close()'


def data(n, off=0, fill=None):
    if fill is not None:
        return bytes([fill]) * n          # data that looks like fill (EBCDIC blanks) or like nothing (zeros)
    return bytes(((i + off) % 251) + 1 if ((i + off) % 251) + 1 != 0x40 else 0xFE for i in range(n))


def check_layout(out, written, what):
    if len(out) % 1014:
        return 'layout: %s output length %d is not a multiple of 1014' % (what, len(out))
    nb = len(out) // 1014
    payload = b''
    for j in range(nb):
        blk = out[1014 * j:1014 * (j + 1)]
        if blk[1012:] != b'\x40\x40':
            return 'layout: %s block %d does not end in 40 40' % (what, j)
        payload += blk[:1012]
    if payload[:len(written)] != written:
        return 'data: %s payload differs from the %d bytes written (first difference at %d)' % (
            what, len(written), next((i for i in range(min(len(payload), len(written))) if payload[i] != written[i]), min(len(payload), len(written))))
    if payload[len(written):].strip(b'\x40'):
        return 'fill: %s non-fill bytes after the written data' % what
    if len(payload) < len(written):
        return 'data: %s payload holds %d bytes, %d were written' % (what, len(payload), len(written))
    if len(payload) - len(written) > 1012:
        return 'fill: %s more than one all-fill block' % what
    return None


def chunks_for(n, r):
    """a write history that leaves Block1014 with n bytes written and remaining_chars == r"""
    if n == 0:
        return []
    if r == 0:
        return [n]                      # n is a multiple of 1012 >= 2024: single write leaves the trailer pending
    if r == 1012:
        return [n - 1, 1]               # last write completes the block exactly: trailer written
    return [n]


def oracle(inp):
    if not isinstance(inp, dict) or inp.get('kind') not in ('stream','oneshot','client'):
        return None          # unknown input kind (model of another property's unit)
    from cardutil.mciipm import Block1014, block_1014
    kind = inp.get('kind', 'stream')
    if kind == 'client':
        # the library's own clients of the blocker hand back FINALISED output: list helper, writer closed / left by a with-block
        from cardutil.mciipm import VbsWriter, vbs_list_to_bytes
        import struct
        recs = [data(n, 7 * i) for i, n in enumerate(inp['lens'])]
        stream = b''.join(struct.pack('>I', len(r)) + r for r in recs) + b'\x00' * 4
        if inp['how'] == 'helper':
            out = vbs_list_to_bytes(recs, blocked=True)
        else:
            f = io.BytesIO()
            if inp['how'] == 'with':
                with VbsWriter(f, blocked=True) as w:
                    w.write_many(recs)
            else:
                w = VbsWriter(f, blocked=True)
                for r in recs:
                    w.write(r)
                w.close()
            out = f.getvalue()
        return check_layout(out, stream, 'blocked output of %s for records %s' % (inp['how'], inp['lens'][:6]))
    if kind == 'oneshot':
        d = data(inp['n'], fill=inp.get('fill'))
        fo = io.BytesIO()
        block_1014(io.BytesIO(d), fo)
        out = fo.getvalue()
        if inp['n'] == 0:
            return None if out == b'' else 'oneshot: empty input gave %d bytes' % len(out)
        r = check_layout(out, d, 'block_1014')
        if r:
            return r
        if len(out) // 1014 * 1012 - len(d) >= 1012:
            return 'oneshot: block_1014 produced an all-fill block'
        return None
    chunks = inp.get('chunks')
    if chunks is None:
        n, r, m = inp['n'], inp['r'], inp['m']
        if n < 0 or m < 0 or not 0 <= r <= 1012 or (n + r) % 1012 or n > 100000 or m > 100000 or (r == 0 and n < 2024):
            return None                 # not a reachable blocker state
        chunks = chunks_for(n, r) + [m]
    f = io.BytesIO()
    b = Block1014(f)
    written = b''
    for c in chunks:
        d = data(c, len(written), fill=inp.get('fill'))
        b.write(d)
        written += d
    if inp.get('n') is not None and inp.get('chunks') is None and b.remaining_chars is not None and len(chunks) > 1:
        pass
    how = inp.get('how', 'seek')
    if how == 'close':
        keep = io.BytesIO()
        f.close = lambda: keep.write(f.getvalue())      # keep the bytes: BytesIO discards them on close
        b.close()
        out = keep.getvalue()
    elif how == 'finalise':
        b.finalise()
        out = f.getvalue()
    else:
        b.seek(0)
        out = f.getvalue()
    r = check_layout(out, written, 'Block1014 chunks=%s' % (chunks,))
    if r:
        return r
    fo = io.BytesIO()
    block_1014(io.BytesIO(written), fo)
    one = fo.getvalue()
    r = check_layout(one, written, 'block_1014 of the same %d bytes' % len(written)) if written else None
    if r:
        return r
    if out[:len(one)] != one or len(out) - len(one) not in (0, 1014) or out[len(one):].strip(b'\x40'):
        return 'stream-vs-oneshot: streaming output (chunks=%s) differs from block_1014 output beyond a trailing all-fill block' % (chunks,)
    return None


def cases(tier, rng):
    edges = set()
    for e in (0, 1012, 2024, 3036):
        for d in range(-3, 4):
            if e + d >= 0:
                edges.add(e + d)
    for n in list(range(0, 3100, 1 if tier == 'thorough' else 53)) + sorted(edges):
        yield {'kind': 'oneshot', 'n': n}
    for how in ('helper', 'with', 'close'):
        for lens in ([], [5], [1004], [1008], [1009], [2000, 20], [300] * 9, [6000, 6000]):
            yield {'kind': 'client', 'how': how, 'lens': lens}
    for fill in (0x40, 0x00):
        for n in (1, 2, 1011, 1012, 1013, 2023, 2024, 2025, 3036):
            yield {'kind': 'oneshot', 'n': n, 'fill': fill}
        for ch in ([1012], [1012, 1012], [5, 1007], [1012, 3], [2024, 1012], [1, 1, 1], [1014], [3000]):
            yield {'kind': 'stream', 'chunks': ch, 'how': 'seek', 'fill': fill}
            yield {'kind': 'stream', 'chunks': ch, 'how': 'close', 'fill': fill}
    for n in (4095, 4096, 8192, 16383, 16384, 16385, 17000, 32768, 65536, 70001):
        yield {'kind': 'oneshot', 'n': n}
        yield {'kind': 'stream', 'chunks': [n], 'how': 'seek'}
        yield {'kind': 'stream', 'chunks': [n // 3, n - n // 3 - 5, 5], 'how': 'close'}
    prefixes = [[], [1], [2], [505], [506, 0], [1010], [1011], [1000, 11], [1012], [1011, 1], [2024], [1012, 1012], [2023, 1], [300, 300, 412]]
    lens = range(0, 3041) if tier == 'thorough' else sorted(edges | set(range(0, 3041, 97)))
    for p in prefixes:
        for m in lens:
            yield {'kind': 'stream', 'chunks': p + [m], 'how': 'seek'}
    for p in prefixes[:8]:
        for m in (0, 1, 1011, 1012, 1013, 2024):
            yield {'kind': 'stream', 'chunks': p + [m], 'how': 'close'}
            yield {'kind': 'stream', 'chunks': p + [m], 'how': 'finalise'}
    for _ in range(200 if tier == 'quick' else 3000):
        yield {'kind': 'stream', 'chunks': [rng.choice([0, 1, 4, 300, 1011, 1012, 1013, 2000, 2024, rng.randint(0, 3100)]) for _ in range(rng.randint(1, 8))]}


if __name__ == '__main__':
    main(cases, oracle, BOUND)
