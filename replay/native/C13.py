"""bounded stand-in for C13 (PIN blocks): independent nibble construction; ciphertexts against the `cryptography`
primitives called directly (the cipher itself is an assumption; FIPS known-answer vectors test it)."""
import binascii, os, sys
sys.path.insert(0, os.path.dirname(__file__))
from _common import main

BOUND = 'sequences of 3DES/AES keys sharing leading bytes in one process; random value passed positionally; PIN lengths 4..12 x PAN lengths 13..19 x 3 digit patterns; supplied fills {1, 2^63, 2^64-1, random} and none; TDES double/triple length and AES-128/192/256 keys; FIPS known-answer vectors for the cipher assumption'


def ref_iso0(pin, pan):
    p1 = int(('0' + '%x' % len(pin) + pin).ljust(16, 'f'), 16)
    p2 = int('0000' + pan[-13:-1], 16)
    return (p1 ^ p2).to_bytes(8, 'big')


def ref_iso4_head(pin):
    return binascii.unhexlify(('4' + '%x' % len(pin) + pin).ljust(16, 'a'))


def ref_encrypt(alg, key, data):
    from cryptography.hazmat.primitives.ciphers import Cipher, algorithms, modes
    from cryptography.hazmat.decrepit.ciphers import algorithms as d_alg
    import warnings
    warnings.simplefilter('ignore')
    a = d_alg.TripleDES(key) if alg == 'TripleDES' else algorithms.AES(key)
    e = Cipher(a, modes.ECB()).encryptor()
    return e.update(data) + e.finalize()


def oracle(inp):
    if not isinstance(inp, dict) or inp.get('kind') not in ('kat','iso0','iso4','enc','enc-seq'):
        return None          # unknown input kind (model of another property's unit)
    import warnings
    warnings.simplefilter('ignore')
    from cardutil import pinblock as pb
    kind = inp['kind']
    if kind == 'kat':
        if ref_encrypt('TripleDES', bytes.fromhex('0123456789ABCDEF'), bytes.fromhex('4E6F772069732074')).hex() != '3fa40e8a984d4815':
            return 'kat: DES known-answer vector fails'
        if ref_encrypt('AES', bytes(range(16)), bytes.fromhex('00112233445566778899aabbccddeeff')).hex() != '69c4e0d86a7b0430d8cdb78070b4c55a':
            return 'kat: AES-128 FIPS-197 vector fails'
        return None
    if kind == 'enc-seq':
        # several keys in one process, sharing leading bytes (K1K2 vs K1K2K3, AES-128 key vs AES-256 key with that prefix)
        for alg, key in inp['keys']:
            r = oracle({'kind': 'enc', 'alg': alg, 'key': key, 'pin': inp['pin'], 'pan': inp['pan']})
            if r:
                return 'key-history: after keys %s: %s' % ([k[:8] + '..' for _, k in inp['keys']], r)
        return None
    pin, pan = inp['pin'], inp.get('pan', '1111222233334444')
    if not (pin.isdigit() and 4 <= len(pin) <= 12 and pan.isdigit() and 13 <= len(pan) <= 19 and pin.isascii() and pan.isascii()):
        return None
    if kind in ('iso0', 'enc'):
        b = pb.Iso0PinBlock(pin, card_number=pan).to_bytes()
        if b != ref_iso0(pin, pan):
            return 'format0: Iso0PinBlock(%r,%r).to_bytes()=%s, ISO 9564 format 0 is %s' % (pin, pan, b.hex(), ref_iso0(pin, pan).hex())
        back = pb.Iso0PinBlock.from_bytes(ref_iso0(pin, pan), card_number=pan).pin
        if back != pin:
            return 'format0-decode: from_bytes of the standard block for pin %r pan %r gives %r' % (pin, pan, back)
    if kind in ('iso4', 'enc'):
        rnd = inp.get('rnd')
        o = (pb.Iso4PinBlock(pin, rnd) if inp.get('positional') else pb.Iso4PinBlock(pin, random_value=rnd)) if rnd else pb.Iso4PinBlock(pin)
        b = o.to_bytes()
        if b[:8] != ref_iso4_head(pin) or len(b) != 16:
            return 'format4: Iso4PinBlock(%r).to_bytes()=%s, expected head %s' % (pin, b.hex(), ref_iso4_head(pin).hex())
        if rnd and b[8:] != rnd.to_bytes(8, 'big'):
            return 'format4-random: supplied random value %x not carried in the block %s' % (rnd, b.hex())
        if not rnd and pb.Iso4PinBlock(pin).to_bytes()[8:] == b[8:]:
            return 'format4-fresh: two blocks built without a random value carry the same 64 bits'
        back = pb.Iso4PinBlock.from_bytes(ref_iso4_head(pin) + b[8:]).pin
        if back != pin:
            return 'format4-decode: from_bytes gives %r for pin %r' % (back, pin)
    if kind == 'enc':
        key = inp['key']
        alg = inp['alg']
        kb = bytes.fromhex(key)
        if alg == 'TripleDES':
            o = pb.Iso0TDESPinBlockWithVisaPVV(pin, card_number=pan)
            clear = ref_iso0(pin, pan)
            e = o.to_enc_bytes(key)
            if e != ref_encrypt(alg, kb, clear):
                return 'tdes: to_enc_bytes under key %s is not the 3DES-ECB encryption of the clear block' % key
            if pb.Iso0TDESPinBlockWithVisaPVV.from_enc_bytes(ref_encrypt(alg, kb, clear), key, card_number=pan).pin != pin:
                return 'tdes-decrypt: from_enc_bytes does not return the PIN (key %s)' % key
        else:
            o = pb.Iso4AESPinBlockWithVisaPVV(pin, random_value=77)
            clear = ref_iso4_head(pin) + (77).to_bytes(8, 'big')
            if o.to_enc_bytes(key) != ref_encrypt(alg, kb, clear):
                return 'aes: to_enc_bytes under key %s is not the AES-ECB encryption of the clear block' % key
            if pb.Iso4AESPinBlockWithVisaPVV.from_enc_bytes(ref_encrypt(alg, kb, clear), key).pin != pin:
                return 'aes-decrypt: from_enc_bytes does not return the PIN (key %s)' % key
    return None


def cases(tier, rng):
    yield {'kind': 'kat'}
    hx = lambda n: bytes(rng.getrandbits(8) for _ in range(n)).hex()
    for _ in range(3):
        k1, k2, k3, tail = hx(8), hx(8), hx(8), hx(16)
        yield {'kind': 'enc-seq', 'pin': '123456', 'pan': '5555444433331111',
               'keys': [['TripleDES', k1 + k2], ['TripleDES', k1 + k2 + k3], ['TripleDES', k1 + k2 + k1], ['TripleDES', k1 + k2], ['TripleDES', k1 + k3 + k2],
                        ['AES', k1 + k2], ['AES', k1 + k2 + k3], ['AES', k1 + k2 + tail], ['AES', k1 + k2]]}
    for L in (4, 7, 12):
        yield {'kind': 'iso4', 'pin': '9' * L, 'rnd': 0x1122334455667788, 'positional': True}
        yield {'kind': 'iso4', 'pin': '0' * L, 'rnd': 1, 'positional': True}
    for L in range(4, 13):
        for P in range(13, 20):
            for pat in range(3):
                pin = ''.join(rng.choice('0123456789') for _ in range(L)) if pat else '9' * L
                pan = ''.join(rng.choice('0123456789') for _ in range(P)) if pat != 1 else ('1234567890' * 2)[:P]
                yield {'kind': 'iso0', 'pin': pin, 'pan': pan}
        for rnd in (1, 2 ** 63, 2 ** 64 - 1, rng.getrandbits(64) or 1, None):
            yield {'kind': 'iso4', 'pin': ''.join(rng.choice('0123456789') for _ in range(L)), 'rnd': rnd}
        for alg, klens in (('TripleDES', (16, 24)), ('AES', (16, 24, 32))):
            for kl in klens:
                key = bytes(rng.getrandbits(8) for _ in range(kl)).hex()
                yield {'kind': 'enc', 'alg': alg, 'key': key, 'pin': ''.join(rng.choice('0123456789') for _ in range(L)),
                       'pan': ''.join(rng.choice('0123456789') for _ in range(rng.randint(13, 19)))}


if __name__ == '__main__':
    main(cases, oracle, BOUND)
