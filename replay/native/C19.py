"""bounded stand-in for C19 (conversion tools): real conversions through the function entry points."""
import io, os, sys, tempfile, datetime
sys.path.insert(0, os.path.dirname(__file__))
from _common import main
import iso_common as R

BOUND = 'records of several kilobytes (3 full PDS carriers; 2024/3500/5999-byte parameter records); writer-produced IPM files (PDS, ICC, typed fields, space-filled PDS values, element subsets) and parameter files x ordered pairs of {latin_1, cp500, cp037} x {vbs,1014}^2 through mci_ipm_encode, mideu convert (temp files), mci_ipm_param_encode and paramconv; there and back byte-for-byte; exhaustive codec bijection check on 0..255'


def msgs(rng):
    cfg = R.packaged()
    bits = sorted(int(b) for b in cfg if b != '1' and cfg[b].get('field_processor') != 'PDS')
    out = []
    for i in range(6 if rng.random() < 0.8 else 260):        # some files are several hundred records (> 16 / 64 KiB)
        m = {'MTI': '%04d' % rng.randint(1000, 1999)}
        for b in rng.sample(bits, rng.randint(2, 9)):
            v = R.sample_value(cfg[str(b)], rng, rng.randint(1, 40))
            if v is not None:
                m['DE%d' % b] = v
        if i % 2 == 0:
            m['PDS0158'] = 'ABC   '
            m['PDS0023'] = 'x' * rng.randint(0, 30)
        if i == 5:
            # one record of several kilobytes (three full PDS carriers): more than two whole 1014 blocks in a single write
            alpha = 'ABCDEFGHIJKLMNOPQRSTUVWXYZ0123456789'
            for t in range(1, 4):
                m['PDS%04d' % (1000 + t)] = ''.join(alpha[(j * t + j // 7) % 36] for j in range(900))
        if i == 3:
            m['DE55'] = b'\x9f\x02\x02\xf1\x40\x9a\x01\xf0'
        out.append(m)
    return out


def write_ipm(ms, enc, blocked):
    from cardutil.mciipm import IpmWriter
    f = io.BytesIO()
    with IpmWriter(f, encoding=enc, blocked=blocked) as w:
        for m in ms:
            w.write(dict(m))
    return f.getvalue()


def read_ipm(data, enc, blocked, cfg=None):
    from cardutil.mciipm import IpmReader
    return list(IpmReader(io.BytesIO(data), encoding=enc, blocked=blocked, iso_config=cfg))


def oracle(inp):
    if not isinstance(inp, dict) or inp.get('kind') not in ('codec','ipm','mideu','param'):
        return None          # unknown input kind (model of another property's unit)
    import random, warnings
    warnings.simplefilter('ignore')
    rng = random.Random(inp.get('seed', 0))
    kind = inp['kind']
    if kind == 'codec':
        for a in ('latin_1', 'cp500', 'cp037'):
            for b in range(256):
                c = bytes([b]).decode(a)
                for other in ('latin_1', 'cp500', 'cp037'):
                    if c.encode(other).decode(other) != c:
                        return 'codec: %s byte %d does not survive %s' % (a, b, other)
                if c.encode(a) != bytes([b]):
                    return 'codec: %s is not a bijection at %d' % (a, b)
        return None
    A, B, fa, fb = inp['A'], inp['B'], inp['fa'], inp['fb']
    if kind == 'ipm':
        from cardutil.cli import mci_ipm_encode as T
        ms = msgs(rng)
        src = write_ipm(ms, A, fa == '1014')
        out = io.BytesIO()
        T.mci_ipm_encode(io.BytesIO(src), out_file=out, in_encoding=A, out_encoding=B, in_format=fa, out_format=fb)
        conv = out.getvalue()
        ra, rb = read_ipm(src, A, fa == '1014'), read_ipm(conv, B, fb == '1014')
        if len(ra) != len(rb):
            return 'count: %d records in, %d out (%s->%s %s->%s)' % (len(ra), len(rb), A, B, fa, fb)
        for i, (x, y) in enumerate(zip(ra, rb)):
            if x != y:
                k = next(k for k in set(x) | set(y) if x.get(k) != y.get(k))
                return 'record: record %d differs after mci_ipm_encode %s->%s: %s %r vs %r' % (i + 1, A, B, k, x.get(k), y.get(k))
        back = io.BytesIO()
        T.mci_ipm_encode(io.BytesIO(conv), out_file=back, in_encoding=B, out_encoding=A, in_format=fb, out_format=fa)
        if back.getvalue() != src:
            return 'return-trip: converting back (%s->%s->%s, %s/%s) does not reproduce the original file byte-for-byte' % (A, B, A, fa, fb)
        return None
    if kind == 'mideu':
        from cardutil.cli import mideu
        if {A, B} != {'cp500', 'latin_1'} or fa != fb:
            return None
        ms = msgs(rng)
        src = write_ipm(ms, A, fa == '1014')
        with tempfile.TemporaryDirectory() as d:
            p = os.path.join(d, 'in.ipm')
            open(p, 'wb').write(src)
            mideu.convert(config={}, input=p, sourceformat='ebcdic' if A == 'cp500' else 'ascii', no1014blocking=(fa != '1014'))
            conv = open(p + '.out', 'rb').read()
            ra, rb = read_ipm(src, A, fa == '1014'), read_ipm(conv, B, fa == '1014')
            if ra != rb:
                i = next(i for i in range(max(len(ra), len(rb))) if i >= len(ra) or i >= len(rb) or ra[i] != rb[i])
                return 'record: record %d differs after mideu convert (%s->%s)' % (i + 1, A, B)
            open(p + '.out', 'wb').write(conv)
            mideu.convert(config={}, input=p + '.out', sourceformat='ebcdic' if B == 'cp500' else 'ascii', no1014blocking=(fa != '1014'))
            if open(p + '.out.out', 'rb').read() != src:
                return 'return-trip: mideu convert there and back does not reproduce the original file'
        return None
    if kind == 'param':
        from cardutil.cli import mci_ipm_param_encode as P1, paramconv as P2
        from cardutil.mciipm import VbsWriter, vbs_bytes_to_list
        recs = [bytes(rng.randrange(256) for _ in range(rng.randint(1, 300))) for _ in range(7)]
        recs[2:2] = [bytes(rng.randrange(256) for _ in range(n)) for n in (3500, 5999, 2024)]       # records spanning several blocks
        if rng.random() < 0.2:
            recs += [bytes(rng.randrange(256) for _ in range(rng.randint(50, 400))) for _ in range(300)]      # > 64 KiB
        f = io.BytesIO()
        with VbsWriter(f, blocked=fa == '1014') as w:
            w.write_many(recs)
        src = f.getvalue()
        out = io.BytesIO()
        if inp.get('tool') == 'paramconv':
            if fa != fb:
                return None
            P2.mci_ipm_param_encode(io.BytesIO(src), out, A, B, fa == '1014')
        else:
            P1.mci_ipm_param_encode(io.BytesIO(src), out, in_encoding=A, out_encoding=B, in_format=fa, out_format=fb)
        got = vbs_bytes_to_list(out.getvalue(), blocked=fb == '1014')
        if [r.decode(B) for r in got] != [r.decode(A) for r in recs]:
            return 'param: records decoded under %s differ from input decoded under %s' % (B, A)
        back = io.BytesIO()
        P1.mci_ipm_param_encode(io.BytesIO(out.getvalue()), back, in_encoding=B, out_encoding=A, in_format=fb, out_format=fa)
        if back.getvalue() != src:
            return 'return-trip: parameter file not reproduced byte-for-byte (%s->%s->%s)' % (A, B, A)
        return None


def cases(tier, rng):
    yield {'kind': 'codec'}
    encs = ['latin_1', 'cp500', 'cp037']
    for A in encs:
        for B in encs:
            for fa in ('vbs', '1014'):
                for fb in ('vbs', '1014'):
                    for seed in range(1 if tier == 'quick' else 10):
                        yield {'kind': 'ipm', 'A': A, 'B': B, 'fa': fa, 'fb': fb, 'seed': seed}
                        yield {'kind': 'param', 'A': A, 'B': B, 'fa': fa, 'fb': fb, 'seed': seed}
                        yield {'kind': 'param', 'tool': 'paramconv', 'A': A, 'B': B, 'fa': fa, 'fb': fb, 'seed': seed}
                        yield {'kind': 'mideu', 'A': A, 'B': B, 'fa': fa, 'fb': fb, 'seed': seed}


if __name__ == '__main__':
    main(cases, oracle, BOUND, budget_s=(60, 900))
