"""bounded stand-in for C06 (IPM file round trip, instance isolation)."""
import io, os, sys, copy, datetime
sys.path.insert(0, os.path.dirname(__file__))
from _common import main
import iso_common as R

BOUND = 'record-size sweep 24..6000 bytes (quick: block-edge alignments +-3 and step 53), 400-record heterogeneous files, latin_1/cp500/cp037 x VBS/1014 x packaged/custom configuration (same bits, different processors), four interleaved readers/writers on different files'


def build_msgs(rng, n, cfg, with_pds=True):
    bits = sorted(int(b) for b in cfg if b != '1' and cfg[b].get('field_processor') not in ('PDS',))
    out = []
    for i in range(n):
        m = {'MTI': '%04d' % rng.randint(1000, 1999)}
        for b in rng.sample(bits, rng.randint(1, 8)):
            v = R.sample_value(cfg[str(b)], rng, rng.randint(1, 60))
            if v is not None:
                m['DE%d' % b] = v
        if with_pds and i % 3 == 0:
            m['PDS%04d' % rng.randint(1, 99)] = 'p' * rng.randint(0, 700)
            m['PDS%04d' % rng.randint(100, 199)] = 'q' * rng.randint(0, 700)
        out.append(m)
    return out


def same(sent, got, cfg):
    for k, v in sent.items():
        if k.startswith('DE') and cfg[k[2:]].get('field_processor') in ('PAN', 'PAN-PREFIX'):
            continue
        if got.get(k) != v:
            return 'key %s: sent %r, read %r' % (k, v if not isinstance(v, (str, bytes)) or len(v) < 24 else v[:24], got.get(k) if not isinstance(got.get(k), (str, bytes)) else got.get(k)[:24])
    return None


def roundtrip(msgs, enc, blocked, cfg_arg, cfg):
    from cardutil.mciipm import IpmWriter, IpmReader
    f = io.BytesIO()
    with IpmWriter(f, encoding=enc, blocked=blocked, iso_config=cfg_arg) as w:
        for m in msgs:
            w.write(dict(m))
    f.seek(0)
    back = list(IpmReader(f, encoding=enc, blocked=blocked, iso_config=cfg_arg))
    if len(back) != len(msgs):
        return 'count: wrote %d messages, read %d (%s, blocked=%s)' % (len(msgs), len(back), enc, blocked)
    for i, (a, b) in enumerate(zip(msgs, back)):
        r = same(a, b, cfg)
        if r:
            return 'message: message %d differs, %s (%s, blocked=%s)' % (i + 1, r, enc, blocked)
    return None


def oracle(inp):
    if not isinstance(inp, dict) or inp.get('kind') not in ('size','many','interleave','ipm-roundtrip'):
        return None          # unknown input kind (model of another property's unit)
    import random
    rng = random.Random(inp.get('seed', 0))
    cfg = R.packaged()
    kind = inp['kind']
    if kind == 'size':
        n = inp['n']
        msg = {'MTI': '1144', 'DE2': '4' * 16}
        rest = n - 20 - 18
        k = 0
        for b in (72, 127, 111, 54, 95, 100, 93):
            if rest <= 3:
                break
            ls = 3 if cfg[str(b)]['field_type'] == 'LLLVAR' else 2
            take = min(rest - ls, 10 ** ls - 1)
            if take < 1:
                break
            msg['DE%d' % b] = chr(65 + k) * take
            rest -= ls + take
            k += 1
        return roundtrip([msg, {'MTI': '1240', 'DE3': '000000'}], inp['enc'], inp['blocked'], None, cfg)
    if kind == 'many':
        custom = copy.deepcopy(cfg)
        del custom['62']['field_processor']
        use = custom if inp['custom'] else cfg
        msgs = build_msgs(rng, inp['n'], use, with_pds=not inp['custom'])
        return roundtrip(msgs, inp['enc'], inp['blocked'], use if inp['custom'] else None, use)
    if kind == 'interleave':
        from cardutil.mciipm import IpmWriter, IpmReader
        custom = copy.deepcopy(cfg)
        del custom['62']['field_processor']
        files = [io.BytesIO() for _ in range(4)]
        cfgs = [None, custom, None, custom]
        encs = ['latin_1', 'cp500', 'cp037', 'latin_1']
        blk = [True, False, True, False]
        ws = [IpmWriter(f, encoding=e, blocked=b, iso_config=c) for f, e, b, c in zip(files, encs, blk, cfgs)]
        sent = [[] for _ in range(4)]
        for step in range(40):
            i = rng.randrange(4)
            m = build_msgs(rng, 1, cfgs[i] or cfg, with_pds=True)[0]
            if cfgs[i] is None or True:
                m['PDS0203'] = 'x' * 600
                m['PDS0204'] = 'y' * 600
            ws[i].write(dict(m))
            sent[i].append(m)
        for w in ws:
            w.close()
        rs = [IpmReader(f, encoding=e, blocked=b, iso_config=c) for f, e, b, c in zip(files, encs, blk, cfgs)]
        got = [[] for _ in range(4)]
        alive = [True] * 4
        while any(alive):
            i = rng.randrange(4)
            if not alive[i]:
                continue
            try:
                got[i].append(next(rs[i]))
            except StopIteration:
                alive[i] = False
        for i in range(4):
            if len(got[i]) != len(sent[i]):
                return 'interleave: file %d wrote %d read %d' % (i, len(sent[i]), len(got[i]))
            for j, (a, b) in enumerate(zip(sent[i], got[i])):
                r = same(a, b, cfgs[i] or cfg)
                if r:
                    return 'interleave: file %d message %d differs: %s' % (i, j + 1, r)
        return None
    if kind == 'ipm-roundtrip':
        return oracle({'kind': 'many', 'n': 5, 'enc': 'cp500', 'blocked': inp['blocked'], 'custom': False})
    return None


def cases(tier, rng):
    edges = set()
    for k in range(1, 6):
        for d in range(-3, 4):
            edges.add(k * 1012 + d - 4)
            edges.add(k * 1012 + d)
    sizes = range(60, 6001) if tier == 'thorough' else sorted({s for s in edges if 60 <= s <= 6000} | set(range(60, 6001, 53)) | {2021, 2022, 3033, 3034})
    for n in sizes:
        yield {'kind': 'size', 'n': n, 'enc': 'latin_1', 'blocked': True}
        if n % 5 == 0 or tier == 'thorough':
            yield {'kind': 'size', 'n': n, 'enc': 'cp500', 'blocked': False}
    for enc in ('latin_1', 'cp500', 'cp037'):
        for blocked in (True, False):
            for custom in (False, True):
                yield {'kind': 'many', 'n': 1500 if tier == 'thorough' else 400, 'enc': enc, 'blocked': blocked, 'custom': custom, 'seed': rng.randint(0, 10 ** 6)}
    for s in range(3 if tier == 'quick' else 30):
        yield {'kind': 'interleave', 'seed': s}


if __name__ == '__main__':
    main(cases, oracle, BOUND, budget_s=(60, 900))
