"""bounded stand-in for C14 (PVV, KCV, key parts): reference decimalisation on top of the `cryptography` 3DES primitive."""
import itertools, os, sys
sys.path.insert(0, os.path.dirname(__file__))
from _common import main
from C13 import ref_encrypt

BOUND = 'PVV: PIN lengths 4..12 x PAN 13..19 x key index 0..9 (sampled) x 8/16/24-byte keys, plus keys searched so that the second scan supplies 0,1,2,3,4 digits; KCV lengths 1..8 and 16; key components that cancel or share leading bytes (XOR with leading zero bytes); 1..5 key components incl. permutations and duplicates; encrypted zone key under 16/24-byte master keys'


def ref_pvv(pin, key, idx, pan):
    tsp = pan[-12:-1] + str(idx) + pin[:4]
    ct = ref_encrypt('TripleDES', bytes.fromhex(key), bytes.fromhex(tsp)).hex()
    d = [c for c in ct if c.isdigit()]
    a = [str(int(c, 16) - 10) for c in ct if not c.isdigit()]
    return ''.join((d + a)[:4]), sum(1 for _ in d)


def oracle(inp):
    if not isinstance(inp, dict) or inp.get('kind') not in ('pvv','zmk','kcv'):
        return None          # unknown input kind (model of another property's unit)
    import warnings
    warnings.simplefilter('ignore')
    from cardutil import pinblock as pb, key as K
    kind = inp['kind']
    if kind == 'pvv':
        pin, pan, idx, key = inp['pin'], inp['pan'], inp['idx'], inp['key']
        if not (pin.isdigit() and pin.isascii() and 4 <= len(pin) <= 12 and pan.isdigit() and pan.isascii() and 13 <= len(pan) <= 19 and len(key) in (16, 32, 48)):
            return None
        want, nd = ref_pvv(pin, key, idx, pan)
        got = pb.calculate_pvv(pin, key, idx, pan)
        if got != want:
            return 'pvv: calculate_pvv(pin %r, key %s, idx %d, pan %r)=%r, Visa PVV is %r (second scan supplies %d digits)' % (pin, key, idx, pan, got, want, max(0, 4 - nd))
        o = pb.Iso0TDESPinBlockWithVisaPVV(pin, card_number=pan)
        if o.to_pvv(key, key_index=idx) != want:
            return 'to_pvv: mixin result differs from Visa PVV'
        return None
    if kind == 'zmk':
        parts = inp['parts']
        if not parts or any(len(p) != 32 for p in parts):
            return None
        x = 0
        for p in parts:
            x ^= int(p, 16)
        want = '%032x' % x
        kcv = ref_encrypt('TripleDES', bytes.fromhex(want), b'\x00' * 8).hex()[:6]
        got = K.get_zone_master_key(*parts)
        if got != (want, kcv):
            return 'zmk: get_zone_master_key%s=%r, XOR of components is %r with KCV %r' % (tuple(parts), got, want, kcv)
        for mk in ('00' * 16, '0123456789abcdeffedcba9876543210' + '1122334455667788'):
            enc, k2 = K.get_enc_zone_master_key(mk, *parts)
            if enc != ref_encrypt('TripleDES', bytes.fromhex(mk), bytes.fromhex(want)).hex() or k2 != kcv:
                return 'enc-zmk: get_enc_zone_master_key under %s is not the 3DES-ECB encryption of the XOR of the components' % mk
        if len(parts) >= 2:
            if K.get_zone_master_key(*reversed(parts))[0] != want:
                return 'zmk-order: result depends on component order'
            if K.get_zone_master_key(*(parts + [parts[0], parts[0]]))[0] != want:
                return 'zmk-cancel: a component given twice does not cancel'
        return None
    if kind == 'kcv':
        kb = bytes.fromhex(inp['key'])
        for n in (1, 2, 3, 4, 5, 6, 7, 8, 16):
            if K.calculate_kcv(kb, n) != ref_encrypt('TripleDES', kb, b'\x00' * 8).hex()[:n]:
                return 'kcv: calculate_kcv(%s, %d) is not the leading hex digits of E_k(zeros)' % (inp['key'], n)
        return None


def cases(tier, rng):
    hexk = lambda n: bytes(rng.getrandbits(8) for _ in range(n)).hex()
    for m in (1, 2, 3, 4, 5):
        for _ in range(6):
            yield {'kind': 'zmk', 'parts': [hexk(16) for _ in range(m)]}
    # components whose XOR starts with zero bytes: a component given twice (k,k), shared leading bytes, a zero first half
    for _ in range(3):
        k1, k2 = hexk(16), hexk(16)
        yield {'kind': 'zmk', 'parts': [k1, k1]}
        yield {'kind': 'zmk', 'parts': [k1, k1[:2] + k2[2:]]}
        yield {'kind': 'zmk', 'parts': [k1, k1[:6] + k2[6:], hexk(16), hexk(16)[:0] + '00' * 3 + k2[6:]][:3]}
        yield {'kind': 'zmk', 'parts': [k1, k1[:16] + k2[16:]]}
        yield {'kind': 'zmk', 'parts': [k1, k2[:31] + k1[31:]]}
        yield {'kind': 'zmk', 'parts': ['00' * 16]}
        yield {'kind': 'zmk', 'parts': ['00' * 15 + '01', k1]}
    for n in (8, 16, 24):
        for _ in range(5):
            yield {'kind': 'kcv', 'key': hexk(n)}

    need = {0: 2, 1: 10, 2: 6, 3: 3, 4: 1}
    tries = 0
    # keys such that the second scan supplies 0..4 digits (several per class: which ciphertext positions are A-F matters)
    while any(need.values()) and tries < (300000 if tier == 'quick' else 3000000):
        tries += 1
        key, pin, pan, idx = hexk(rng.choice([8, 16, 24])), '%04d' % rng.randint(0, 9999), ''.join(rng.choice('0123456789') for _ in range(16)), rng.randint(0, 9)
        _, nd = ref_pvv(pin, key, idx, pan)
        k = max(0, 4 - nd)
        if need.get(k):
            need[k] -= 1
            yield {'kind': 'pvv', 'pin': pin, 'pan': pan, 'idx': idx, 'key': key}
    for L in range(4, 13):
        for P in range(13, 20):
            yield {'kind': 'pvv', 'pin': ''.join(rng.choice('0123456789') for _ in range(L)), 'pan': ''.join(rng.choice('0123456789') for _ in range(P)),
                   'idx': rng.randint(0, 9), 'key': hexk(rng.choice([8, 16, 24]))}
    for _ in range(300 if tier == 'quick' else 5000):
        yield {'kind': 'pvv', 'pin': ''.join(rng.choice('0123456789') for _ in range(rng.randint(4, 12))),
               'pan': ''.join(rng.choice('0123456789') for _ in range(rng.randint(13, 19))), 'idx': rng.randint(0, 9), 'key': hexk(rng.choice([8, 16, 24]))}


if __name__ == '__main__':
    main(cases, oracle, BOUND)
