"""bounded stand-in for C15 (Luhn): reference implementation from the definition; both interpreter modes."""
import os, subprocess, sys, json
sys.path.insert(0, os.path.dirname(__file__))
from _common import main

BOUND = 'all digit strings of length 0..4 exhaustively, 300 (quick) / 3000 (thorough) random ones up to 40 digits with separators; every single-digit substitution and adjacent transposition of each; python and python -O'


def ref_cd(s):
    ds = [int(c) for c in s if c in '0123456789']
    t = 0
    for i, d in enumerate(reversed(ds)):
        x = d * (2 if i % 2 == 0 else 1)
        t += x // 10 + x % 10
    return str((9 * t) % 10)


def validates(num, opt):
    """run validate_check_digit in the requested interpreter mode (in-process when it matches ours)"""
    if bool(opt) == bool(sys.flags.optimize):
        from cardutil.card import validate_check_digit
        try:
            validate_check_digit(num)
            return True
        except AssertionError:
            return False
    code = ("import sys\nfrom cardutil.card import validate_check_digit\n"
            "try:\n validate_check_digit(sys.argv[1]); print('OK')\nexcept AssertionError:\n print('REJ')\n")
    p = subprocess.run([sys.executable] + (['-O'] if opt else []) + ['-c', code, num], capture_output=True, text=True)
    return p.stdout.strip() == 'OK'


def oracle(inp):
    from cardutil.card import calculate_check_digit, add_check_digit
    s = inp['s']
    opt = inp.get('opt', False)
    digits_only = ''.join(c for c in s if c.isdigit())
    cd = calculate_check_digit(s)
    if cd != ref_cd(s):
        return 'wrong check digit: calculate_check_digit(%r)=%r, Luhn digit is %r' % (s, cd, ref_cd(s))
    full = add_check_digit(digits_only)
    if full != digits_only + ref_cd(digits_only):
        return 'add_check_digit: %r -> %r' % (digits_only, full)
    if not validates(full, opt):
        return 'valid number rejected: validate_check_digit(%r) rejected (optimize=%s)' % (full, opt)
    if inp.get('deep', True) and len(full) <= 200:      # substitutions / transpositions of very long numbers: check digit and validation only
        for i in range(len(full)):
            for d in '0123456789':
                if d != full[i]:
                    bad = full[:i] + d + full[i + 1:]
                    if validates(bad, opt):
                        return 'invalid number accepted: single substitution %r of valid %r accepted (optimize=%s)' % (bad, full, opt)
                    break   # one substitution per position in-process is enough; all are covered by the proof
        for i in range(len(full) - 1):
            a, b = full[i], full[i + 1]
            if a != b and {a, b} != {'0', '9'}:
                bad = full[:i] + b + a + full[i + 2:]
                if validates(bad, opt):
                    return 'invalid number accepted: transposition %r of valid %r accepted (optimize=%s)' % (bad, full, opt)
    return None


def cases(tier, rng):
    import itertools
    # the -O mode first, on a handful (each needs a subprocess)
    for s in ('7992739871', '0', '', '12345678901234567890123456789'):
        yield {'s': s, 'opt': True, 'deep': False}
    yield {'s': '7992739871', 'opt': True, 'deep': True}
    for n in range(0, 5):
        for t in itertools.product('0123456789', repeat=n):
            yield {'s': ''.join(t), 'deep': n <= 2}
    for k in range(300 if tier == 'quick' else 3000):
        n = rng.randint(5, 40)
        s = ''.join(rng.choice('0123456789') for _ in range(n))
        if k % 3 == 0:
            pos = rng.randint(0, n)
            s = s[:pos] + rng.choice(' -') + s[pos:]
        elif k % 3 == 1:
            sep = rng.choice(' -')
            s = sep.join(s[i:i + 4] for i in range(0, n, 4))          # grouped in fours, as printed on cards
        yield {'s': s, 'deep': k % 10 == 0}


if __name__ == '__main__':
    main(cases, oracle, BOUND)
