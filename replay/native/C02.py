"""bounded stand-in for C02 / C01 (wire format in both directions, round trip): reference codec comparison."""
import os, sys, datetime
sys.path.insert(0, os.path.dirname(__file__))
from _common import main, j2b, b2j
import iso_common as R

BOUND = 'decimal-typed custom elements incl. zero values; caller-owned configuration edited in place / copied and edited / re-ordered between calls (8 edits, chains of up to 4); every single configured element and every pair of elements (values sampled incl. boundary lengths 1, max), larger subsets sampled; over-length variable values; latin_1/cp500/cp037; binary and hex bitmap; PDS sets; compared byte-for-byte and key-for-key with a reference codec written from the documentation'


def norm(v):
    return v


def check_msg(msg, cfg, enc, hexb, kw):
    """dumps / loads of one message against the reference codec under configuration cfg (kw: how cfg is passed to the library)"""
    from cardutil import iso8583
    try:
        want = R.ref_encode(msg, cfg, enc, hexb)
    except R.Refuse:
        want = None
    try:
        got = iso8583.dumps(dict(msg), encoding=enc, hex_bitmap=hexb, **kw)
    except iso8583.Iso8583DataError:
        got = None
    keys = sorted(k for k in msg)
    if want is None:
        return None if got is None else 'refusal: value the layout cannot represent was emitted (keys %s)' % keys
    if got is None:
        return 'refusal: representable message refused (keys %s, %s)' % (keys, enc)
    if got != want:
        i = next((i for i in range(min(len(got), len(want))) if got[i] != want[i]), min(len(got), len(want)))
        return 'layout: dumps differs from the documented layout at byte %d (keys %s, %s, hex=%s)' % (i, keys, enc, hexb)
    back = iso8583.loads(got, encoding=enc, hex_bitmap=hexb, **kw)
    ref = R.ref_decode(got, cfg, enc, hexb)
    for k, v in msg.items():
        if k.startswith('DE') and cfg[k[2:]].get('field_processor') in ('PAN', 'PAN-PREFIX'):
            continue
        if k.startswith('DE') and isinstance(v, str) and R.ls_of(cfg[k[2:]]) == 0 and not cfg[k[2:]].get('field_python_type'):
            v = v[:cfg[k[2:]]['field_length']].ljust(cfg[k[2:]]['field_length'])     # fixed text comes back space-padded
        if k not in back or back[k] != v:
            return 'roundtrip: key %s came back as %r, sent %r (%s, hex=%s)' % (k, back.get(k), v if not isinstance(v, (str, bytes)) or len(v) < 30 else v[:30], enc, hexb)
    for k, v in ref.items():
        if k != '__framing__' and back.get(k) != v:
            return 'decode: key %s decoded as %r, independent reading gives %r' % (k, back.get(k), v)
    for k in back:
        if k not in ref and not (k.startswith('DE43_') or k.startswith('TAG') or k == 'ICC_DATA'):
            return 'decode: undocumented extra key %s' % k
    return None


EDITS = {
    # the documented ways of adapting a configuration: the caller owns the dictionary
    'pds48-off': lambda c: c['48'].pop('field_processor', None),                 # DE48 becomes plain text, DE62 the first PDS carrier
    'pds72-on': lambda c: c['72'].__setitem__('field_processor', 'PDS'),
    'no-48': lambda c: c.pop('48', None),
    '72-llvar': lambda c: c['72'].__setitem__('field_type', 'LLVAR'),
    '93-lllvar': lambda c: c['93'].__setitem__('field_type', 'LLLVAR'),
    'pan2-on': lambda c: c['2'].__setitem__('field_processor', 'PAN'),
    'pan2-off': lambda c: c['2'].pop('field_processor', None),
    '3-wider': lambda c: c['3'].__setitem__('field_length', 8),
}


def check_history(inp):
    """one caller-owned configuration over several calls: edited in place, replaced by an edited copy, or re-ordered between
    calls; every call must behave as the configuration it is given says NOW"""
    import copy
    enc, hexb = inp['enc'], inp['hex']
    cfg = copy.deepcopy({k: dict(v) for k, v in R.packaged().items()})
    msg = {'MTI': '1144', 'DE2': '4444555566667777', 'DE3': '123456', 'DE72': 'h', 'DE93': 'ABCDEFGH00', 'PDS0023': 'x' * 10, 'PDS0158': 'yy '}
    r = check_msg(msg, cfg, enc, hexb, {'iso_config': cfg})
    if r:
        return 'history: first use of a custom configuration: ' + r
    for how, edit in inp['stages']:
        if how == 'copy':
            cfg = copy.deepcopy(cfg)            # a new object with the same keys
        elif how == 'reorder':
            cfg = {k: cfg[k] for k in sorted(cfg)}          # same entries, text-sorted key order
        if edit:
            EDITS[edit](cfg)
        m = {k: v for k, v in msg.items() if not (k.startswith('DE') and cfg.get(k[2:], {}).get('field_processor') == 'PDS')}      # carriers are not supplied as text
        if '48' not in cfg and not any(c.get('field_processor') == 'PDS' for c in cfg.values()):
            m = {k: v for k, v in m.items() if not k.startswith('PDS')}
        r = check_msg(m, cfg, enc, hexb, {'iso_config': cfg})
        if r:
            return 'history: after [%s %s] on a configuration used before: %s' % (how, edit, r)
    return None


def oracle(inp):
    from cardutil import iso8583
    inp = j2b(inp)
    kind = inp.get('kind')
    cfg = R.packaged()
    if kind == 'msg':
        enc, hexb = inp['enc'], inp['hex']
        msg = {}
        for k, v in inp['msg'].items():
            if isinstance(v, dict) and '__dt__' in v:
                v = datetime.datetime.strptime(v['__dt__'], '%Y-%m-%d %H:%M:%S')
            msg[k] = v
        return check_msg(msg, cfg, enc, hexb, {})
    if kind == 'history':
        return check_history(inp)
    if kind == 'custom-decimal':
        import decimal
        W = inp['W']
        v = decimal.Decimal(inp['v'])
        c = {'4': {'field_name': 'amt', 'field_type': 'FIXED', 'field_length': W, 'field_python_type': 'decimal'},
             '3': {'field_name': 'p', 'field_type': 'FIXED', 'field_length': 6}}
        for enc in ('latin_1', 'cp500'):
            m = {'MTI': '1144', 'DE3': '123456', 'DE4': v}
            raw = iso8583.dumps(dict(m), encoding=enc, iso_config=c)
            want = R.ref_encode(m, c, enc)
            if raw != want:
                return 'layout: decimal-typed element with value %r: dumps differs from the documented layout (element %s)' % (
                    v, 'missing' if len(raw) < len(want) else 'rendered differently')
            back = iso8583.loads(raw, encoding=enc, iso_config=c)
            if back.get('DE4') != v:
                return 'roundtrip: decimal value %r came back as %r' % (v, back.get('DE4'))
        return None
    if kind == 'custom-int':
        W, v = inp['W'], inp['v']
        c = {'2': {'field_name': 'n', 'field_type': 'FIXED', 'field_length': W, 'field_python_type': 'long'},
             '64': {'field_name': 'm', 'field_type': 'FIXED', 'field_length': W, 'field_python_type': 'int'}}
        for enc in ('latin_1', 'cp500'):
            raw = iso8583.dumps({'MTI': '1144', 'DE2': v, 'DE64': v}, encoding=enc, iso_config=c)
            if raw != R.ref_encode({'MTI': '1144', 'DE2': v, 'DE64': v}, c, enc):
                return 'layout: width-%d numeric field with value %d not rendered as zero-padded decimal' % (W, v)
            back = iso8583.loads(raw, encoding=enc, iso_config=c)
            if back.get('DE2') != v or back.get('DE64') != v:
                return 'roundtrip: width-%d numeric value %d came back as %r' % (W, v, back.get('DE2'))
        return None
    if kind == 'message':          # from a solver model: the element subset
        rng = __import__('random').Random(1)
        msg = {'MTI': '1144'}
        for b in inp['bits']:
            v = R.sample_value(cfg[str(b)], rng)
            if v is not None:
                msg['DE%d' % b] = v if not isinstance(v, datetime.datetime) else {'__dt__': v.strftime('%Y-%m-%d %H:%M:%S')}
        return oracle({'kind': 'msg', 'msg': {k: (b2j(v) if isinstance(v, bytes) else v) for k, v in msg.items()}, 'enc': 'cp500', 'hex': bool(inp.get('hex'))})
    if kind == 'encode':
        ft, n = inp['ftype'], inp['len']
        bit = {'LLVAR': 2, 'LLLVAR': 72, 'FIXED': 37}[ft]
        if not 0 <= n <= 1200:
            return None
        return oracle({'kind': 'msg', 'msg': {'MTI': '1144', 'DE%d' % bit: 'x' * n}, 'enc': 'latin_1', 'hex': False}) if n else None
    if kind == 'pds':
        lens = inp['lens']
        if any(not 0 <= n <= 992 for n in lens):
            return None
        msg = {'MTI': '1144'}
        for i, n in enumerate(lens):
            msg['PDS%04d' % (23 + 100 * i)] = 'v' * n
        return oracle({'kind': 'msg', 'msg': msg, 'enc': 'latin_1', 'hex': False})
    return None


def cases(tier, rng):
    # configuration histories first (cheap): edits in place / on a copy / re-ordered, between calls
    for enc, hexb in (('latin_1', False), ('cp500', True)):
        for how in ('in-place', 'copy'):
            for e1 in EDITS:
                yield {'kind': 'history', 'enc': enc, 'hex': hexb, 'stages': [[how, e1]]}
            yield {'kind': 'history', 'enc': enc, 'hex': hexb, 'stages': [[how, 'pds48-off'], [how, 'pds72-on'], ['copy', '72-llvar'], ['in-place', 'pan2-off']]}
            yield {'kind': 'history', 'enc': enc, 'hex': hexb, 'stages': [[how, 'no-48'], ['reorder', None], [how, '93-lllvar']]}
        yield {'kind': 'history', 'enc': enc, 'hex': hexb, 'stages': [['reorder', None]]}
    cfg = R.packaged()
    bits = sorted(int(b) for b in cfg if b != '1' and cfg[b].get('field_processor') != 'PDS')

    def mk(bs, enc, hexb, length=None):
        msg = {'MTI': '%04d' % rng.randint(0, 9999)}
        for b in bs:
            v = R.sample_value(cfg[str(b)], rng, length)
            if v is None:
                continue
            msg['DE%d' % b] = b2j(v) if isinstance(v, bytes) else ({'__dt__': v.strftime('%Y-%m-%d %H:%M:%S')} if isinstance(v, datetime.datetime) else v)
        return {'kind': 'msg', 'msg': msg, 'enc': enc, 'hex': hexb}
    encs = ['latin_1', 'cp500', 'cp037']
    for b in bits:
        for enc in encs:
            yield mk([b], enc, False)
        yield mk([b], 'latin_1', True)
        c = cfg[str(b)]
        ls = R.ls_of(c)
        if ls and c.get('field_processor') != 'ICC':
            for n in (1, 10 ** ls - 1, 10 ** ls, 10 ** ls + 1):
                yield {'kind': 'msg', 'msg': {'MTI': '1144', 'DE%d' % b: 'y' * n}, 'enc': rng.choice(encs), 'hex': False}
    pairs = [(a, b) for i, a in enumerate(bits) for b in bits[i + 1:]]
    if tier == 'quick':
        rng.shuffle(pairs)
        pairs = pairs[:250]
    for a, b in pairs:
        yield mk([a, b], rng.choice(encs), rng.random() < 0.3)
    for _ in range(60 if tier == 'quick' else 1500):
        yield mk(rng.sample(bits, rng.randint(3, 12)), rng.choice(encs), rng.random() < 0.3)
    # FIXED text shorter than the field width (left-justified, space-padded IN THE CHOSEN ENCODING)
    for b in bits:
        c = cfg[str(b)]
        if R.ls_of(c) == 0 and not c.get('field_python_type'):
            for enc in encs:
                for n in (1, max(1, c['field_length'] // 2)):
                    yield {'kind': 'msg', 'msg': {'MTI': '1144', 'DE%d' % b: 'Q' * n}, 'enc': enc, 'hex': False}
    # caller-supplied configurations: wide numeric fields with extreme values
    for W in (1, 2, 9, 15, 16, 17, 19, 20):
        for v in (0, 10 ** W - 1, min(10 ** W - 1, 2 ** 53 + 1), min(10 ** W - 1, 9007199254740993)):
            yield {'kind': 'custom-int', 'W': W, 'v': v, 'ftype': 'FIXED'}
    for W in (6, 12):
        for v in ('0', '0.00', '0E-7', '1', '12.5', '99999', '-0'):
            yield {'kind': 'custom-decimal', 'W': W, 'v': v}
    # PDS sets
    for la in list(range(470, 500)) + [0, 1, 992]:
        for lb in (0, 485, 493, 499, 500, 501):
            yield {'kind': 'msg', 'msg': {'MTI': '1144', 'PDS0023': 'a' * la, 'PDS0105': '0' * lb, 'PDS0999': ''}, 'enc': 'latin_1', 'hex': False}
    yield {'kind': 'msg', 'msg': {'MTI': '1144', 'PDS0001': '0023003abc', 'PDS0002': '', 'DE3': '12    ', 'DE41': 'T1      '}, 'enc': 'cp500', 'hex': False}
    for n in (1, 2, 3, 4, 5):
        yield {'kind': 'msg', 'msg': dict([('MTI', '1144')] + [('PDS%04d' % (i + 1), 'q' * 900) for i in range(n)]), 'enc': 'latin_1', 'hex': False}


if __name__ == '__main__':
    main(cases, oracle, BOUND, budget_s=(40, 600))
