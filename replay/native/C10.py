"""bounded stand-in for C10 (bad record reported with its own number and raw bytes)."""
import io, os, struct, sys
sys.path.insert(0, os.path.dirname(__file__))
from _common import main
import vbs_common as V

BOUND = 'reader with its own configuration that lacks an element the packaged one has; files of 260 and 1000 records with the fault at record 250 / 900; whole-file for loop, and header taken with next() before the loop, and a loop restarted mid-file; files of 4 records x fault position k=1..4 x 8 fault kinds (truncated record, oversized length, undecodable MTI, unknown bitmap bit, bad field length, bad typed value, bad PDS, bad ICC) x blocked/unblocked x latin_1/cp500; operator message checked through print_exception_details'

FAULTS = ['truncated', 'oversize', 'mti', 'bitmap', 'fieldlen', 'typed', 'pds', 'icc', 'custom-config']


def good_msg(i):
    return {'MTI': '1144', 'DE2': '4444555566667777', 'DE4': 100 + i, 'DE48': '0023003abc', 'DE55': b'\x9a\x01\x05', 'DE72': 'rec%d' % i}


def damage(raw, fault, enc):
    from cardutil import iso8583
    if fault == 'mti':
        return b'\xff\xfe\x00\x01'[:4] + raw[4:] if enc != 'latin_1' else 'ABCD'.encode(enc) + raw[4:]
    if fault == 'bitmap':
        b = bytearray(raw); b[4] |= 0x02; return bytes(b)          # DE7 has no configuration
    if fault == 'fieldlen':
        return raw[:20] + 'xx'.encode(enc) + raw[22:]
    if fault == 'typed':
        m = good_msg(0); r = bytearray(iso8583.dumps(m, encoding=enc)); pos = 20 + 2 + 16
        r[pos:pos + 12] = 'notanumber!!'.encode(enc); return bytes(r)
    if fault == 'pds':
        m = good_msg(0); m['DE48'] = '0023abcXYZ'; return iso8583.dumps(m, encoding=enc)
    if fault == 'custom-config':
        # the reader is given its own configuration, which does not know DE38; the packaged one does: record k carries DE38
        m = good_msg(0); m['DE38'] = 'A1B2C3'; return iso8583.dumps(m, encoding=enc)
    if fault == 'icc':
        m = good_msg(0); m['DE55'] = b'\x9a'; return iso8583.dumps(m, encoding=enc)
    return raw


def oracle(inp):
    if inp.get('kind') != 'fault':
        return V.generic_oracle(inp)
    import contextlib
    from cardutil import iso8583
    from cardutil.mciipm import IpmReader, VbsWriter, MciIpmDataError
    from cardutil.cli import print_exception_details
    k, fault, blocked, enc = inp['k'], inp['fault'], inp['blocked'], inp['enc']
    if blocked and fault == 'truncated':
        return None            # 1014 fill bytes would complete the record: covered by C09's cut files instead
    recs = [iso8583.dumps(good_msg(i), encoding=enc) for i in range(inp.get('nrec', 4))]
    recs[k - 1] = damage(recs[k - 1], fault, enc)
    stream = b''
    expect_ctx = None
    for i, r in enumerate(recs):
        if i == k - 1 and fault == 'truncated':
            stream += struct.pack('>I', len(r) + 50) + r
            recs = recs[:k]
            expect_ctx = 'rest'
            break
        if i == k - 1 and fault == 'oversize':
            stream += struct.pack('>I', 7000) + r
            expect_ctx = struct.pack('>I', 7000)
            break
        stream += struct.pack('>I', len(r)) + r
    else:
        stream += b'\x00' * 4
    if expect_ctx is None:
        expect_ctx = struct.pack('>I', len(recs[k - 1])) + recs[k - 1]
    start = sum(4 + len(r) for r in recs[:k - 1])
    if expect_ctx == 'rest':
        expect_ctx = stream[start:]
    data = V.ref_block(stream) if blocked else stream
    if blocked and fault == 'truncated':
        expect_ctx = V.ref_payload(data)[start:]
    if fault == 'custom-config':
        import copy
        from cardutil.config import config as _c
        custom = copy.deepcopy(_c['bit_config'])
        custom.pop('38', None)
        rd = IpmReader(io.BytesIO(data), encoding=enc, blocked=blocked, iso_config=custom)
    else:
        rd = IpmReader(io.BytesIO(data), encoding=enc, blocked=blocked)
    got = []
    try:
        # 'head' records are pulled with next() first (the usual way of taking the file header), the rest by a for loop;
        # a second iter() in the middle must not change what the k-th record is
        for _ in range(min(inp.get('head', 0), k - 1)):
            got.append(next(rd))
        if inp.get('reiter') and k > 2:
            for m in rd:
                got.append(m)
                break
        for m in rd:
            got.append(m)
    except MciIpmDataError as e:
        if len(got) != k - 1:
            return 'delivered: fault %s at record %d: %d records delivered before the error' % (fault, k, len(got))
        if e.record_number != k:
            return 'record-number: fault %s at record %d (blocked=%s): error reports record %r' % (fault, k, blocked, e.record_number)
        if e.binary_context_data != expect_ctx:
            return 'context: fault %s at record %d (blocked=%s, %s): context data are not the raw bytes of that record incl. length prefix (got %r...)' % (
                fault, k, blocked, enc, (e.binary_context_data or b'')[:16])
        buf = io.StringIO()
        with contextlib.redirect_stdout(buf):
            print_exception_details(e)
        if 'Error detected in record %d\n' % k not in buf.getvalue():
            return 'message: operator message does not say "Error detected in record %d"' % k
        return None
    except Exception as e:
        return 'other-exception: fault %s at record %d raised %s' % (fault, k, type(e).__name__)
    return 'no-error: fault %s at record %d was not reported' % (fault, k)


def cases(tier, rng):
    # long files (> 16 / 64 KiB): fault far into the file
    for fault in FAULTS:
        for k, nrec in ((250, 260), (900, 1000)):
            for blocked in (False, True):
                yield {'kind': 'fault', 'k': k, 'fault': fault, 'blocked': blocked, 'enc': 'latin_1', 'nrec': nrec, 'head': 1 if k == 250 else 0}
    for fault in FAULTS:
        for k in (1, 2, 3, 4):
            for blocked in (False, True):
                for enc in ('latin_1', 'cp500'):
                    yield {'kind': 'fault', 'k': k, 'fault': fault, 'blocked': blocked, 'enc': enc}
                    if k > 1 and enc == 'latin_1':
                        yield {'kind': 'fault', 'k': k, 'fault': fault, 'blocked': blocked, 'enc': enc, 'head': 1}
                        yield {'kind': 'fault', 'k': k, 'fault': fault, 'blocked': blocked, 'enc': enc, 'head': k - 1, 'reiter': True}


if __name__ == '__main__':
    main(cases, oracle, BOUND)
