"""Shared driver for the native bounded stand-ins (run by /venv/bin/python with PYTHONPATH=<repo>).

A stand-in module defines
    cases(tier, rng)  -> iterator of JSON-serialisable inputs   (the bounded sweep; bound stated in BOUND)
    oracle(inp)       -> None if the property holds on this input, else a string saying what is wrong
It is a *bounded* search for a concrete failing input, used to realise / confirm counterexamples and to
stand in where the proof is undecided.  It is never counted as proved.
"""
import argparse
import logging
import json
import random
import signal
import sys
import time


class Timeout(Exception):
    pass


ORACLE_ERRORS = []


def _alarm(*a):
    raise Timeout()


def guarded(oracle, inp, seconds=5, foreign=False):
    # the watchdog counts CPU time of this process (a loop that never ends burns CPU); wall-clock time would turn a busy
    # machine into `did not terminate`.  A generous wall-clock alarm stays as a backstop for waits that burn no CPU.
    signal.signal(signal.SIGPROF, _alarm)
    signal.signal(signal.SIGALRM, _alarm)
    signal.setitimer(signal.ITIMER_PROF, seconds)
    signal.setitimer(signal.ITIMER_REAL, seconds * 40)
    try:
        return oracle(inp)
    except Timeout:
        return 'did not terminate within %ss of CPU time (watchdog)' % seconds
    except Exception as ex:      # the library raised where the property promises a result
        import traceback, os
        tb = traceback.extract_tb(ex.__traceback__)
        where = '%s:%s' % (tb[-1].filename.split('/')[-1], tb[-1].lineno) if tb else '?'
        here = os.path.dirname(os.path.abspath(__file__))
        if foreign and tb and os.path.dirname(os.path.abspath(tb[-1].filename)) == here and isinstance(ex, (KeyError, TypeError, IndexError, AttributeError, ValueError)):
            # an input concretised from a solver model, and the stand-in's own code could not read it (written for another
            # oracle, or outside this oracle's input language): says nothing about the library -- listed, never a failure
            ORACLE_ERRORS.append('%s: %s (at %s) on %s' % (type(ex).__name__, str(ex)[:100], where, str(inp)[:120]))
            return None
        return 'unexpected-exception: %s: %s (at %s)' % (type(ex).__name__, str(ex)[:200], where)
    finally:
        signal.setitimer(signal.ITIMER_PROF, 0)
        signal.setitimer(signal.ITIMER_REAL, 0)


def b2j(b):
    return {'__bytes__': b.hex()}


def j2b(x):
    if isinstance(x, dict) and '__bytes__' in x:
        return bytes.fromhex(x['__bytes__'])
    if isinstance(x, list):
        return [j2b(e) for e in x]
    if isinstance(x, dict):
        return {k: j2b(v) for k, v in x.items()}
    return x


def main(cases, oracle, bound, budget_s=(30, 300)):
    logging.disable(logging.CRITICAL)
    ap = argparse.ArgumentParser()
    ap.add_argument('--tier', default='quick')
    ap.add_argument('--seed', type=int, default=0)
    ap.add_argument('--replay')
    ap.add_argument('--inputs')
    a = ap.parse_args()
    if a.replay:
        rec = json.load(open(a.replay))
        inp = rec['native_input']
        r = guarded(oracle, inp, seconds=60)
        print('input:', json.dumps(inp)[:2000])
        if r:
            print('FAILS on this tree:', r)
            sys.exit(1)
        print('holds on this tree')
        sys.exit(0)
    rng = random.Random(a.seed)
    t0 = time.time()
    c0 = time.process_time()          # the budget is CPU time of this process: the sweep covers the same inputs on a busy machine
    budget = budget_s[0] if a.tier == 'quick' else budget_s[1]
    n = 0
    fails = []
    seen = set()
    extra = []
    if a.inputs:
        # inputs concretised from solver models; a model may pick absurd sizes (a 10^7-digit number): such an input says
        # nothing about the code within the sandbox's time limits and is not replayed
        extra = [x for x in json.load(open(a.inputs)) if len(json.dumps(x)) <= 100000]
    import itertools
    keep = []            # sample of inputs evaluated a second time at the end: same input, different call history
    n_extra = len(extra)
    for inp in itertools.chain(extra, cases(a.tier, rng)):
        n += 1
        if n > n_extra and (len(keep) < 150 or n % 17 == 0):
            keep.append(inp)
        r = guarded(oracle, inp, foreign=(n <= n_extra))
        if r:
            cls = r.split(':')[0][:60]
            if cls not in seen:
                seen.add(cls)
                fails.append({'class': cls, 'input': inp, 'detail': r[:600]})
            if len(fails) >= 3:
                break
        if time.process_time() - c0 > budget or time.time() - t0 > 10 * budget:
            break
    complete = time.process_time() - c0 <= budget and time.time() - t0 <= 10 * budget
    # second pass: a result must not depend on what earlier calls left behind (caches, shared defaults, class-level state)
    c1 = time.process_time()
    n2 = 0
    if len(fails) < 3:
        for inp in keep[::-1][:600]:
            n2 += 1
            r = guarded(oracle, inp)
            if r:
                cls = 'history: ' + r.split(':')[0][:50]
                if cls not in seen:
                    seen.add(cls)
                    fails.append({'class': cls, 'input': inp, 'detail': 'on second evaluation, after other inputs: ' + r[:560]})
                if len(fails) >= 3:
                    break
            if time.process_time() - c1 > max(5, budget / 3):
                break
    n += n2
    print(json.dumps({'evaluations': n, 'second_pass': n2, 'oracle_errors': ORACLE_ERRORS[:5], 'failures': fails, 'bound': bound, 'wall_s': round(time.time() - t0, 2), 'cpu_s': round(time.process_time() - c0, 2),
                      'label': 'bounded', 'complete_sweep': complete}))
