"""bounded stand-in for C17 (file inspection)."""
import io, os, sys
sys.path.insert(0, os.path.dirname(__file__))
from _common import main, j2b, b2j

BOUND = 'writer files on disk inspected through file handles with buffering -1/0/16/512/1024/2500; configuration entry added / removed between inspections of the same bytes; writer files over 5 message shapes x {latin_1, ascii, cp037, cp500} x blocked/VBS x 1..9 blocks; unblocked files with 40 40 pairs near 1012/2026/3040; every length 0..23 and 24..28; first length max and max+1; every unconfigured bit 2..128'


def expected(data):
    """reference classification from the statement: (valid, encoding family or None, blocked: True/False/None=dont-care)"""
    from cardutil.config import config
    import struct
    if len(data) < 24:
        return False, None, None
    if struct.unpack('>I', data[:4])[0] > config.get('MAX_VBS_RECORD_LENGTH', 6000):
        return False, None, None
    bm = data[8:24]
    for bit in range(2, 129):
        if bm[(bit - 1) // 8] >> (7 - (bit - 1) % 8) & 1 and str(bit) not in config['bit_config']:
            return False, None, None
    mti = data[4:8]
    enc = 'latin1' if all(0x30 <= b <= 0x39 for b in mti) else ('cp037' if all(0xF0 <= b <= 0xF9 for b in mti) else None)
    shape_blocked = len(data) % 1014 == 0 and all(data[i + 1012:i + 1014] == b'\x40\x40' for i in range(0, len(data), 1014))
    if shape_blocked:
        blocked = True
    elif data[1012:1014] != b'\x40\x40':
        blocked = False
    else:
        blocked = None
    return True, enc, blocked


def config_history(inp):
    """`has no configuration` is judged against the configuration as it is when the file is inspected"""
    from cardutil.config import config
    from cardutil.mciipm import ipm_info
    bc = config['bit_config']
    bit = str(inp['bit'])
    bm = bytearray(16); bm[0] |= 0x80; bm[(inp['bit'] - 1) // 8] |= 1 << (7 - (inp['bit'] - 1) % 8)
    data = (100).to_bytes(4, 'big') + b'1144' + bytes(bm) + b'0' * 96 + b'\x00' * 4
    saved = bc.get(bit)
    try:
        for present in inp['steps']:
            if present:
                bc[bit] = saved or {'field_name': 'x', 'field_type': 'FIXED', 'field_length': 6}
            else:
                bc.pop(bit, None)
            info = ipm_info(io.BytesIO(data))
            if bool(info.get('isValidIPM')) != bool(present):
                return 'config-history: element %s %s in the configuration, file using it reported isValidIPM=%r (steps %s)' % (
                    bit, 'is' if present else 'is not', info.get('isValidIPM'), inp['steps'])
    finally:
        if saved is None:
            bc.pop(bit, None)
        else:
            bc[bit] = saved
    return None


def oracle(inp):
    from cardutil.mciipm import ipm_info
    if inp.get('kind') == 'config-history':
        return config_history(inp)
    inp = j2b(inp)
    data = inp['data']
    if not isinstance(data, bytes):
        return None
    if inp.get('buffering') is not None:
        # the same bytes on disk, inspected through a real (buffered or raw) file handle
        import tempfile
        fd, path = tempfile.mkstemp(prefix='c17_')
        try:
            with os.fdopen(fd, 'wb') as fh:
                fh.write(data)
            with open(path, 'rb', buffering=inp['buffering']) as fh:
                info = ipm_info(fh)
        finally:
            os.unlink(path)
    else:
        info = ipm_info(io.BytesIO(data))
    valid, enc, blocked = expected(data)
    what = inp.get('what', 'file of %d bytes' % len(data))
    if bool(info.get('isValidIPM')) != valid:
        return 'validity: %s reported isValidIPM=%r, expected %r' % (what, info.get('isValidIPM'), valid)
    if not valid:
        if not info.get('reason'):
            return 'reason: %s reported invalid without a reason' % what
        return None
    if enc and info.get('encoding') != enc:
        return 'encoding: %s reported encoding %r, expected %r' % (what, info.get('encoding'), enc)
    if blocked is not None and bool(info.get('isBlocked')) != blocked:
        return 'blocking: %s reported isBlocked=%r, expected %r' % (what, info.get('isBlocked'), blocked)
    return None


def cases(tier, rng):
    from cardutil.mciipm import IpmWriter
    for bit in (7, 8, 3, 72):
        yield {'kind': 'config-history', 'bit': bit, 'steps': [True, False, True]}
        yield {'kind': 'config-history', 'bit': bit, 'steps': [False, True, False, False]}
    msgs = [{'MTI': '1144', 'DE2': '4444555566667777'}, {'MTI': '1240', 'DE3': '000000', 'DE4': 1, 'DE72': 'z' * 600},
            {'MTI': '1644', 'DE24': '697', 'DE48': '0105003abc'}, {'MTI': '1442', 'DE55': b'\x9a\x01\x01', 'DE127': '@' * 900},
            {'MTI': '1740', 'DE71': 5, 'DE94': 'abc', 'DE43': 'N\\A\\S\\2000      NSWAUS'}]
    for enc in ('latin_1', 'ascii', 'cp037', 'cp500'):
        for blocked in (True, False):
            for nblocks in range(1, 10):
                for m in msgs:
                    f = io.BytesIO()
                    with IpmWriter(f, encoding=enc, blocked=blocked) as w:
                        n = 0
                        while True:
                            w.write(dict(m))
                            n += 1
                            if n * 30 > nblocks * 1012 - 600 or n > 200:
                                break
                    yield {'data': b2j(f.getvalue()), 'what': '%s writer file, %s, %d records' % ('blocked' if blocked else 'VBS', enc, n)}
                    if m is msgs[1] and enc in ('latin_1', 'cp500') and nblocks in (1, 2, 3, 9):
                        for buffering in (-1, 0, 16, 512, 1024, 2500):
                            yield {'data': b2j(f.getvalue()), 'buffering': buffering,
                                   'what': '%s writer file on disk, %s, %d records, handle buffering=%d' % ('blocked' if blocked else 'VBS', enc, n, buffering)}
    base = io.BytesIO()
    with IpmWriter(base, blocked=False) as w:
        for _ in range(8):
            w.write({'MTI': '1144', 'DE72': 'x' * 500})
    raw = bytearray(base.getvalue())
    for pos in (1010, 1011, 1012, 1013, 2024, 2025, 2026, 2027, 3040):
        for pair in ((0x40, 0x40), (0x40, 0x20), (0x20, 0x40)):
            d = bytearray(raw)
            d[pos:pos + 2] = bytes(pair)
            yield {'data': b2j(bytes(d)), 'what': 'VBS file with %02x %02x at %d' % (pair + (pos,))}
            d2 = bytearray(raw[:2028])
            d2[pos:pos + 2] = bytes(pair)
            yield {'data': b2j(bytes(d2[:2028])), 'what': '2028-byte VBS file with %02x %02x at %d' % (pair + (pos,))}
    good = bytes(raw[:40])
    for n in range(0, 29):
        yield {'data': b2j(good[:n]), 'what': '%d-byte input' % n}
    import struct
    for L in (5999, 6000, 6001, 2 ** 31, 2 ** 32 - 1):
        yield {'data': b2j(struct.pack('>I', L) + good[4:]), 'what': 'first length %d' % L}
    for bit in range(2, 129):
        d = bytearray(good)
        d[8 + (bit - 1) // 8] |= 1 << (7 - (bit - 1) % 8)
        yield {'data': b2j(bytes(d)), 'what': 'bitmap bit %d set' % bit}


if __name__ == '__main__':
    main(cases, oracle, BOUND)
