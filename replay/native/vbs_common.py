"""shared oracles for the VBS / IPM reader-writer properties (C03, C06, C09, C10, C11), independent reference framing."""
import io, struct
from _common import j2b

MAX = 6000


def ref_frame(records):
    return b''.join(struct.pack('>I', len(r)) + r for r in records) + b'\x00\x00\x00\x00'


def ref_block(stream):
    out = b''
    for i in range(0, len(stream), 1012):
        out += stream[i:i + 1012].ljust(1012, b'\x40') + b'\x40\x40'
    return out


def ref_payload(c):
    return b''.join(c[i:i + 1014][:1012] for i in range(0, len(c), 1014))


def ref_parse(stream, maxlen=None):
    """(complete records, how it ends: 'end' | 'error', context bytes of the failing record)"""
    from cardutil.config import config
    maxlen = maxlen or config.get('MAX_VBS_RECORD_LENGTH', 6000)
    recs, q = [], 0
    while True:
        hdr = stream[q:q + 4]
        if len(hdr) < 4:
            return recs, 'end', None
        n = struct.unpack('>I', hdr)[0]
        if n > maxlen:
            return recs, 'error', hdr
        if n == 0:
            return recs, 'end', None
        body = stream[q + 4:q + 4 + n]
        if len(body) < n:
            return recs, 'error', hdr + body
        recs.append(body)
        q += 4 + n


def rec_bytes(n, seed=0):
    return bytes((i * 31 + seed * 7 + 1) % 256 for i in range(n))


def read_all(reader):
    """iterate a reader: (items, ending, exception)"""
    from cardutil.mciipm import MciIpmDataError
    out = []
    try:
        for r in reader:
            out.append(r)
    except MciIpmDataError as e:
        return out, 'error', e
    except Exception as e:                      # any other exception type is itself a violation (C07/C09)
        return out, 'crash:' + type(e).__name__, e
    return out, 'end', None


def check_reader_on_stream(stream, blocked, what, expect_number=True):
    """VbsReader on (possibly damaged) bytes agrees with the reference parser"""
    from cardutil.mciipm import VbsReader
    unb = ref_payload(stream) if blocked else stream
    want, ending, ctx = ref_parse(unb)
    got, gend, exc = read_all(VbsReader(io.BytesIO(stream), blocked=blocked))
    if gend.startswith('crash'):
        return 'other-exception: %s: reading raised %s (%r)' % (what, gend[6:], exc)
    if got != want:
        return 'records: %s: reader delivered %d records, the surviving bytes hold %d complete ones (or contents differ)' % (what, len(got), len(want))
    if gend != ending:
        return 'ending: %s: reader ended with %s, expected %s' % (what, gend, ending)
    if gend == 'error' and expect_number:
        if exc.record_number != len(want) + 1:
            return 'record-number: %s: error reports record %r, the failing record is %d' % (what, exc.record_number, len(want) + 1)
        if exc.binary_context_data != ctx:
            return 'context: %s: error context is %r..., expected the raw bytes of the failing record %r...' % (what, (exc.binary_context_data or b'')[:12], ctx[:12])
    return None


def oracle_roundtrip(records, blocked, api='class'):
    from cardutil.mciipm import VbsWriter, VbsReader, vbs_list_to_bytes, vbs_bytes_to_list
    if api == 'class':
        f = io.BytesIO()
        w = VbsWriter(f, blocked=blocked)
        for r in records:
            w.write(r)
        w.close()
        data = f.getvalue()
    elif api == 'many':
        f = io.BytesIO()
        with VbsWriter(f, blocked=blocked) as w:
            w.write_many(records)
        data = f.getvalue()
    else:
        data = vbs_list_to_bytes(records, blocked=blocked)
    want = ref_frame(records)
    if blocked:
        if len(data) % 1014 or any(data[i + 1012:i + 1014] != b'\x40\x40' for i in range(0, len(data), 1014)):
            return 'layout: blocked file is not whole 1014-byte blocks ending 40 40 (lens %s)' % [len(r) for r in records][:6]
        p = ref_payload(data)
        if p[:len(want)] != want or p[len(want):].strip(b'\x40'):
            return 'layout: blocked payload is not the VBS byte stream followed by fill (lens %s)' % [len(r) for r in records][:6]
    elif data != want:
        return 'layout: unblocked file differs from len4+record...+zero (lens %s)' % [len(r) for r in records][:6]
    if api == 'list':
        back = vbs_bytes_to_list(data, blocked=blocked)
    else:
        back, end, exc = read_all(VbsReader(io.BytesIO(data), blocked=blocked))
        if end != 'end':
            return 'read-back: reading back raised %r (lens %s)' % (exc, [len(r) for r in records][:6])
    if back != list(records):
        return 'read-back: records read back differ from records written (lens %s, blocked=%s)' % ([len(r) for r in records][:6], blocked)
    return None


def oracle_close(prefix_lens, blocked, hows, cls='VbsWriter', real_file=False):
    """write records then finalise through the given sequence of 'close' / 'exit' / 'with+close'"""
    import tempfile, os
    from cardutil.mciipm import VbsWriter, IpmWriter, VbsReader, IpmReader
    recs = [rec_bytes(n, i) for i, n in enumerate(prefix_lens)]
    msgs = [{'MTI': '1144', 'DE2': '4' * 16, 'DE72': 'x' * max(1, n % 900)} for n in prefix_lens]
    f = tempfile.TemporaryFile() if real_file else io.BytesIO()
    W = VbsWriter if cls == 'VbsWriter' else IpmWriter
    w = W(f, blocked=blocked)
    for item in (recs if cls == 'VbsWriter' else msgs):
        w.write(item)
    for h in hows:
        if h == 'close':
            w.close()
        else:
            w.__exit__(None, None, None)
    f.seek(0)
    data = f.read()
    f.seek(0)
    if cls == 'VbsWriter':
        back, end, exc = read_all(VbsReader(io.BytesIO(data), blocked=blocked))
        want = recs
    else:
        back, end, exc = read_all(IpmReader(io.BytesIO(data), blocked=blocked))
        want = msgs
    if end != 'end' or back != want:
        return 'refinalise: %s(blocked=%s) records=%s finalised by %s reads back as %d records (%s), wrote %d' % (
            cls, blocked, prefix_lens[:5], hows, len(back), end, len(want))
    return None


def generic_oracle(inp):
    """inputs produced from solver models by the proof units"""
    inp = j2b(inp)
    kind = inp.get('kind')
    if kind == 'roundtrip1':
        p, n = inp['prefix'], inp['reclen']
        if not (0 <= p <= 20000 and 1 <= n <= MAX):
            return None
        recs = []
        while p >= 5:
            k = min(p - 4, 3000)
            recs.append(rec_bytes(k, len(recs)))
            p -= 4 + k
        return oracle_roundtrip(recs + [rec_bytes(n, 99)], bool(inp.get('blocked')))
    if kind == 'close':
        p = inp['prefix']
        if not 0 <= p <= 20000:
            return None
        lens = []
        while p >= 5:
            k = min(p - 4, 3000)
            lens.append(k)
            p -= 4 + k
        return oracle_close(lens, bool(inp.get('blocked')), inp.get('how') or ['close'])
    if kind == 'stream':
        S, q = inp['S'], inp['q']
        if not isinstance(S, bytes) or not 0 <= q <= len(S):
            return None
        return check_reader_on_stream(S[q:], False, 'stream from solver model')
    if kind == 'blocked-stream':
        C = inp['C']
        if not isinstance(C, bytes):
            return None
        return check_reader_on_stream(C, True, 'blocked file from solver model', expect_number=False)
    if kind == 'truncate':
        S, t = inp['S'], inp['t']
        if not isinstance(S, bytes) or not 0 <= t <= len(S):
            return None
        return check_reader_on_stream(S[:t], False, 'stream cut at %d' % t)
    return None
