"""bounded stand-in for C20 (CSV -> IPM -> CSV)."""
import csv, io, os, sys, tempfile
sys.path.insert(0, os.path.dirname(__file__))
from _common import main

BOUND = 'values with long runs of blanks, command entry points with and without 1014 blocking in 3 encodings; tables over the configured output columns (MTI, DE, PDS), 1..12 rows, numeric boundary values incl. zero, ISO date-times, cells with commas / quotes / spaces, sparse rows, PDS sizes sweeping the 999 carrier boundary; encodings None/latin_1/cp500; blocked and unblocked; function entry points and cli_run on temp files'


def table(rng, kind):
    rows = []
    n = 300 if rng.random() < 0.12 else rng.randint(1, 12)       # some tables are several hundred rows (> 16 / 64 KiB of IPM data)
    for i in range(n):
        r = {'MTI': '%04d' % rng.randint(1000, 1999), 'DE2': ''.join(rng.choice('0123456789') for _ in range(rng.randint(12, 19)))}
        if kind == 'numeric':
            r.update({'DE4': str(rng.choice([0, 1, 999999999999, rng.randrange(10 ** 12)])), 'DE26': str(rng.choice([0, 9999, 5411])), 'DE71': str(rng.choice([0, 1, 99999999]))})
            r['DE12'] = '20%02d-%02d-%02d %02d:%02d:%02d' % (rng.randint(0, 68), rng.randint(1, 12), rng.randint(1, 28), rng.randint(0, 23), rng.randint(0, 59), rng.randint(0, 59))
        if kind == 'meta':
            r.update({'DE41': '  TERM%02d' % (i % 100), 'PDS0165': ' M', 'DE37': ' %011d' % i,'DE31': 'a,b "c" d', 'DE33': '12 34', 'DE93': "it's", 'DE94': ',', 'PDS0023': 'x,"y', 'DE42': 'ABC DEF GHI,JK '})
        if kind == 'sparse' and i % 2:
            r.update({'DE38': '123456', 'PDS0148': '0361'})
        if kind == 'blanks':
            # long runs of blanks (0x40 in the EBCDIC encodings, the 1014 fill byte) inside values
            r.update({'PDS0023': 'a' + ' ' * 988 + 'b', 'PDS0052': 'c' + ' ' * 988 + 'd', 'DE72': 'e' + ' ' * 900 + 'f', 'DE127': 'g' + ' ' * 950 + 'h'})
        if kind == 'pds':
            r.update({'PDS0023': 'p' * rng.choice([485, 486, 490, 492, 493, 500]), 'PDS0052': 'q' * 500, 'PDS0158': 'z' * rng.randint(0, 40)})
        rows.append(r)
    return rows


def oracle(inp):
    if not isinstance(inp, dict) or inp.get('kind') not in ('numeric','meta','sparse','pds','blanks'):
        return None          # unknown input kind (model of another property's unit)
    import random
    from cardutil.config import config
    from cardutil.cli import mci_csv_to_ipm as C2I, mci_ipm_to_csv as I2C
    rng = random.Random(inp['seed'])
    rows = table(rng, inp['kind'])
    cols = [c for c in config['output_data_elements'] if any(c in r for r in rows)]
    buf = io.StringIO()
    w = csv.DictWriter(buf, fieldnames=cols, lineterminator='\n')
    w.writeheader()
    for r in rows:
        w.writerow({c: r.get(c, '') for c in cols})
    text = buf.getvalue()
    enc, no1014 = inp['enc'], inp['no1014']
    if inp.get('cli'):
        with tempfile.TemporaryDirectory() as d:
            p = os.path.join(d, 't.csv')
            open(p, 'w').write(text)
            import contextlib
            with contextlib.redirect_stdout(io.StringIO()):
                C2I.cli_run(in_filename=p, out_filename=None, in_encoding=None, out_encoding=enc, no1014blocking=no1014, config_file=None, debug=False)
                I2C.cli_run(in_filename=p + '.ipm', out_filename=None, in_encoding=enc, out_encoding=None, no1014blocking=no1014, config_file=None, debug=False)
            out_text = open(p + '.ipm.csv').read()
    else:
        ipm = io.BytesIO()
        C2I.mci_csv_to_ipm(in_csv=io.StringIO(text), out_ipm=ipm, config=config, out_encoding=enc, no1014blocking=no1014)
        ipm.seek(0)
        out = io.StringIO()
        I2C.mci_ipm_to_csv(in_ipm=ipm, out_csv=out, config=config, in_encoding=enc, no1014blocking=no1014)
        out_text = out.getvalue()
    got = list(csv.DictReader(io.StringIO(out_text)))
    if len(got) != len(rows):
        return 'rows: %d rows in, %d rows out (%s)' % (len(rows), len(got), inp['kind'])
    for i, (a, b) in enumerate(zip(rows, got)):
        for c, v in a.items():
            if c in config['output_data_elements'] and b.get(c) != v:
                return 'cell: row %d column %s: %r came back as %r (%s, enc=%s)' % (i + 1, c, v if len(v) < 30 else v[:30] + '...', b.get(c) if b.get(c) is None or len(b.get(c)) < 30 else b.get(c)[:30] + '...', inp['kind'], enc)
    return None


def cases(tier, rng):
    for kind in ('numeric', 'meta', 'sparse', 'pds'):
        for enc in (None, 'latin_1', 'cp500'):
            for no1014 in (False, True):
                for seed in range(2 if tier == 'quick' else 25):
                    yield {'kind': kind, 'enc': enc, 'no1014': no1014, 'seed': seed}
    for kind in ('numeric', 'meta'):
        yield {'kind': kind, 'enc': 'cp500', 'no1014': False, 'seed': 7, 'cli': True}
    for enc in ('cp500', 'latin_1', 'cp037'):
        for no1014 in (True, False):
            for cli in (True, False):
                yield {'kind': 'blanks', 'enc': enc, 'no1014': no1014, 'seed': 2, 'cli': cli}
                yield {'kind': 'pds', 'enc': enc, 'no1014': no1014, 'seed': 3, 'cli': cli}


if __name__ == '__main__':
    main(cases, oracle, BOUND)
