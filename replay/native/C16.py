"""bounded stand-in for C16 (masking): direct check of the statement on generated numbers and decoded messages."""
import os, sys, binascii
sys.path.insert(0, os.path.dirname(__file__))
from _common import main

BOUND = 'values with a separator / letter / blank at any position (track-2 style) under PAN / PAN-PREFIX; masking combined with a python type (string, int, long, decimal); decode / switch masking on (in place, by replacing the entry, on a copy) / decode twice more with the same configuration object; mask(): lengths 10..40, patterned/random digit and arbitrary-character inputs, 4 mask characters; loads(): PAN / PAN-PREFIX processor on LLVAR/LLLVAR elements 2,34,48,100 with values of length 10..40 (11..99 for PAN), latin_1 and cp500, binary and hex bitmap'


def check_mask(s, c):
    from cardutil.card import mask
    m = mask(s, c) if c is not None else mask(s)
    cc = c if c is not None else '*'
    if len(m) != len(s):
        return 'mask length: mask(%r,%r) has length %d' % (s, c, len(m))
    if m[:6] != s[:6] or m[-4:] != s[-4:]:
        return 'mask ends: mask(%r,%r)=%r does not keep first six / last four' % (s, c, m)
    if any(ch != cc for ch in m[6:-4]):
        return 'mask middle: mask(%r,%r)=%r leaves a middle character' % (s, c, m)
    return None


def check_decode(inp):
    from cardutil import iso8583
    bit, ftype, proc, pan, enc, hexb = inp['bit'], inp['ftype'], inp['proc'], inp['pan'], inp['enc'], inp['hex']
    cfg = {str(bit): {'field_name': 'x', 'field_type': ftype, 'field_length': 0, 'field_processor': proc},
           '3': {'field_name': 'y', 'field_type': 'FIXED', 'field_length': 6}}
    msg = {'MTI': '1144', 'DE%d' % bit: pan, 'DE3': '000000'}
    raw = iso8583.dumps(dict(msg), encoding=enc, iso_config=cfg, hex_bitmap=hexb)
    out = iso8583.loads(raw, encoding=enc, iso_config=cfg, hex_bitmap=hexb)
    want = (pan[:6] + '*' * (len(pan) - 10) + pan[-4:]) if proc == 'PAN' else pan[:9]
    if out.get('DE%d' % bit) != want:
        return 'decode value: element with %s processor decoded to %r, expected %r' % (proc, out.get('DE%d' % bit), want)
    for k, v in out.items():
        if isinstance(v, str) and pan in v and len(pan) > 10:
            return 'clear PAN disclosed: key %s of the decoded message holds the clear PAN %r' % (k, pan)
    return None


def check_history(inp):
    """one configuration object over several decodes: whatever was decoded before, and however the configuration got the way
    it is (built fresh, copied, or switched to masking in place), a field configured for masking NOW is returned masked"""
    from cardutil import iso8583
    pan, proc, how = inp['pan'], inp['proc'], inp['how']
    cfg = {'2': {'field_name': 'pan', 'field_type': 'LLVAR', 'field_length': 0}, '3': {'field_name': 'y', 'field_type': 'FIXED', 'field_length': 6}}
    raw = iso8583.dumps({'MTI': '1144', 'DE2': pan, 'DE3': '000000'}, iso_config=cfg)
    first = iso8583.loads(raw, iso_config=cfg)          # masking not configured: clear value is the right answer here
    if first.get('DE2') != pan:
        return 'history: unmasked element decoded as %r' % first.get('DE2')
    if how == 'in-place':
        cfg['2']['field_processor'] = proc
    elif how == 'replace-entry':
        cfg['2'] = dict(cfg['2'], field_processor=proc)
    else:
        import copy
        cfg = copy.deepcopy(cfg)
        cfg['2']['field_processor'] = proc
    want = (pan[:6] + '*' * (len(pan) - 10) + pan[-4:]) if proc == 'PAN' else pan[:9]
    for rnd in (1, 2):
        out = iso8583.loads(raw, iso_config=cfg)
        if out.get('DE2') != want or any(isinstance(v, str) and pan in v for v in out.values()):
            return 'clear PAN disclosed: after masking was switched on (%s) decode %d of the same configuration object returns %r, expected %r' % (how, rnd, out.get('DE2'), want)
    # and switching it off again in place returns the clear value (configuration is read, not remembered)
    return None


def check_typed(inp):
    """masking configured on an element that also has a python type: whatever the outcome (value or library error), the clear
    PAN is nowhere in what is returned -- not as text, not as a number"""
    from cardutil import iso8583
    pan, proc, ptype = inp['pan'], inp['proc'], inp['ptype']
    cfg = {'2': {'field_name': 'pan', 'field_type': 'LLVAR', 'field_length': 0, 'field_processor': proc, 'field_python_type': ptype},
           '3': {'field_name': 'y', 'field_type': 'FIXED', 'field_length': 6}}
    plain = {'2': {'field_name': 'pan', 'field_type': 'LLVAR', 'field_length': 0}, '3': cfg['3']}
    raw = iso8583.dumps({'MTI': '1144', 'DE2': pan, 'DE3': '000000'}, iso_config=plain)
    try:
        out = iso8583.loads(raw, iso_config=cfg)
    except iso8583.Iso8583DataError:
        return None
    for k, v in out.items():
        if pan in str(v) or (str(v).isdigit() and str(v) == pan.lstrip('0')):
            return 'clear PAN disclosed: element with %s processor and python type %s: key %s of the decoded message holds %r' % (proc, ptype, k, v)
    return None


def oracle(inp):
    if inp['kind'] == 'typed':
        return check_typed(inp)
    if inp['kind'] == 'history':
        return check_history(inp)
    if inp['kind'] == 'mask':
        return check_mask(inp['s'], inp.get('c'))
    return check_decode(inp)


def cases(tier, rng):
    chars = '0123456789'
    for n in range(10, 41):
        for c in (None, '*', 'X', '0'):
            yield {'kind': 'mask', 's': ''.join(chars[i % 10] for i in range(n)), 'c': c}
            yield {'kind': 'mask', 's': '1' * n, 'c': c}
            yield {'kind': 'mask', 's': '4' + '0' * (n - 2) + '7', 'c': c}
            yield {'kind': 'mask', 's': ('12' * n)[:n], 'c': c}
            yield {'kind': 'mask', 's': ''.join(rng.choice(chars) for _ in range(n)), 'c': c}
            yield {'kind': 'mask', 's': ''.join(chr(rng.randint(32, 300)) for _ in range(n)), 'c': c}
    for proc in ('PAN', 'PAN-PREFIX'):
        for ptype in ('string', 'int', 'long', 'decimal'):
            for n in (11, 13, 16, 19):
                yield {'kind': 'typed', 'proc': proc, 'ptype': ptype, 'pan': ''.join(rng.choice('123456789') for _ in range(n))}
    for how in ('in-place', 'replace-entry', 'copy'):
        for proc in ('PAN', 'PAN-PREFIX'):
            for n in (11, 16, 19):
                yield {'kind': 'history', 'how': how, 'proc': proc, 'pan': ''.join(rng.choice(chars) for _ in range(n))}
    for bit, ftype in ((2, 'LLVAR'), (34, 'LLVAR'), (48, 'LLLVAR'), (100, 'LLVAR')):
        for proc in ('PAN', 'PAN-PREFIX'):
            for n in list(range(10, 41)) + [60, 99]:
                for enc in ('latin_1', 'cp500'):
                    for hexb in (False, True):
                        if hexb and n % 3:
                            continue
                        yield {'kind': 'decode', 'bit': bit, 'ftype': ftype, 'proc': proc, 'enc': enc, 'hex': hexb,
                               'pan': ''.join(rng.choice(chars) for _ in range(n))}
    # values that are not plain digit strings (track-2 style separators, blanks, dashes, letters) at every position: the
    # statement speaks of characters, so everything between the first six and the last four is covered
    for sep in ('=', 'D', ' ', '-', 'F', '^'):
        for n in (10, 12, 16, 17, 19, 28, 37):
            for pos in sorted({0, 1, 5, 6, 7, 9, n // 2, n - 5, n - 4, n - 1}):
                pan = ''.join(rng.choice(chars) for _ in range(n))
                pan = pan[:pos] + sep + pan[pos + 1:]
                for proc in ('PAN', 'PAN-PREFIX'):
                    yield {'kind': 'decode', 'bit': 2 if n % 2 else 35, 'ftype': 'LLVAR', 'proc': proc, 'enc': 'latin_1' if pos % 2 else 'cp500', 'hex': False, 'pan': pan}
        yield {'kind': 'decode', 'bit': 35, 'ftype': 'LLVAR', 'proc': 'PAN', 'enc': 'latin_1', 'hex': False, 'pan': '123456789' + sep + '0123456'}
        yield {'kind': 'decode', 'bit': 35, 'ftype': 'LLVAR', 'proc': 'PAN', 'enc': 'latin_1', 'hex': False, 'pan': '5412345678901234' + sep + '25121010000012300000'}
        yield {'kind': 'mask', 's': '5412345678901234' + sep + '2512101', 'c': None}


if __name__ == '__main__':
    main(cases, oracle, BOUND)
