"""bounded stand-in for C07 (decoding never hangs or crashes): mutation fuzzing under a watchdog."""
import io, os, sys, struct
sys.path.insert(0, os.path.dirname(__file__))
from _common import main, j2b, b2j
import iso_common as R

BOUND = 'well-formed messages (text, typed, PDS, ICC, DE43) x {latin_1, cp500} x {binary, hex bitmap}: every value 0..255 at every length-prefix byte, PDS sub-length byte, bitmap byte and TLV length byte (quick: 24 values incl. sign, space, underscore, non-ASCII digits), aligned 2-byte whitespace pairs in hex bitmaps, plus random multi-point mutations and random bytes; the same records inside VBS / 1014 files; 3 s watchdog per case'

BASE = [
    {'MTI': '1144', 'DE2': '4444555566667777', 'DE3': '123456', 'DE4': 1234, 'DE12': '2020-01-02 03:04:05', 'DE48': '0023003abc0148007abcdefg',
     'DE55': b'\x9f\x02\x02\x01\x02\x9a\x01\x05', 'DE43': 'NAME\\ADDR\\SUBURB\\2000      NSWAUS', 'DE71': 7, 'DE72': 'hello'},
    {'MTI': '1240', 'DE26': 5411, 'DE49': '036', 'DE94': 'abc', 'DE127': 'z' * 50, 'PDS0105': 'xyz', 'PDS0158': '   7'},
]


def run_loads(raw, enc, hexb):
    from cardutil.iso8583 import loads, Iso8583DataError
    try:
        r = loads(raw, encoding=enc, hex_bitmap=hexb)
    except Iso8583DataError:
        return None
    if not isinstance(r, dict):
        return 'result: loads returned %r' % type(r)
    return None


def oracle(inp):
    inp = j2b(inp)
    k = inp.get('kind')
    if k == 'loads':
        return run_loads(inp['raw'], inp['enc'], inp['hex'])
    if k == 'file':
        from cardutil.mciipm import IpmReader, VbsReader, MciIpmDataError
        for cls in (IpmReader, VbsReader):
            try:
                for _ in cls(io.BytesIO(inp['raw']), blocked=inp['blocked']):
                    pass
            except MciIpmDataError:
                pass
        return None
    if k == 'decode-field':
        # from a solver model of the field-level contract: wrap the bytes as the only element of a message
        shape = inp['shape']
        bit = {'LLVAR,text': 2, 'LLLVAR,text': 72, 'FIXED,text': 3, 'FIXED,long': 9, 'FIXED,int': 26, 'FIXED,datetime': 12, 'LLLVAR,PDS': 48, 'LLLVAR,ICC': 55, 'LLVAR,DE43': 43}.get(shape)
        if not isinstance(inp['data'], bytes):
            return None
        custom = None
        if bit is None:
            # shapes the packaged table does not contain: caller-supplied configuration
            ft, kind2 = shape.split(',')
            custom = {'2': {'field_name': 'x', 'field_type': ft, 'field_length': 12}}
            if kind2 in ('int', 'long', 'decimal', 'datetime'):
                custom['2']['field_python_type'] = kind2
            elif kind2 in ('PAN', 'PAN-PREFIX'):
                custom['2']['field_processor'] = kind2
            bit = 2
        bm = bytearray(16); bm[0] |= 0x80; bm[(bit - 1) // 8] |= 1 << (7 - (bit - 1) % 8)
        from cardutil.iso8583 import loads, Iso8583DataError
        for enc in ('latin_1', 'cp500'):
            for data in (inp['data'], b'abcdefghijkl', b'12.5.6      ', b'            '):
                try:
                    loads('1144'.encode(enc) + bytes(bm) + data, encoding=enc, iso_config=custom)
                except Iso8583DataError:
                    pass
        return None
    if k in ('pds-field', 'icc-field'):
        fd = inp['fd']
        from cardutil import iso8583
        try:
            if k == 'pds-field':
                iso8583._pds_to_dict(fd if isinstance(fd, str) else '')
            else:
                iso8583._icc_to_dict(fd if isinstance(fd, bytes) else b'')
        except (iso8583.Iso8583DataError, struct.error):
            pass
        return None
    if k in ('stream', 'ipm-stream', 'blocked-stream'):
        import vbs_common as V
        return V.generic_oracle(inp) if k != 'ipm-stream' else oracle({'kind': 'file', 'raw': b2j(inp['S'][inp['q']:]) if isinstance(inp.get('S'), bytes) else b2j(b''), 'blocked': False})
    return None


def positions(msg, enc, hexb):
    """byte offsets of length prefixes / PDS sub-lengths / TLV lengths / bitmap in the encoded message"""
    from cardutil import iso8583
    raw = iso8583.dumps(dict(msg), encoding=enc, hex_bitmap=hexb)
    hl = 36 if hexb else 20
    pos = set(range(4, hl))
    ref = R.ref_decode(raw, R.packaged(), enc, hexb)
    for bit, p, ls, L in ref['__framing__']:
        pos.update(range(hl + p, hl + p + ls))
        c = R.packaged()[str(bit)]
        if c.get('field_processor') == 'PDS':
            q = 0
            s = raw[hl + p + ls:hl + p + ls + L]
            while q < L:
                pos.update(range(hl + p + ls + q + 4, hl + p + ls + q + 7))
                q += 7 + int(s[q + 4:q + 7].decode(enc))
        if c.get('field_processor') == 'ICC':
            pos.update(range(hl + p + ls, hl + p + ls + L))
    return raw, sorted(pos)


def cases(tier, rng):
    vals = list(range(256)) if tier == 'thorough' else [0x00, 0x20, 0x2d, 0x2b, 0x5f, 0x30, 0x39, 0x3a, 0x40, 0x60, 0x6d, 0x4e, 0xb2, 0xb9, 0xf0, 0xf9, 0xfa, 0xff, 0x09, 0x0a, 0x7f, 0x80, 0xe0, 0x4b]
    files = []
    for msg in BASE:
        for enc in ('latin_1', 'cp500'):
            for hexb in (False, True):
                raw, pos = positions(msg, enc, hexb)
                if not hexb:
                    files.append(raw)
                for p in pos:
                    for v in vals:
                        if raw[p] != v:
                            d = bytearray(raw); d[p] = v
                            yield {'kind': 'loads', 'raw': b2j(bytes(d)), 'enc': enc, 'hex': hexb}
                if hexb:
                    for p in range(4, 36, 2):
                        for pair in (b'  ', b'\t\t', b'\n\n', b'0x', b'__', b'+1'):
                            d = bytearray(raw); d[p:p + 2] = pair
                            yield {'kind': 'loads', 'raw': b2j(bytes(d)), 'enc': enc, 'hex': True}
                for _ in range(150 if tier == 'quick' else 3000):
                    d = bytearray(raw)
                    for _ in range(rng.randint(1, 3)):
                        op = rng.random()
                        if op < 0.4 and d:
                            d[rng.randrange(len(d))] = rng.choice(vals)
                        elif op < 0.6 and d:
                            i = rng.randrange(len(d)); del d[i:i + rng.randint(1, 4)]
                        elif op < 0.8:
                            i = rng.randrange(len(d) + 1); d[i:i] = bytes(rng.choice(vals) for _ in range(rng.randint(1, 4)))
                        else:
                            d = d[:rng.randrange(len(d) + 1)]
                    yield {'kind': 'loads', 'raw': b2j(bytes(d)), 'enc': enc, 'hex': hexb}
    for shape in ('FIXED,decimal', 'LLVAR,int', 'FIXED,datetime', 'LLVAR,PAN'):
        for data in (b'abcdefghijkl', b'1.5         ', b'04ab', b'99', b'', b'\xff' * 12):
            yield {'kind': 'decode-field', 'shape': shape, 'data': b2j(data)}
    for _ in range(200 if tier == 'quick' else 5000):
        yield {'kind': 'loads', 'raw': b2j(bytes(rng.randrange(256) for _ in range(rng.randint(0, 80)))), 'enc': rng.choice(['latin_1', 'cp500']), 'hex': rng.random() < 0.3}
    import vbs_common as V
    for blocked in (False, True):
        stream = V.ref_frame(files)
        data = V.ref_block(stream) if blocked else stream
        for p in list(range(0, 8)) + [len(files[0]) + 4 + i for i in range(4)]:
            for v in vals:
                d = bytearray(data); d[p] = v
                yield {'kind': 'file', 'raw': b2j(bytes(d)), 'blocked': blocked}
        for t in range(0, len(data), 37):
            yield {'kind': 'file', 'raw': b2j(data[:t]), 'blocked': blocked}


if __name__ == '__main__':
    main(cases, oracle, BOUND, budget_s=(60, 900))
