"""bounded stand-in for C11 (finalising exactly once): all histories write* (close|exit){1..3}."""
import itertools, os, sys
sys.path.insert(0, os.path.dirname(__file__))
from _common import main
import vbs_common as V

BOUND = 'every sequence of 1..3 finalisations from {close, context-manager exit} x VbsWriter/IpmWriter x blocked/unblocked x BytesIO/real temp file x 5 record sets (empty, small, >1012 bytes, ending on a block edge, many)'


def oracle(inp):
    if inp.get('kind') == 'hist':
        return V.oracle_close(inp['lens'], inp['blocked'], inp['hows'], inp['cls'], inp['real'])
    return V.generic_oracle(inp)


def cases(tier, rng):
    for n in (1, 2, 3):
        for hows in itertools.product(['close', 'exit'], repeat=n):
            for cls in ('VbsWriter', 'IpmWriter'):
                for blocked in (False, True):
                    for real in (False, True):
                        for lens in ([], [5], [1500], [1004], [300] * 12):
                            yield {'kind': 'hist', 'lens': lens, 'blocked': blocked, 'hows': list(hows), 'cls': cls, 'real': real}


if __name__ == '__main__':
    main(cases, oracle, BOUND)
