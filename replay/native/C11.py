"""bounded stand-in for C11 (finalising exactly once): all histories write* (close|exit){1..3}."""
import itertools, os, sys
sys.path.insert(0, os.path.dirname(__file__))
from _common import main
import vbs_common as V

BOUND = 'finalisations reached inside a with-block (1..3 of close / nested with / exit), then the block exit, then more; one file object re-used for 4 files in a row with fresh writers, and with-blocks entered on a finalised writer; every sequence of 1..3 finalisations from {close, context-manager exit} x VbsWriter/IpmWriter x blocked/unblocked x BytesIO/real temp file x 5 record sets (empty, small, >1012 bytes, ending on a block edge, many)'


def reuse(inp):
    """one file object used for file after file (truncate + rewind), a fresh writer each time; and a writer entered again
    after it was finalised: every file must come out complete and must stay as its first finalisation left it"""
    import io
    from cardutil.mciipm import VbsWriter, VbsReader
    blocked = inp['blocked']
    f = io.BytesIO()
    for rnd, lens in enumerate(inp['files']):
        f.seek(0)
        f.truncate(0)
        recs = [V.rec_bytes(n, rnd + i) for i, n in enumerate(lens)]
        w = VbsWriter(f, blocked=blocked)
        for r in recs:
            w.write(r)
        for h in inp['hows']:
            if h == 'close':
                w.close()
            elif h == 'exit':
                w.__exit__(None, None, None)
            else:                       # 'with': enter and leave a with-block on the same writer
                with w:
                    pass
        data = f.getvalue()
        want = V.ref_frame(recs)
        if blocked:
            want = V.ref_block(want)
        if data != want:
            back, end, _ = V.read_all(VbsReader(io.BytesIO(data), blocked=blocked))
            return 'reuse: file %d written through a re-used file object / re-entered writer (finalised by %s, blocked=%s) is not the finalised form (reads back %d of %d records, %s)' % (
                rnd + 1, inp['hows'], blocked, len(back), len(recs), end)
    return None


def inside(inp):
    """finalisations reached INSIDE a with-block (explicit close() calls, a nested with on the same writer), then the block's
    own exit, then more: the file is finalised once and stays as the first finalisation left it"""
    import io
    from cardutil.mciipm import VbsWriter, IpmWriter, VbsReader
    blocked = inp['blocked']
    f = io.BytesIO()
    recs = [V.rec_bytes(n, i) for i, n in enumerate(inp['lens'])]

    def fin(w, h):
        if h == 'close':
            w.close()
        elif h == 'exit':
            w.__exit__(None, None, None)
        else:
            with w:
                pass
    w = VbsWriter(f, blocked=blocked)
    with w:
        for r in recs:
            w.write(r)
        for h in inp['inner']:
            fin(w, h)
    for h in inp['outer']:
        fin(w, h)
    data = f.getvalue()
    want = V.ref_frame(recs)
    if blocked:
        want = V.ref_block(want)
    if data != want:
        back, end, _ = V.read_all(VbsReader(io.BytesIO(data), blocked=blocked))
        return 'inside-with: %d records written in a with-block, then %s inside the block, the block exit, then %s (blocked=%s): the file is not the finalised form (reads back %d records, %s)' % (
            len(recs), inp['inner'], inp['outer'], blocked, len(back), end)
    return None


def oracle(inp):
    if inp.get('kind') == 'inside':
        return inside(inp)
    if inp.get('kind') == 'reuse':
        return reuse(inp)
    if inp.get('kind') == 'hist':
        return V.oracle_close(inp['lens'], inp['blocked'], inp['hows'], inp['cls'], inp['real'])
    return V.generic_oracle(inp)


def cases(tier, rng):
    for blocked in (False, True):
        for hows in (['close'], ['exit'], ['with'], ['close', 'with'], ['with', 'with'], ['with', 'close'], ['exit', 'with', 'close'], ['close', 'exit', 'with']):
            yield {'kind': 'reuse', 'blocked': blocked, 'hows': hows, 'files': [[5, 300], [1500], [7], []]}
    for blocked in (False, True):
        for n in (1, 2, 3):
            for inner in itertools.product(['close', 'with', 'exit'], repeat=n):
                for outer in ([], ['close'], ['with', 'close']):
                    for lens in ([5, 300], [1500], []):
                        yield {'kind': 'inside', 'blocked': blocked, 'inner': list(inner), 'outer': outer, 'lens': lens}
    for n in (1, 2, 3):
        for hows in itertools.product(['close', 'exit'], repeat=n):
            for cls in ('VbsWriter', 'IpmWriter'):
                for blocked in (False, True):
                    for real in (False, True):
                        for lens in ([], [5], [1500], [1004], [300] * 12):
                            yield {'kind': 'hist', 'lens': lens, 'blocked': blocked, 'hows': list(hows), 'cls': cls, 'real': real}


if __name__ == '__main__':
    main(cases, oracle, BOUND)
