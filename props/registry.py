"""Which contract modules / proof units decide which property; canaries; per-property assumptions."""

CARD = 'cardutil/card.py'

MCI = 'cardutil/mciipm.py'

PROPS = {
    'C04': {
        'modules': ['contracts.mciipm_block'],
        'canaries': [
            (MCI, "while len(bytes_to_write) > 1012:", "while len(bytes_to_write) > 1014:", "Block1014.write loop bound 1012 -> 1014"),
            (MCI, "self.remaining_chars = 1012-len(bytes_to_write)", "self.remaining_chars = 1014-len(bytes_to_write)", "remaining_chars from 1014"),
            (MCI, "self.file_obj.write(self.PAD_CHAR * (self.remaining_chars + 2))", "self.file_obj.write(self.PAD_CHAR * (self.remaining_chars + 1))", "finalise one pad byte short"),
            (MCI, "bytes_to_write = bytes_to_write[1012:]", "bytes_to_write = bytes_to_write[1013:]", "loop drops a byte per block"),
            (MCI, "record += (1012 - len(record)) * pad_char", "record += (1011 - len(record)) * pad_char", "block_1014 pads one short"),
        ],
        'assumptions': ["induction over write histories is the soundness of object-invariant reasoning: Block1014.__init__ establishes the invariant, write preserves it from EVERY state satisfying it (not only reachable ones), finalise/seek/close are proved from every such state"],
    },
    'C05': {
        'modules': ['contracts.mciipm_block'],
        'canaries': [
            (MCI, "self.buffer += block[:1012]", "self.buffer += block[:1013]", "unblocker keeps a trailer byte"),
            (MCI, "while read_all or len(self.buffer) <= bytes_to_read:", "while read_all or len(self.buffer) < bytes_to_read - 1:", "refill loop stops early"),
            (MCI, "if record[-2:] != pad_char * 2:", "if record[-1:] != pad_char:", "unblock_1014 checks one trailer byte"),
            (MCI, "output_data.write(record[0:1012])", "output_data.write(record[0:1013])", "unblock_1014 copies a trailer byte"),
        ],
        'assumptions': ["induction over read histories = representation-invariant reasoning (Unblock1014.__init__ establishes, read preserves from every state satisfying it)",
                        "read(0) is treated like read() by the code (falsy size); the contract covers sizes k >= 1 and the no-size form"],
    },
    'C15': {
        'modules': ['contracts.card', 'contracts.lemmas'],
        'canaries': [
            (CARD, "cycle([2, 1])", "cycle([1, 2])", "Luhn weights swapped"),
            (CARD, "(total * 9) % 10", "(total * 7) % 10", "check digit multiplier 9 -> 7"),
            (CARD, "digits[::-1]", "digits", "digits not reversed"),
            (CARD, "card_number[0:-1]) != card_number[-1]", "card_number[0:-1]) != card_number[0]", "validate compares with first digit"),
        ],
        'assumptions': ["int(c) on a one-character ASCII digit string is the digit value; str(d) for 0<=d<=9 is chr(48+d)",
                        "SIGMA (finite sum) is characterised by its unfolding equations; induction over the length is written out as base/step obligations in contracts/lemmas.py"],
    },
    'C16': {
        'modules': ['contracts.card'],
        'canaries': [
            (CARD, "card_number[0:6] + mask_char", "card_number[0:7] + mask_char", "mask keeps 7 leading characters"),
            (CARD, "(len(card_number)-10)", "(len(card_number)-11)", "mask one short"),
        ],
        'assumptions': [],
    },
}
