"""Which contract modules / proof units decide which property; canaries; per-property assumptions."""

CARD = 'cardutil/card.py'

PROPS = {
    'C15': {
        'modules': ['contracts.card', 'contracts.lemmas'],
        'canaries': [
            (CARD, "cycle([2, 1])", "cycle([1, 2])", "Luhn weights swapped"),
            (CARD, "(total * 9) % 10", "(total * 7) % 10", "check digit multiplier 9 -> 7"),
            (CARD, "digits[::-1]", "digits", "digits not reversed"),
            (CARD, "card_number[0:-1]) != card_number[-1]", "card_number[0:-1]) != card_number[0]", "validate compares with first digit"),
        ],
        'assumptions': ["int(c) on a one-character ASCII digit string is the digit value; str(d) for 0<=d<=9 is chr(48+d)",
                        "SIGMA (finite sum) is characterised by its unfolding equations; induction over the length is written out as base/step obligations in contracts/lemmas.py"],
    },
    'C16': {
        'modules': ['contracts.card'],
        'canaries': [
            (CARD, "card_number[0:6] + mask_char", "card_number[0:7] + mask_char", "mask keeps 7 leading characters"),
            (CARD, "(len(card_number)-10)", "(len(card_number)-11)", "mask one short"),
        ],
        'assumptions': [],
    },
}
