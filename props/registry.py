"""Which contract modules / proof units decide which property; canaries; per-property assumptions."""

CARD = 'cardutil/card.py'

MCI = 'cardutil/mciipm.py'

PINB = 'cardutil/pinblock.py'
KEYF = 'cardutil/key.py'
VBSMODS = ['contracts.mciipm_block', 'contracts.mciipm_vbs']

PROPS = {
    'C17': {
        'modules': ['contracts.bitarray', 'contracts.mciipm_info'],
        'canaries': [
            (MCI, "if len(sample_data) >= 2028 and sample_data[2026:2028] == Block1014.PAD_CHAR * 2:", "if len(sample_data) == 2028 and sample_data[2026:2028] == Block1014.PAD_CHAR * 2:", "blocked files of 3+ blocks reported unblocked", "writer-output"),
            (MCI, "if len(sample_data) < 24:", "if len(sample_data) < 32:", "short-file threshold moved", "writer-output[ascii,vbs"),
            (MCI, "if mti.decode('cp037').isnumeric():", "if mti.decode('cp500').isalpha():", "EBCDIC detection broken", "writer-output[ebcdic"),
            (MCI, "if record_length > max_rec_length:", "if record_length >= max_rec_length:", "maximum-length first record rejected", "boundaries"),
        ],
        'assumptions': ["writer output is characterised structurally: 4-byte big-endian first length in 20..MAX, four MTI digits in the codec family (0x30-0x39 / 0xF0-0xF9), bitmap with bit 1 set and only packaged-configured bits, blocked files = whole 1014-byte blocks ending 40 40 (what C03/C04 prove about the writer)",
                        "str.isnumeric exact for code points < 256 (table), cp037 decoding by table"],
    },
    'C13': {
        'modules': ['contracts.pinblock'],
        'canaries': [
            (PINB, "rightmost_12 = self.card_number[-13:-1]", "rightmost_12 = self.card_number[-12:]", "format 0 includes the check digit"),
            (PINB, ':a<16}{self.random_value:016x}', ':f<16}{self.random_value:016x}', "format 4 filled with F"),
            (PINB, "pin = p1[2:2 + pin_length]\n        return cls(pin, card_number=card_number)", "pin = p1[2:1 + pin_length]\n        return cls(pin, card_number=card_number)", "format 0 decode drops last digit"),
        ],
        'assumptions': ["cryptography's TripleDES / AES in ECB mode are uninterpreted block functions E/D per key width with D(k,E(k,x)) = x, defined for key lengths 8/16/24 (TDES; 8- and 16-byte keys are the 24-byte keys KKK / K1K2K1) and 16/24/32 (AES) and whole blocks, ValueError otherwise; the ciphers themselves (the statement's `independent DES/AES reference`) are out of reach of contracts on cardutil - known-answer vectors in the native stand-in test the assumption",
                        "finite case split: PIN lengths 4..12 x PAN lengths 13..19 for the clear blocks (complete), PIN lengths {4,12} x 16-digit PAN x every key length for the encrypted forms; all digits, key nibbles and random bits symbolic",
                        "secrets.randbits(k) returns a fresh k-bit value per call"],
    },
    'C14': {
        'modules': ['contracts.pinblock'],
        'canaries': [
            (PINB, "rightmost_11 = card_number[-12:-1]", "rightmost_11 = card_number[-11:]", "TSP includes the check digit", "_get_tsp"),
            (KEYF, "p1 = f'{int(p1, 16) ^ int(key_part, 16):032x}'", "p1 = f'{int(key_part, 16):032x}'", "key parts not accumulated", "get_zone_master_key"),
            (PINB, "if len(values_pass1) < 4:", "if len(values_pass1) < 3:", "second scan skipped with three digits", "calculate_pvv[key=16 hex,pin=4"),
            (PINB, "str(int(value, 16) - 10)", "str(int(value, 16) - 9)", "A-F mapped to 1-6", "calculate_pvv[key=16 hex,pin=4"),
        ],
        'assumptions': ["cipher model as for C13", "finite split: TSP for all PIN 4..12 x PAN 13..19 (x idx 0..9 for one shape, {0,5,9} otherwise); PVV decimalisation for three shapes x key lengths 8/16/24 bytes with the 16 ciphertext nibbles free (so scans needing 0..4 substituted digits are all covered); key components: 1..4 parts, each 32 symbolic hex digits",
                        "order independence for more than adjacent swaps follows from adjacent transpositions generating all permutations (stated, not mechanised)"],
    },
    'C03': {
        'modules': VBSMODS,
        'canaries': [
            (MCI, 'record_length_raw = struct.pack(">I", record_length)', 'record_length_raw = struct.pack(">I", record_length + 1)', "writer prefix off by one"),
            (MCI, "if len(record_length_raw) != 4:", "if len(record_length_raw) < 3:", "reader accepts a short prefix"),
            (MCI, 'self.out_file.write(struct.pack(">I", 0))\n        self.out_file.seek(0)', 'self.out_file.seek(0)', "close writes no terminator"),
            (MCI, "return record  # get the full record", "return record[1:]  # get the full record", "reader drops first byte"),
        ],
        'assumptions': ["any NUMBER of records: the per-record step lemmas (writer appends be32(len)++record; reader at that offset returns it and moves past it; reader stops at the terminator) compose by induction over the record list - the induction itself is the standard argument, mechanised only for two-record lists in the convenience-function unit",
                        "struct.pack/unpack('>I') model: big-endian base-256 digits, struct.error outside 0..2**32-1 / wrong buffer size"],
    },
    'C09': {
        'modules': VBSMODS,
        'canaries': [
            (MCI, "if len(record) != record_length:", "if len(record) > record_length:", "reader delivers a partial record"),
            (MCI, "if len(record_length_raw) != 4:", "if not record_length_raw:", "short prefix reaches struct.unpack"),
        ],
        'assumptions': ["a truncated blocked file unblocks to a prefix of the full payload stream (PAYLOAD-truncation lemma, closed form) and Unblock1014.read refines reading that stream; message-level decoding of a delivered record is C07's contract on loads"],
    },
    'C10': {
        'modules': VBSMODS,
        'canaries': [
            (MCI, "record_number=self.record_number - 1,", "record_number=self.record_number,", "message-level fault reported as k+1"),
            (MCI, "binary_context_data=record_length_raw + record)", "binary_context_data=record)", "framing error context drops the prefix"),
            ('cardutil/__init__.py', "if kwargs.get('record_number'):", "if kwargs.get('record_no'):", "CardutilError ignores record_number"),
        ],
        'assumptions': ["iso8583.loads is replaced by its contract (returns a dict or raises Iso8583DataError - that is C07) when IpmReader.__next__ is verified"],
    },
    'C11': {
        'modules': VBSMODS,
        'canaries': [
            (MCI, "        if self._finalised:\n            return\n", "", "close no longer idempotent"),
            (MCI, "    def __exit__(self, exc_type, exc_val, exc_tb) -> None:\n        self.close()", "    def __exit__(self, exc_type, exc_val, exc_tb) -> None:\n        pass", "context-manager exit does not finalise"),
        ],
        'assumptions': ["histories write* (close|exit)+ of any length: first finalisation proved from every writer state, every further finalisation proved to change nothing from the state the first one leaves (fixed point), hence by induction"],
    },
    'C04': {
        'modules': ['contracts.mciipm_block'],
        'canaries': [
            (MCI, "while len(bytes_to_write) > 1012:", "while len(bytes_to_write) > 1014:", "Block1014.write loop bound 1012 -> 1014"),
            (MCI, "self.remaining_chars = 1012-len(bytes_to_write)", "self.remaining_chars = 1014-len(bytes_to_write)", "remaining_chars from 1014"),
            (MCI, "self.file_obj.write(self.PAD_CHAR * (self.remaining_chars + 2))", "self.file_obj.write(self.PAD_CHAR * (self.remaining_chars + 1))", "finalise one pad byte short"),
            (MCI, "bytes_to_write = bytes_to_write[1012:]", "bytes_to_write = bytes_to_write[1013:]", "loop drops a byte per block"),
            (MCI, "record += (1012 - len(record)) * pad_char", "record += (1011 - len(record)) * pad_char", "block_1014 pads one short"),
        ],
        'assumptions': ["induction over write histories is the soundness of object-invariant reasoning: Block1014.__init__ establishes the invariant, write preserves it from EVERY state satisfying it (not only reachable ones), finalise/seek/close are proved from every such state"],
    },
    'C05': {
        'modules': ['contracts.mciipm_block'],
        'canaries': [
            (MCI, "self.buffer += block[:1012]", "self.buffer += block[:1013]", "unblocker keeps a trailer byte"),
            (MCI, "while read_all or len(self.buffer) <= bytes_to_read:", "while read_all or len(self.buffer) < bytes_to_read - 1:", "refill loop stops early"),
            (MCI, "if record[-2:] != pad_char * 2:", "if record[-1:] != pad_char:", "unblock_1014 checks one trailer byte"),
            (MCI, "output_data.write(record[0:1012])", "output_data.write(record[0:1013])", "unblock_1014 copies a trailer byte"),
        ],
        'assumptions': ["induction over read histories = representation-invariant reasoning (Unblock1014.__init__ establishes, read preserves from every state satisfying it)",
                        "read(0) is treated like read() by the code (falsy size); the contract covers sizes k >= 1 and the no-size form"],
    },
    'C15': {
        'modules': ['contracts.card', 'contracts.lemmas'],
        'canaries': [
            (CARD, "cycle([2, 1])", "cycle([1, 2])", "Luhn weights swapped"),
            (CARD, "(total * 9) % 10", "(total * 7) % 10", "check digit multiplier 9 -> 7"),
            (CARD, "digits[::-1]", "digits", "digits not reversed"),
            (CARD, "card_number[0:-1]) != card_number[-1]", "card_number[0:-1]) != card_number[0]", "validate compares with first digit"),
        ],
        'assumptions': ["int(c) on a one-character ASCII digit string is the digit value; str(d) for 0<=d<=9 is chr(48+d)",
                        "SIGMA (finite sum) is characterised by its unfolding equations; induction over the length is written out as base/step obligations in contracts/lemmas.py"],
    },
    'C16': {
        'modules': ['contracts.card'],
        'canaries': [
            (CARD, "card_number[0:6] + mask_char", "card_number[0:7] + mask_char", "mask keeps 7 leading characters"),
            (CARD, "(len(card_number)-10)", "(len(card_number)-11)", "mask one short"),
        ],
        'assumptions': [],
    },
}
