"""Which contract modules / proof units decide which property; canaries; per-property assumptions."""

CARD = 'cardutil/card.py'

MCI = 'cardutil/mciipm.py'

PINB = 'cardutil/pinblock.py'
KEYF = 'cardutil/key.py'
VBSMODS = ['contracts.mciipm_block', 'contracts.mciipm_vbs', 'contracts.vbs_lists']

ISO = 'cardutil/iso8583.py'
ISOMODS = ['contracts.bitarray', 'contracts.iso_field', 'contracts.iso_pds', 'contracts.iso_msg', 'contracts.iso_loops', 'contracts.iso_api']

PROPS = {
    'C01': {
        'modules': ISOMODS,
        'canaries': [
            (ISO, "message_data[message_pointer:],", "message_data[message_pointer:message_pointer + 999],", "decoder slice capped at 999", "dumps+loads[lllvar"),
            (ISO, "field_data = int(field_data)", "field_data = int(field_data) % 100000000", "typed value truncated on decode", "field-round-trip[FIXED,long,width=12"),
            (ISO, "output += format(field_value[:field_length], '<' + str(field_length)).encode(encoding)", "output += format(field_value[:field_length], '>' + str(field_length)).encode(encoding)", "fixed text right-justified", "field-round-trip[FIXED,text"),
        ],
        'assumptions': ["single-byte codec E is abstract: ENC/DEC uninterpreted with 0<=ENC<=255, ENCODABLE(c) => DECODABLE(ENC(c)) and DEC(ENC(c)) = c, digits/space/a-f/A-F encodable (checked exhaustively for latin_1, cp500, cp037 by the native stand-in)",
                        "int(str) on ASCII digits is the decimal value, otherwise ValueError or ANY integer; format(v,'0Wd') for 0<=v<10^W is the W zero-padded digits; strptime(format(dt,fmt),fmt) = dt for REPRESENTABLE dt (uninterpreted predicate: the two-digit-year window is only exercised by the native stand-in)",
                        "message level: (i) loop invariants over bits 2..127 for EVERY subset of elements and ANY configuration table (contracts/iso_loops.py: _dict_to_iso8583 and _iso8583_to_dict with the per-element functions replaced by their contracts, which iso_field.py proves per configuration shape); (ii) end-to-end execution of the real dumps/loads, nothing abstracted, for a fixed family of subsets (text+typed, far-apart, var-with-max, lllvar+icc, fixed+int+llvar, MTI only, PDS sets) with all values, lengths, MTI digits, codec and bitmap rendering symbolic; the composition of (i) with the per-shape field round trips into a single all-subsets round-trip theorem is the standard contract-composition argument, not a separate mechanised lemma",
                        "decimal fields: exception behaviour only (no round trip claimed)"],
    },
    'C02': {
        'modules': ISOMODS,
        'canaries': [
            (ISO, "if field_length >= 10 ** length_size:", "if field_length > 10 ** length_size:", "100-character LLVAR value emitted", "_field_to_iso8583[LLVAR,text"),
            (ISO, "bitmap_values[bit - 1] = True", "bitmap_values[bit] = True", "bitmap bit shifted by one", "dumps+loads[far-apart,binary"),
            (ISO, "bitmap = binascii.hexlify(binary_bitmap)", "bitmap = binascii.hexlify(binary_bitmap).upper()", "hex bitmap in upper case", "dumps+loads[far-apart,hex"),
            (ISO, "output += field_value[:field_length]", "output += field_value[:field_length].upper()", "binary data altered", "_field_to_iso8583[LLLVAR,binary"),
        ],
        'assumptions': ["the `independent reference codec` of the statement is, in this family, the spec functions in contracts/iso_field.py / iso_msg.py (spec_field, spec_bitmap), written from the statement; the native stand-in carries a second, executable reference codec",
                        "same codec / int / format assumptions and the same fixed family of element subsets as C01"],
    },
    'C06': {
        'deps': ['C01', 'C03'],
        'modules': ISOMODS + ['contracts.mciipm_block', 'contracts.mciipm_vbs', 'contracts.ipm_e2e'],
        'canaries': [
            (MCI, "record = iso8583.dumps(obj, encoding=self.encoding, iso_config=self.iso_config)", "record = iso8583.dumps(obj, encoding=self.encoding)", "writer ignores its field configuration", "IpmWriter.write/contract"),
            (MCI, "output = iso8583.loads(vbs_record, encoding=self.encoding, iso_config=self.iso_config)", "output = iso8583.loads(vbs_record[1:], encoding=self.encoding, iso_config=self.iso_config)", "reader drops a byte of the record", "IpmReader.__next__/contract"),
            (MCI, "    record_number = 1\n    last_record = None\n\n    def __init__(self, vbs_file: typing.BinaryIO, blocked: bool = False):", "    record_number = 1\n    last_record = None\n    _shared = {}\n\n    def __init__(self, vbs_file: typing.BinaryIO, blocked: bool = False):\n        VbsReader._shared['f'] = vbs_file", "reader stores state on the class", "lint/cardutil.mciipm"),
        ],
        'assumptions': ["composition: IpmWriter.write frames exactly dumps(message) with its own encoding/configuration; IpmReader.__next__ hands exactly the framed record to loads with its own encoding/configuration; C01 (loads(dumps(m)) = m) and C03 (framing round trip) do the rest; an end-to-end ghost client over the real classes is executed for two messages (VBS and 1014)",
                        "isolation: every reader/writer method writes only fields of its own instance and its own file object (frame obligations; a lint over the class bodies for stores to class attributes or globals); simultaneous use from several THREADS is out of reach - only sequential interleavings of whole calls are covered"],
    },
    'C19': {
        'deps': ['C06', 'C12'],
        'modules': ['contracts.iso_field', 'contracts.iso_pds', 'contracts.cli_tools'],
        'canaries': [
            ('cardutil/cli/mci_ipm_encode.py', "if field_config.get(\"field_processor\") == 'PDS':", "if field_config.get(\"field_processor\"):", "get_config removes every processor (ICC data re-encoded)", "get_config"),
            ('cardutil/cli/mci_ipm_encode.py', "with IpmWriter(out_file, encoding=out_encoding, blocked=out_blocked) as writer:", "with IpmWriter(out_file, encoding=in_encoding, blocked=out_blocked) as writer:", "output written in the input encoding", "mci_ipm_encode[vbs->1014"),
            ('cardutil/cli/paramconv.py', "out_records = (record.encode(out_encoding) for record in in_records)", "out_records = (record.upper().encode(out_encoding) for record in in_records)", "parameter records altered", "paramconv[vbs"),
            ('cardutil/cli/mideu.py', "reader = IpmReader(in_file, encoding=in_encoding, blocked=out_blocked)", "reader = IpmReader(in_file, encoding=in_encoding, blocked=False)", "mideu convert ignores input blocking", "mideu.convert[ebcdic,1014"),
        ],
        'assumptions': ["the tool functions are verified against the CONTRACTS of the reader / writer classes (their per-record behaviour is C01, C03, C06): which encoding, blocking and configuration each side gets, every record written once in order, output finalised once; the per-record claims are the conversion lemmas (element decoded under A, re-encoded under B, decodes under B to the same value; binary ICC data byte-identical; A->B->A byte-for-byte for characters encodable in both codecs)",
                        "codec bijection on the characters used is an assumption about the code pages (exhaustively checked for latin_1, cp500, cp037 in the native stand-in); generator expressions are evaluated eagerly by the engine (same results, different interleaving of reads and writes)",
                        "cli_run of mci_ipm_encode / mci_ipm_param_encode is verified as plumbing against an open() model (one ghost file per name): named input/output (default input+'.out'), encodings as given, formats 'vbs' exactly when 1014 blocking is switched off; argparse and the operating system's files are not verified (the stand-in runs mideu convert on real temporary files)",
                        "mideu convert re-packs PDS sub-elements: equal carriers follow from C12 (same sorted items, same greedy cuts); not re-proved here"],
    },
    'C20': {
        'deps': ['C06', 'C12'],
        'modules': ['contracts.iso_field', 'contracts.cli_tools'],
        'canaries': [
            ('cardutil/cli/mci_csv_to_ipm.py', "record = {k: v for k, v in row.items() if v}", "record = {k: v for k, v in row.items() if v and k != 'PDS0023'}", "a supplied column dropped on the way in", "mci_csv_to_ipm[1014"),
            ('cardutil/cli/mci_ipm_to_csv.py', "writer.writerow({item: data_item[item] for item in data_item if item in field_list})", "writer.writerow({item: data_item[item] for item in data_item if item in field_list and data_item[item]})", "zero / empty values dropped on extraction", "mci_ipm_to_csv[1014"),
            ('cardutil/cli/mci_csv_to_ipm.py', "blocked = not no1014blocking", "blocked = bool(no1014blocking)", "blocking flag inverted", "mci_csv_to_ipm[vbs"),
        ],
        'assumptions': ["csv.DictReader / csv.DictWriter are modelled as a text round trip of rows of cells (quoting of commas, quotes and spaces is the csv module's, assumed); csv writes str(value); dateutil.parser.parse(str(dt)) = dt for second-precision datetimes is assumed",
                        "plumbing only: each CSV row becomes one message holding exactly its non-empty cells; each record becomes one CSV row holding exactly the configured columns it has; encoding / blocking / configuration are passed to the writer and reader; the message round trip in between is C06",
                        "command entry points: both cli_run functions are verified as plumbing against an open() model (named files, the 1014 option and the encodings exactly as the caller gave them, configuration from get_config); argparse and the operating system's files are not verified (the stand-in runs cli_run on real temporary files)"],
    },
    'C18': {
        'modules': ['contracts.iso_field', 'contracts.ipm_param'],
        'canaries': [
            (MCI, "field_offset = -8  # all fields should be offset by this value", "field_offset = -7  # all fields should be offset by this value", "compressed columns shifted by one", "__next__[compressed"),
            (MCI, "            if record_table_id == self.table_id:\n                record_dict = {", "            if record_table_id >= self.table_id:\n                record_dict = {", "rows of later tables returned", "__next__[expanded"),
            (MCI, "_IP0000T1_TABLE_SUB_ID = slice(243, 246)", "_IP0000T1_TABLE_SUB_ID = slice(242, 245)", "index sub id read from the wrong columns", "__init__[1 index"),
        ],
        'assumptions': ["the VBS layer under the parameter reader is replaced by its contract (C03/C05): records of a ghost list of any length, then StopIteration",
                        "index: ANY number of records before the trailer by loop invariant over the real `while True` of __init__ (ghost counter / row / position functions defined by recursion over the file; table index = association list of (row[243:246], row[19:27]) of the index rows in file order, every index row entered; well-formed index rows have >= 246 characters), plus concrete 0/1/2-row executions; data rows: any number, by loop invariant with a skolem row for `no row skipped`, over a two-entry index and over an association list of ANY length (dict lookup = last entry with an equal key; its two universally quantified parts are instantiated at the terms the proof needs)",
                        "decode commutes with slicing for single-byte codecs (element-wise decode model); undecodable records are outside the property"],
    },
    'C07': {
        'modules': ISOMODS + ['contracts.mciipm_block', 'contracts.mciipm_vbs', 'contracts.cli_tools'],
        'canaries': [
            (ISO, "        if pds_field_length < 0:  # would move the pointer backwards and never finish\n            raise Iso8583DataError(f'Invalid length for PDS{pds_field_tag}')\n", "", "negative PDS sub-length accepted (hang)", "_pds_to_dict/any"),
            (ISO, "except (struct.error, binascii.Error) as ex:", "except struct.error as ex:", "binascii.Error escapes loads", "loads-hex-bitmap"),
            (ISO, "        except struct.error as ex:\n            raise Iso8583DataError(f'Unable to process DE{bit} ICC data',", "        except KeyError as ex:\n            raise Iso8583DataError(f'Unable to process DE{bit} ICC data',", "struct.error escapes from ICC data", "_iso8583_to_field[LLLVAR,ICC"),
        ],
        'assumptions': ["exception sets of the library models are what makes this meaningful: int -> ValueError, decode -> UnicodeDecodeError, struct.unpack -> struct.error, unhexlify -> binascii.Error, strptime -> ValueError, Decimal -> InvalidOperation, s[i] -> IndexError, d[k] -> KeyError; re.match is assumed to terminate; MemoryError / RecursionError / wall-clock `promptly` are out of reach",
                        "loads on arbitrary bytes: per element shape (every configuration shape, any bytes of any length); at message level for EVERY bitmap and ANY configuration by loop invariant (element functions by contract), and end to end for a fixed family of bitmaps; hex-bitmap decoding with an arbitrary bitmap character",
                        "command-line tools: mci_ipm_to_csv.cli_run and mideu.cli_run are executed from their keyword arguments (argparse not involved; open() = named ghost files; get_config / ipm_info by stub) with a reader that raises the library's data error: they print the diagnostic naming the record and return -1; that the reader raises nothing else is the IpmReader.__next__ contract"],
    },
    'C08': {
        'modules': ISOMODS,
        'canaries': [
            (ISO, "        if field_length < 0:\n            raise Iso8583DataError(f'Invalid field length DE{bit}', binary_context_data=message_data)\n", "", "negative length prefix accepted", "_iso8583_to_field[LLVAR,text"),
            (ISO, "    if message_pointer != len(message_data):", "    if message_pointer > len(message_data):", "trailing bytes ignored", "loads-framing[fixed-only"),
            (ISO, "            message_pointer += message_increment\n", "            message_pointer += message_increment\n            if message_pointer >= len(message_data):\n                break\n", "bitmap walk stops early when the data is used up", "_iso8583_to_dict/all-bitmaps"),
            (ISO, "    field_data = message_data[length_size:length_size + field_length]", "    field_data = message_data[length_size:length_size + field_length + 1]", "element reads one byte too many", "_iso8583_to_field[LLVAR,text"),
        ],
        'assumptions': ["numerals that are not plain ASCII digits: int() may return any integer; the contract still requires a non-negative length and exact framing for whatever is returned",
                        "message level: tiling (offsets advance by each flagged element's own non-negative size, end of the last element = end of the data) for EVERY bitmap and ANY configuration by loop invariant with _iso8583_to_field replaced by its contract; plus end-to-end for the bitmaps {2,3,72}, {31,33}, {3,14,24} with arbitrary bytes after the bitmap; acceptance of every well-framed message is the round-trip units of C01"],
    },
    'C12': {
        'modules': ISOMODS,
        'canaries': [
            (ISO, "if len(output + add_output) > 999:", "if len(output + add_output) > 1000:", "carrier may reach 1000 characters", "pds-pack-unpack[2"),
            (ISO, "if len(output + add_output) > 999:", "if len(output) + length > 999:", "header of the added sub-element not counted", "_pds_to_de/any-number"),
            (ISO, "    while field_pointer < len(field_data):\n        # get the pds tag id", "    while field_pointer + 7 < len(field_data):\n        # get the pds tag id", "trailing empty sub-element dropped", "_pds_to_dict/item-tiled"),
            (ISO, "field_pointer += 7+pds_field_length", "field_pointer += 8+pds_field_length", "PDS walker skips a character", "_pds_to_dict/item-tiled"),
        ],
        'assumptions': ["_pds_to_dict: any number of sub-elements (loop invariant over an item-tiled carrier); _pds_to_de: any number of sub-elements (loop invariant with ghost cut points, an arbitrary closed carrier as skolem; the message dict is modelled as m 'PDS'+4-digit keys in arbitrary insertion order with sorted() returning the ascending list - the contract of sorted) and additionally 1..3 sub-elements with a concrete dict; placement into DE48/DE62 through the real dumps/loads for two sub-elements",
                        "sorted() on 'PDS'+4-digit keys is ascending tag order (lexicographic = numeric for equal-length digit strings)"],
    },
    'C17': {
        'modules': ['contracts.bitarray', 'contracts.mciipm_info'],
        'canaries': [
            (MCI, "if len(sample_data) >= 2028 and sample_data[2026:2028] == Block1014.PAD_CHAR * 2:", "if len(sample_data) == 2028 and sample_data[2026:2028] == Block1014.PAD_CHAR * 2:", "blocked files of 3+ blocks reported unblocked", "writer-output"),
            (MCI, "if len(sample_data) < 24:", "if len(sample_data) < 32:", "short-file threshold moved", "writer-output[ascii,vbs"),
            (MCI, "if mti.decode('cp037').isnumeric():", "if mti.decode('cp500').isalpha():", "EBCDIC detection broken", "writer-output[ebcdic"),
            (MCI, "if record_length > max_rec_length:", "if record_length >= max_rec_length:", "maximum-length first record rejected", "boundaries"),
        ],
        'assumptions': ["writer output is characterised structurally: 4-byte big-endian first length in 20..MAX, four MTI digits in the codec family (0x30-0x39 / 0xF0-0xF9), bitmap with bit 1 set and only packaged-configured bits, blocked files = whole 1014-byte blocks ending 40 40 (what C03/C04 prove about the writer)",
                        "str.isnumeric exact for code points < 256 (table), cp037 decoding by table"],
    },
    'C13': {
        'modules': ['contracts.pinblock'],
        'canaries': [
            (PINB, "rightmost_12 = self.card_number[-13:-1]", "rightmost_12 = self.card_number[-12:]", "format 0 includes the check digit"),
            (PINB, ':a<16}{self.random_value:016x}', ':f<16}{self.random_value:016x}', "format 4 filled with F"),
            (PINB, "pin = p1[2:2 + pin_length]\n        return cls(pin, card_number=card_number)", "pin = p1[2:1 + pin_length]\n        return cls(pin, card_number=card_number)", "format 0 decode drops last digit"),
        ],
        'assumptions': ["cryptography's TripleDES / AES in ECB mode are uninterpreted block functions E/D per key width with D(k,E(k,x)) = x, defined for key lengths 8/16/24 (TDES; 8- and 16-byte keys are the 24-byte keys KKK / K1K2K1) and 16/24/32 (AES) and whole blocks, ValueError otherwise; the ciphers themselves (the statement's `independent DES/AES reference`) are out of reach of contracts on cardutil - known-answer vectors in the native stand-in test the assumption",
                        "finite case split: PIN lengths 4..12 x PAN lengths 13..19 for the clear blocks (complete), PIN lengths {4,12} x 16-digit PAN x every key length for the encrypted forms; all digits, key nibbles and random bits symbolic",
                        "secrets.randbits(k) returns a fresh k-bit value per call"],
    },
    'C14': {
        'modules': ['contracts.pinblock'],
        'canaries': [
            (PINB, "rightmost_11 = card_number[-12:-1]", "rightmost_11 = card_number[-11:]", "TSP includes the check digit", "_get_tsp"),
            (KEYF, "p1 = f'{int(p1, 16) ^ int(key_part, 16):032x}'", "p1 = f'{int(key_part, 16):032x}'", "key parts not accumulated", "get_zone_master_key"),
            (PINB, "if len(values_pass1) < 4:", "if len(values_pass1) < 3:", "second scan skipped with three digits", "calculate_pvv[key=16 hex,pin=4"),
            (PINB, "str(int(value, 16) - 10)", "str(int(value, 16) - 9)", "A-F mapped to 1-6", "calculate_pvv[key=16 hex,pin=4"),
        ],
        'assumptions': ["cipher model as for C13", "finite split: TSP for all PIN 4..12 x PAN 13..19 (x idx 0..9 for one shape, {0,5,9} otherwise); PVV decimalisation for three shapes x key lengths 8/16/24 bytes with the 16 ciphertext nibbles free (so scans needing 0..4 substituted digits are all covered); key components: ANY number by loop invariant over the real for loop (p1 = 32 hex digits of XOR_OF_FIRST(i), defined by recursion; components of 32 hex digits of either case), plus 1..4 parts executed concretely",
                        "order independence for more than adjacent swaps follows from adjacent transpositions generating all permutations (stated, not mechanised)"],
    },
    'C03': {
        'modules': VBSMODS,
        'canaries': [
            (MCI, 'record_length_raw = struct.pack(">I", record_length)', 'record_length_raw = struct.pack(">I", record_length + 1)', "writer prefix off by one"),
            (MCI, "if len(record_length_raw) != 4:", "if len(record_length_raw) < 3:", "reader accepts a short prefix"),
            (MCI, 'self.out_file.write(struct.pack(">I", 0))\n        self.out_file.seek(0)', 'self.out_file.seek(0)', "close writes no terminator"),
            (MCI, "return record  # get the full record", "return record[1:]  # get the full record", "reader drops first byte"),
        ],
        'assumptions': ["any NUMBER of records: write_many / vbs_list_to_bytes over a symbolic-length record list by loop invariant (stream = prefix ++ VBS[:OFF(i)]), and a ghost client reading VBS(records)++terminator back record by record (reader offset = OFF(j), counter = j+1); the list comprehension in vbs_bytes_to_list is executed for two records only (the ghost client stands for it); blocked files by refinement (Block1014 invariant with ghost data = the stream, Unblock1014.read = reading PAYLOAD)",
                        "struct.pack/unpack('>I') model: big-endian base-256 digits, struct.error outside 0..2**32-1 / wrong buffer size"],
    },
    'C09': {
        'modules': VBSMODS,
        'canaries': [
            (MCI, "if len(record) != record_length:", "if len(record) > record_length:", "reader delivers a partial record"),
            (MCI, "if len(record_length_raw) != 4:", "if not record_length_raw:", "short prefix reaches struct.unpack"),
        ],
        'assumptions': ["a truncated blocked file unblocks to a prefix of the full payload stream (PAYLOAD-truncation lemma, closed form) and Unblock1014.read refines reading that stream; message-level decoding of a delivered record is C07's contract on loads"],
    },
    'C10': {
        'modules': VBSMODS,
        'canaries': [
            (MCI, "record_number=self.record_number - 1,", "record_number=self.record_number,", "message-level fault reported as k+1"),
            (MCI, "binary_context_data=record_length_raw + record)", "binary_context_data=record)", "framing error context drops the prefix"),
            ('cardutil/__init__.py', "if kwargs.get('record_number'):", "if kwargs.get('record_no'):", "CardutilError ignores record_number"),
        ],
        'assumptions': ["iso8583.loads is replaced by its contract (returns a dict or raises Iso8583DataError - that is C07) when IpmReader.__next__ is verified"],
    },
    'C11': {
        'modules': VBSMODS,
        'canaries': [
            (MCI, "        if self._finalised:\n            return\n", "", "close no longer idempotent"),
            (MCI, "    def __exit__(self, exc_type, exc_val, exc_tb) -> None:\n        self.close()", "    def __exit__(self, exc_type, exc_val, exc_tb) -> None:\n        pass", "context-manager exit does not finalise"),
        ],
        'assumptions': ["histories write* (close|exit)+ of any length: first finalisation proved from every writer state, every further finalisation proved to change nothing from the state the first one leaves (fixed point), hence by induction"],
    },
    'C04': {
        'modules': ['contracts.mciipm_block'],
        'canaries': [
            (MCI, "while len(bytes_to_write) > 1012:", "while len(bytes_to_write) > 1014:", "Block1014.write loop bound 1012 -> 1014"),
            (MCI, "self.remaining_chars = 1012-len(bytes_to_write)", "self.remaining_chars = 1014-len(bytes_to_write)", "remaining_chars from 1014"),
            (MCI, "self.file_obj.write(self.PAD_CHAR * (self.remaining_chars + 2))", "self.file_obj.write(self.PAD_CHAR * (self.remaining_chars + 1))", "finalise one pad byte short"),
            (MCI, "bytes_to_write = bytes_to_write[1012:]", "bytes_to_write = bytes_to_write[1013:]", "loop drops a byte per block"),
            (MCI, "record += (1012 - len(record)) * pad_char", "record += (1011 - len(record)) * pad_char", "block_1014 pads one short"),
        ],
        'assumptions': ["induction over write histories is the soundness of object-invariant reasoning: Block1014.__init__ establishes the invariant, write preserves it from EVERY state satisfying it (not only reachable ones), finalise/seek/close are proved from every such state"],
    },
    'C05': {
        'modules': ['contracts.mciipm_block'],
        'canaries': [
            (MCI, "self.buffer += block[:1012]", "self.buffer += block[:1013]", "unblocker keeps a trailer byte"),
            (MCI, "while read_all or len(self.buffer) <= bytes_to_read:", "while read_all or len(self.buffer) < bytes_to_read - 1:", "refill loop stops early"),
            (MCI, "if record[-2:] != pad_char * 2:", "if record[-1:] != pad_char:", "unblock_1014 checks one trailer byte"),
            (MCI, "output_data.write(record[0:1012])", "output_data.write(record[0:1013])", "unblock_1014 copies a trailer byte"),
        ],
        'assumptions': ["induction over read histories = representation-invariant reasoning (Unblock1014.__init__ establishes, read preserves from every state satisfying it)",
                        "read(0) is treated like read() by the code (falsy size); the contract covers sizes k >= 1 and the no-size form"],
    },
    'C15': {
        'modules': ['contracts.card', 'contracts.lemmas'],
        'canaries': [
            (CARD, "cycle([2, 1])", "cycle([1, 2])", "Luhn weights swapped"),
            (CARD, "(total * 9) % 10", "(total * 7) % 10", "check digit multiplier 9 -> 7"),
            (CARD, "digits[::-1]", "digits", "digits not reversed"),
            (CARD, "card_number[0:-1]) != card_number[-1]", "card_number[0:-1]) != card_number[0]", "validate compares with first digit"),
            (CARD, "if digit.isdigit()]", "if digit.isdigit() and digit != '0']", "zero digits dropped from a text with separators"),
            (CARD, "if digit.isdigit()]", "if digit.isdigit() or digit == 'O']", "letter O let through the digit filter"),
        ],
        'level_note': "Trusted: pyvc, z3/cvc5, the library models listed in evidence. The error-detection clauses (single substitution, adjacent transposition other than 0/9) are lemmas over the Luhn spec the code is proved equal to, proved by induction over the digit count (base and step obligations in contracts/lemmas.py).",
        'assumptions': ["int(c) on a one-character ASCII digit string is the digit value; str(d) for 0<=d<=9 is chr(48+d)",
                        "text with separators (any printable ASCII between the digits): the comprehension filter is modelled by an uninterpreted strictly increasing selection function (the digits of the text, in order); the model states the semantics of a filtered comprehension as: selected positions satisfy the filter, and every position that satisfies the filter is the image of its rank (skolem function RANK); the unit proves from these that the selected positions are exactly the digit positions of the text; non-ASCII characters for which str.isdigit() is true but int() fails are outside the property (digit strings)",
                        "SIGMA (finite sum) is characterised by its unfolding equations; induction over the length is written out as base/step obligations in contracts/lemmas.py"],
    },
    'C16': {
        'modules': ['contracts.card', 'contracts.iso_field'],
        'canaries': [
            (CARD, "card_number[0:6] + mask_char", "card_number[0:7] + mask_char", "mask keeps 7 leading characters", "card.mask"),
            (CARD, "(len(card_number)-10)", "(len(card_number)-11)", "mask one short", "card.mask"),
            (ISO, "    if field_processor == 'PAN':\n        field_data = mask(field_data)", "    if field_processor == 'PAN' and len(field_data) <= 19:\n        field_data = mask(field_data)", "long PAN values returned in clear", "_iso8583_to_field[LLLVAR,PAN"),
        ],
        'assumptions': ["decode level: per element shape (LLVAR / LLLVAR with PAN or PAN-PREFIX processor, with and without the explicit \"string\" type) for ANY bytes; that loads hands the caller's configuration to the decoder unchanged is the loads plumbing unit; that elements are cut from the message where the bitmap says is C08 (its units and stand-in run with C16)",
                        "a configuration is read at every call (frame lint + stand-in that switches masking on in place between two decodes); no claim about configuration objects mutated from another thread"],
    },
}


# properties stated over a layer that other properties establish are checked together with those (units and stand-ins)
_DEPS = {'C03': ['C04', 'C05'], 'C05': ['C04'], 'C09': ['C05'], 'C10': ['C07'], 'C11': ['C04'], 'C16': ['C08'], 'C17': ['C03'], 'C18': ['C03', 'C05']}
for _k, _d in _DEPS.items():
    PROPS[_k]['deps'] = sorted(set(PROPS[_k].get('deps') or []) | set(_d))
PROPS['C16']['modules'] = list(PROPS['C16']['modules']) + ['contracts.iso_api']
for _k in ('C04', 'C05'):
    PROPS[_k]['modules'] = list(PROPS[_k]['modules']) + ['contracts.mciipm_vbs', 'contracts.vbs_lists']      # the list/bytes helpers as clients of the blocker

# the frame lint (contracts/lint.py: no state shared between calls or instances) backs every property's per-call contracts
for _p in PROPS.values():
    _p['modules'] = list(_p['modules']) + ['contracts.lint']
