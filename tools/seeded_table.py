#!/usr/bin/env python3
"""regenerate the seeded-changes table of DESIGN.md (section I.7) from seeded/_results.json and the meta files"""
import json, os, re
ROOT = os.path.dirname(os.path.dirname(os.path.abspath(__file__)))
res = json.load(open(os.path.join(ROOT, 'seeded', '_results.json')))
rows = []
for name in sorted(res):
    d = os.path.join(ROOT, 'seeded', name)
    meta = {}
    try:
        meta = json.load(open(os.path.join(d, 'meta.json')))
    except Exception:
        pass
    summ = (meta.get('summary') or ('reverse of fix commit ' + name.split('-')[1] if name.startswith('fixrevert') else '')).replace('|', '/').replace('\n', ' ')
    for pid, r in sorted(res[name].items()):
        if not isinstance(r, dict) or 'exit' not in r:
            continue
        if r['exit'] == 1:
            how = []
            if r.get('n_failed'):
                how.append('obligations fail: ' + ', '.join('`%s`' % o.replace('|', '/')[:70] for o in r['failed_obligations'][:2]) + (' …' if r['n_failed'] > 2 else ''))
            if r.get('native') == 'failures':
                how.append('native input replayed')
            elif r.get('n_failed'):
                how.append('no-failing-input-found' if any('no-failing-input-found' in l for l in r.get('lines', [])) else '')
            if not r.get('n_failed') and r.get('undecided'):
                how.insert(0, 'proof undecided (%d), stand-in finds the failing input' % r['undecided'])
            verdict = 'caught'
        elif r['exit'] == 0:
            verdict, how = 'MISSED', ['undecided=%d' % r.get('undecided', 0)]
        else:
            verdict, how = 'checker error', [r.get('stderr', '')[:80]]
        rows.append('| %s | %s | %s | %s | %s |' % (name, pid, summ[:110], verdict, '; '.join(h for h in how if h)[:230]))
tab = ['| change | check | what was changed | result | how |', '|---|---|---|---|---|'] + rows
n_caught = sum(1 for r in rows if '| caught |' in r)
txt = 'Results of the last runs (`tools/run_seeded.py`), %d of %d (change, check) pairs caught:\n\n' % (n_caught, len(rows)) + '\n'.join(tab)
p = os.path.join(ROOT, 'DESIGN.md')
s = open(p).read()
s = re.sub(r'<!-- SEEDED-TABLE-BEGIN -->.*<!-- SEEDED-TABLE-END -->', '<!-- SEEDED-TABLE-BEGIN -->\n' + txt.replace('\\', '\\\\') + '\n<!-- SEEDED-TABLE-END -->', s, flags=re.S)
open(p, 'w').write(s)
print(n_caught, len(rows))
