#!/usr/bin/env python3
"""Confirm candidate mutations: demo passes on clean tree, patch applies, 116 tests pass, demo fails.
usage: confirm_seeded.py <incoming_dir> <dest_seeded_dir>"""
import json, os, re, shutil, subprocess, sys, tempfile
inc, dest = sys.argv[1], sys.argv[2]
PY = '/venv/bin/python'
def run(cmd, cwd, env=None, timeout=900):
    e = dict(os.environ); e.update(env or {})
    p = subprocess.run(cmd, cwd=cwd, env=e, capture_output=True, text=True, timeout=timeout)
    return p.returncode, (p.stdout + p.stderr)[-1500:]
head = subprocess.check_output(['git', '-C', '/repo', 'rev-parse', '--short', 'HEAD'], text=True).strip()
results = []
for pid in sorted(os.listdir(inc)):
    pdir = os.path.join(inc, pid)
    if not os.path.isdir(pdir) or not re.fullmatch(r'(R\d+)?C\d\d', pid): continue
    for m in sorted(os.listdir(pdir)):
        mdir = os.path.join(pdir, m)
        patch = os.path.join(mdir, 'patch.diff'); demo = os.path.join(mdir, 'demo.py')
        if not (os.path.exists(patch) and os.path.exists(demo)): continue
        wt = tempfile.mkdtemp(prefix='wtc_')
        os.rmdir(wt)
        subprocess.check_call(['git', '-C', '/repo', 'worktree', 'add', '-q', '--detach', wt, 'HEAD'])
        prop = pid[-3:]
        rec = {'id': f'{pid}-{m}', 'property': prop}
        try:
            env = {'PYTHONPATH': wt}
            shutil.copy(demo, os.path.join(wt, '_demo.py'))
            rc0, out0 = run([PY, '_demo.py'], wt, env)
            rec['demo_clean_rc'] = rc0
            rca, outa = run(['git', 'apply', patch], wt)
            rec['apply_rc'] = rca
            rct, outt = run([PY, '-m', 'pytest', '-q', '-p', 'no:cacheprovider', '-x'], wt, env)
            rec['tests_rc'] = rct; rec['tests_tail'] = outt.strip().splitlines()[-1] if outt.strip() else ''
            rc1, out1 = run([PY, '_demo.py'], wt, env)
            rec['demo_mut_rc'] = rc1; rec['demo_mut_tail'] = out1[-400:]
            rec['confirmed'] = (rc0 == 0 and rca == 0 and rct == 0 and '116 passed' in rec['tests_tail'] and rc1 != 0)
        except Exception as ex:
            rec['error'] = repr(ex); rec['confirmed'] = False
        finally:
            subprocess.call(['git', '-C', '/repo', 'worktree', 'remove', '--force', wt])
            shutil.rmtree(wt, ignore_errors=True)
        if rec['confirmed']:
            d = os.path.join(dest, rec['id']); os.makedirs(d, exist_ok=True)
            shutil.copy(patch, os.path.join(d, 'patch.diff')); shutil.copy(demo, os.path.join(d, 'demo.py'))
            meta = {}
            try: meta = json.load(open(os.path.join(mdir, 'meta.json')))
            except Exception: pass
            meta.update({'breaks_property': prop, 'confirmed_on_repo_head': head,
                         'what_i_ran': 'fresh worktree of /repo HEAD: demo.py exit 0; git apply patch.diff; pytest 116 passed; demo.py exit %d' % rec['demo_mut_rc'],
                         'origin': 'independent sub-agent given only the property text and a scratch worktree'})
            json.dump(meta, open(os.path.join(d, 'meta.json'), 'w'), indent=1)
        results.append(rec)
        print(rec['id'], 'CONFIRMED' if rec['confirmed'] else 'REJECTED', {k: v for k, v in rec.items() if k.endswith('_rc')}, flush=True)
json.dump(results, open(os.path.join(dest, '_confirm_log.json'), 'w'), indent=1)
