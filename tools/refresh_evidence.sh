#!/bin/sh
# re-run every claimed quick check on /repo itself so that the committed evidence files are from the unchanged tree
cd "$(dirname "$0")/.." || exit 1
# function texts the contracts are validated against (a unit that cannot run on exactly these texts is a checker defect)
python3-vt -c "
import json, sys
sys.path.insert(0, '.')
from pyvc.report import function_hashes, BASELINE_HASHES
json.dump(function_hashes('/repo'), open(BASELINE_HASHES, 'w'), indent=0, sort_keys=True)
print('validated function texts:', BASELINE_HASHES)
"
for p in $(python3 -c "import sys; sys.path.insert(0,'.'); from props import registry; print(' '.join(sorted(registry.PROPS)))"); do
  VERIF_SEED=${VERIF_SEED:-1} timeout 1500 ./check "$p" --tier quick | grep -E "^C[0-9]+:|VIOLATION|UNDECIDED|CHECKER" | cut -c1-160
done
python3-vt - <<'PY'
import json, glob, jsonschema
sch = json.load(open('/root/.vp/EVIDENCE.schema.json'))
for f in sorted(glob.glob('evidence/*.json')):
    e = json.load(open(f)); jsonschema.validate(e, sch)
    print(f, e['level'], e['coverage']['obligations'], e['coverage']['discharged'])
PY
