#!/usr/bin/env python3
"""Run property checks against seeded changes on scratch copies of /repo (never touches /repo).
usage: run_seeded.py [--props C15,C16] [--only C15-m1,...] [--all-props]
For each seeded change: copy /repo -> scratch, git apply patch, run ./check <pid> --repo scratch for the property it
breaks (or every claimed property with --all-props), record exit code and VIOLATION/UNDECIDED lines."""
import argparse, json, os, shutil, subprocess, sys, tempfile, concurrent.futures as cf
ROOT = os.path.dirname(os.path.dirname(os.path.abspath(__file__)))
sys.path.insert(0, ROOT)
FIXPROP = {'71d213c': 'C15', 'f30e791': 'C05', 'a925cfb': 'C10', 'c3abf56': 'C11', '13fbf75': 'C17', '6f3fb67': 'C13', '19dc22a': 'C14',
           '5327d5a': 'C02', '70f5989': 'C08', '8bb85d4': 'C07', 'be7864c': 'C07', '7153d13': 'C07', 'f9b5f75': 'C07'}
def prop_of(name):
    if name.startswith('fixrevert-'):
        return FIXPROP[name.split('-')[1]]
    return name.split('-')[0][-3:]
def one(name, pids, tier):
    d = os.path.join(ROOT, 'seeded', name)
    scratch = tempfile.mkdtemp(prefix='seed_')
    out = {}
    try:
        subprocess.check_call(['rsync', '-a', '--exclude', '.git', '/repo/', scratch + '/'])
        r = subprocess.run(['git', 'apply', '--unsafe-paths', '--directory', scratch, os.path.join(d, 'patch.diff')], cwd='/', capture_output=True, text=True)
        if r.returncode != 0:
            r = subprocess.run(['patch', '-p1', '-s', '-i', os.path.join(d, 'patch.diff')], cwd=scratch, capture_output=True, text=True)
            if r.returncode != 0:
                return name, {'apply': 'FAILED ' + r.stderr[-200:]}
        for pid in pids:
            env = dict(os.environ, PYVC_EVIDENCE_DIR=os.path.join(scratch, '_evidence'))
            p = subprocess.run([os.path.join(ROOT, 'check'), pid, '--tier', tier, '--repo', scratch, '--no-canaries'], capture_output=True, text=True, env=env)
            lines = [l for l in p.stdout.splitlines() if l.startswith(('VIOLATION', 'UNDECIDED', 'CHECKER-ERROR', 'KNOWN'))]
            ev = {}
            try:
                ev = json.load(open(os.path.join(scratch, '_evidence', pid + '.json')))
            except Exception:
                pass
            cov = ev.get('coverage', {})
            failed = [f['name'] for f in cov.get('failed_obligations', [])]
            st = (cov.get('bounded_standins') or [{}])[0]
            out[pid] = {'exit': p.returncode, 'lines': [l[:200] for l in lines][:6], 'stderr': p.stderr[-300:] if p.returncode not in (0, 1) else '',
                        'failed_obligations': failed[:6], 'n_failed': len(failed), 'undecided': len(cov.get('undecided', [])),
                        'native': st.get('result'), 'native_detail': [f.get('detail', '')[:160] for f in st.get('failures', [])][:2]}
    finally:
        shutil.rmtree(scratch, ignore_errors=True)
    return name, out
def main():
    ap = argparse.ArgumentParser()
    ap.add_argument('--props'); ap.add_argument('--only'); ap.add_argument('--all-props', action='store_true'); ap.add_argument('--tier', default='quick')
    ap.add_argument('-j', type=int, default=1)
    a = ap.parse_args()
    from props import registry
    claimed = sorted(registry.PROPS)
    names = sorted(n for n in os.listdir(os.path.join(ROOT, 'seeded')) if os.path.isdir(os.path.join(ROOT, 'seeded', n)))
    if a.only:
        names = [n for n in names if n in a.only.split(',')]
    res = {}
    work = []
    for n in names:
        pid = prop_of(n)
        pids = claimed if a.all_props else [pid]
        if a.props:
            pids = [p for p in pids if p in a.props.split(',')]
        pids = [p for p in pids if p in claimed]
        if pids:
            work.append((n, pids))

    def done(name, out):
        res[name] = out
        for pid, o in out.items() if isinstance(out, dict) else []:
            if pid == 'apply':
                print(name, out)
                break
            tag = 'DETECTED' if o['exit'] == 1 else ('missed' if o['exit'] == 0 else 'ERROR')
            own = '' if pid == prop_of(name) else ' (other property)'
            print('%-22s %s %-8s%s %s' % (name, pid, tag, own, ' | '.join(o['lines'])[:260]), flush=True)
    with cf.ThreadPoolExecutor(max_workers=max(1, a.j)) as ex:
        futs = [ex.submit(one, n, pids, a.tier) for n, pids in work]
        for f in cf.as_completed(futs):
            name, out = f.result()
            done(name, out)
    json.dump(res, open(os.path.join(ROOT, 'seeded', '_last_run.json'), 'w'), indent=1)
    allp = os.path.join(ROOT, 'seeded', '_results.json')
    acc = json.load(open(allp)) if os.path.exists(allp) else {}
    for k, v in res.items():
        acc.setdefault(k, {}).update(v if isinstance(v, dict) else {})
    json.dump(acc, open(allp, 'w'), indent=1)
if __name__ == '__main__':
    main()
