#!/usr/bin/env python3
"""false-alarm test: apply each semantics-preserving refactoring (seeded_harmless/*) to a scratch copy and run the checks of
the properties whose functions it touches (or all with --all); any exit != 0 is a false alarm of ours."""
import json, os, shutil, subprocess, sys, tempfile
ROOT = os.path.dirname(os.path.dirname(os.path.abspath(__file__)))
sys.path.insert(0, ROOT)
from props import registry
MAP = {'mciipm': ['C03', 'C04', 'C05', 'C06', 'C09', 'C10', 'C11', 'C17', 'C18'], 'card': ['C15', 'C16'], 'iso8583': ['C01', 'C02', 'C06', 'C07', 'C08', 'C12', 'C16'],
       'pinblock': ['C13', 'C14'], 'key': ['C14'], 'BitArray': ['C01', 'C02', 'C17'], '__init__': ['C10', 'C07'], 'cli/__init__': ['C19', 'C20']}
only = sys.argv[1:] 
for name in sorted(os.listdir(os.path.join(ROOT, 'seeded_harmless'))):
    d = os.path.join(ROOT, 'seeded_harmless', name)
    if not os.path.isdir(d) or (only and name not in only):
        continue
    patch = open(os.path.join(d, 'patch.diff')).read()
    pids = set()
    for k, v in MAP.items():
        if 'cardutil/%s.py' % k in patch:
            pids.update(v)
    pids = sorted(p for p in pids if p in registry.PROPS)
    scratch = tempfile.mkdtemp(prefix='harm_')
    try:
        subprocess.check_call(['rsync', '-a', '--exclude', '.git', '/repo/', scratch + '/'])
        r = subprocess.run(['patch', '-p1', '-s', '-i', os.path.join(d, 'patch.diff')], cwd=scratch, capture_output=True, text=True)
        if r.returncode:
            print(name, 'PATCH FAILED', r.stderr[-200:]); continue
        for pid in pids:
            p = subprocess.run([os.path.join(ROOT, 'check'), pid, '--tier', 'quick', '--repo', scratch, '--no-canaries'], capture_output=True, text=True)
            lines = [l[:160] for l in p.stdout.splitlines() if l.startswith(('VIOLATION', 'UNDECIDED', 'CHECKER'))]
            print('%-8s %s %s %s' % (name, pid, 'ok' if p.returncode == 0 else 'FALSE-ALARM exit=%d' % p.returncode, ' | '.join(lines)[:300]), flush=True)
    finally:
        shutil.rmtree(scratch, ignore_errors=True)
