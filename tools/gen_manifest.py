#!/usr/bin/env python3
"""regenerate MANIFEST.json from props/registry.py (claimed) and props/not_applicable.py"""
import json, os, sys
ROOT = os.path.dirname(os.path.dirname(os.path.abspath(__file__)))
sys.path.insert(0, ROOT)
from props import registry
props = [json.loads(l) for l in open(os.path.join(ROOT, 'properties.jsonl'))]
NA_DEFAULT = "check not built yet in this revision (see DESIGN.md section 13 for the order of work)"
na_reasons = getattr(registry, 'NOT_APPLICABLE', {})
checks = []
for p in props:
    pid = p['id']
    if pid not in registry.PROPS:
        continue
    sp = registry.PROPS[pid]
    checks.append({
        'property_id': pid,
        'quick_cmd': './check %s --tier quick' % pid,
        'thorough_cmd': './check %s --tier thorough' % pid,
        'evidence_file': 'evidence/%s.json' % pid,
        'replay_cmd_template': './check --replay {path}',
        'engine': 'pyvc',
        'level_claimed': {'category': 'proof',
                          'text': sp.get('level_text', 'Contract-based deductive verification of the real functions: sidecar pre/postconditions, loop invariants with ghost witnesses and object invariants; every obligation generated from the current /repo AST is discharged by z3 (cvc5 for z3 unknowns; cvc5 re-checks all in the thorough tier) for all inputs, lengths and iterations. A run in which an obligation is not discharged writes level "other" and says so.'),
                          'design_ref': sp.get('design_ref', 'DESIGN.md section 7, ' + pid)},
        'level_note': sp.get('level_note', 'Trusted: the pyvc VC generator (Python subset semantics), z3/cvc5, the library models listed in the evidence file (assumed contracts on dependencies), the sidecar contracts being a faithful reading of the property statement. Bounded native stand-ins (of this property and of the properties it depends on) run on every check, are labelled bounded and never counted as discharged.'),
        'technique': sp.get('technique', 'contract-based deductive verification: ast->VC generation over the real source (pyvc), obligations discharged by z3/cvc5; the deciding step is the solver accepting every obligation; a bounded native stand-in (labelled bounded, never counted as discharged) runs alongside to realise counterexamples and to decide where an obligation or the frame lint is left open'),
    })
m = {
    'version': 1,
    'setup_cmd': 'python3-vt -m pyvc.selftest',
    'hooks': {'guard': 'CARDUTIL_VERIF',
              'enable': 'no hooks: the checks parse /repo/cardutil/*.py with ast on every run and execute the real ASTs symbolically; the guard guards no source change',
              'baseline_off_cmd': 'cd /repo && /venv/bin/python -m pytest -ra -q -p no:cacheprovider --timeout=900 --continue-on-collection-errors',
              'source_commits': [], 'add_only': True},
    'engines': [{'name': 'pyvc', 'path': 'pyvc/', 'serves_properties': sorted(registry.PROPS),
                 'kind_free_text': 'home-made deductive verifier for the Python subset cardutil uses: forward symbolic execution of the real ASTs against sidecar contracts, quantifier-free VCs, z3 + cvc5'}],
    'checks': checks,
    'notes': 'See DESIGN.md. /repo carries 13 unguarded fix: commits for genuine defects (known_findings.json).',
    'not_applicable': [{'property_id': p['id'], 'reason': na_reasons.get(p['id'], NA_DEFAULT)} for p in props if p['id'] not in registry.PROPS],
}
json.dump(m, open(os.path.join(ROOT, 'MANIFEST.json'), 'w'), indent=1)
print('claimed:', [c['property_id'] for c in checks])
