"""Symbolic value model of pyvc (see DESIGN.md section 4.2).

Integers are z3 Ints (Python ints are unbounded, so this is exact), booleans z3 Bools.
bytes / str / list are *functional sequences*: a length term and a Python closure from an index term
to an element.  Elements of bytes/str are z3 Ints (code points / byte values), Python ints (literals)
or 8-bit vectors (fixed-length crypto-format modules).  Nothing here is quantified.
"""
import z3


class Unsupported(Exception):
    """Construct outside the verified Python subset: reported as *undecided*, never pass / violation."""


class PathEnd(Exception):
    """The current symbolic path ends here (infeasible, or cut by a loop invariant)."""


def simp(t):
    return z3.simplify(t)


# path-condition oracle used inside sequence closures (set by the engine for the current path):
#   _ORACLE['decide'](c) -> True/False/None ,  _ORACLE['value'](t) -> python int or None
_ORACLE = {'decide': None, 'value': None}


def set_oracle(decide=None, value=None):
    _ORACLE['decide'] = decide
    _ORACLE['value'] = value


def is_conc_int(t):
    if isinstance(t, int) and not isinstance(t, bool):
        return True
    if z3.is_expr(t):
        s = t if z3.is_int_value(t) else z3.simplify(t)
        return z3.is_int_value(s)
    return False


def conc_int(t):
    """python int of a concrete term, else None"""
    if isinstance(t, bool):
        return None
    if isinstance(t, int):
        return t
    if z3.is_expr(t):
        if z3.is_int_value(t):
            return t.as_long()
        if z3.is_bv_value(t):
            return t.as_long()
        s = z3.simplify(t)
        if z3.is_int_value(s) or z3.is_bv_value(s):
            return s.as_long()
    return None


def I(x):
    """lift to z3 Int term"""
    if isinstance(x, bool):
        raise Unsupported('bool used as int term')
    if isinstance(x, int):
        return z3.IntVal(x)
    if isinstance(x, VInt):
        return x.t
    return x


def B(x):
    if isinstance(x, bool):
        return z3.BoolVal(x)
    if isinstance(x, VBool):
        return x.t
    return x


def bool_lit(t):
    """True/False if t is literally decided after simplification, else None"""
    if isinstance(t, bool):
        return t
    s = z3.simplify(t)
    if z3.is_true(s):
        return True
    if z3.is_false(s):
        return False
    return None


def ite(c, a, b):
    """If on element/int terms, folding literal conditions and identical branches."""
    cl = bool_lit(c)
    if cl is True:
        return a
    if cl is False:
        return b
    if isinstance(a, int) and isinstance(b, int) and a == b:
        return a
    a2, b2 = unify_elems(a, b)
    if z3.is_expr(a2) and z3.is_expr(b2) and a2.eq(b2):
        return a2
    return z3.If(B(c), a2, b2)


def unify_elems(a, b):
    """bring two element terms (python int | Int | BV8) to one sort"""
    if isinstance(a, int) and isinstance(b, int):
        return z3.IntVal(a), z3.IntVal(b)
    if isinstance(a, int):
        return (z3.BitVecVal(a, b.size()) if z3.is_bv(b) else z3.IntVal(a)), b
    if isinstance(b, int):
        return a, (z3.BitVecVal(b, a.size()) if z3.is_bv(a) else z3.IntVal(b))
    if z3.is_bv(a) != z3.is_bv(b):
        raise Unsupported('mixing Int and BV elements')
    return a, b


def elem_eq(a, b):
    if isinstance(a, int) and isinstance(b, int):
        return z3.BoolVal(a == b)
    a, b = unify_elems(a, b)
    return a == b


# ------------------------------------------------------------------------------------------------
class V:
    pass


class _None(V):
    def __repr__(self):
        return 'None'


NONE = _None()


class VInt(V):
    __slots__ = ('t',)

    def __init__(self, t):
        self.t = z3.IntVal(t) if isinstance(t, int) else t

    def conc(self):
        return conc_int(self.t)

    def __repr__(self):
        return 'VInt(%s)' % z3.simplify(self.t)


class VBV(V):
    """a non-negative Python int known as a bit-vector of fixed width (fixed-length modules only)"""
    __slots__ = ('t', 'w')

    def __init__(self, t, w=None):
        self.t = t
        self.w = t.size()

    def __repr__(self):
        return 'VBV%d(%s)' % (self.w, z3.simplify(self.t))


class VBool(V):
    __slots__ = ('t',)

    def __init__(self, t):
        self.t = z3.BoolVal(t) if isinstance(t, bool) else t

    def __repr__(self):
        return 'VBool(%s)' % z3.simplify(self.t)


TRUE = VBool(True)
FALSE = VBool(False)


class VSeq(V):
    """functional sequence.  kind in {'bytes','str','list'}"""
    __slots__ = ('kind', 'n', 'at', 'items', 'tag', 'parts')

    def __init__(self, kind, n, at, items=None, tag=None, parts=None):
        self.kind = kind
        self.n = z3.IntVal(n) if isinstance(n, int) else n
        self.at = at
        self.items = items      # python list when fully concrete in *shape* (elements may be terms)
        self.tag = tag          # free-form (spec name) for diagnostics
        self.parts = parts      # structure of a string built from literals and decimal renderings: [('lit', str) | ('dec', term)]

    def clen(self):
        if self.items is not None:
            return len(self.items)
        return conc_int(self.n)

    def __repr__(self):
        c = self.clen()
        if c is not None and c <= 40:
            try:
                els = [self.at(z3.IntVal(i)) for i in range(c)]
                cs = [conc_int(e) if not isinstance(e, V) else None for e in els]
                if all(x is not None for x in cs):
                    if self.kind == 'bytes':
                        return repr(bytes(cs))
                    if self.kind == 'str':
                        return repr(''.join(map(chr, cs)))
                return '%s%s' % (self.kind, els)
            except Exception:
                pass
        return '<%s len=%s%s>' % (self.kind, z3.simplify(self.n), ' ' + self.tag if self.tag else '')


class VTuple(V):
    __slots__ = ('items',)

    def __init__(self, items):
        self.items = list(items)

    def __repr__(self):
        return 'VTuple%s' % (self.items,)


class VRef(V):
    """reference to a heap cell (object instance, list, dict, file ...)"""
    __slots__ = ('oid',)

    def __init__(self, oid):
        self.oid = oid

    def __repr__(self):
        return '<ref %s>' % (self.oid,)


class VFunc(V):
    """a python-level callable known to the engine"""

    def __init__(self, kind, target, self_val=None, name=None, cls=None):
        self.kind = kind          # 'ast' | 'model' | 'class' | 'bound'
        self.target = target
        self.self_val = self_val
        self.name = name
        self.cls = cls            # defining class for ast methods (super() resolution)

    def __repr__(self):
        return '<func %s %s>' % (self.kind, self.name)


class VModule(V):
    def __init__(self, name):
        self.name = name

    def __repr__(self):
        return '<module %s>' % self.name


class VClass(V):
    def __init__(self, info):
        self.info = info

    def __repr__(self):
        return '<class %s>' % self.info.qualname


class VExcClass(V):
    """built-in exception class"""

    def __init__(self, pycls):
        self.pycls = pycls

    def __repr__(self):
        return '<exc %s>' % self.pycls.__name__


class VSlice(V):
    def __init__(self, lo, hi, step):
        self.lo, self.hi, self.step = lo, hi, step


class VOpaque(V):
    """a value the engine carries around but cannot look into (e.g. a datetime); identity = z3 term"""

    def __init__(self, sort_name, t):
        self.sort_name = sort_name
        self.t = t

    def __repr__(self):
        return '<%s %s>' % (self.sort_name, self.t)


# ------------------------------------------------------------------------------------------------
# sequence constructors / operations (pure; anything that may raise or branch lives in the engine)

def seq_lit(kind, data):
    """from python bytes / str / list-of-elements"""
    if isinstance(data, (bytes, bytearray)):
        items = list(data)
    elif isinstance(data, str):
        items = [ord(c) for c in data]
    else:
        items = list(data)
    return seq_items(kind, items)


def seq_items(kind, items):
    items = list(items)
    n = len(items)

    def at(i, items=items, n=n):
        c = conc_int(i)
        if c is None and n > 1 and _ORACLE['value'] is not None:
            c = _ORACLE['value'](I(i))          # index determined by the path condition
        if c is not None:
            if 0 <= c < n:
                return items[c]
            return 0 if kind != 'list' else NONE
        if n == 0:
            return 0 if kind != 'list' else NONE
        # symbolic index into a literal: If-chain (over the positions the path condition allows, when an oracle is set)
        if kind == 'list':
            idxs = list(range(n))
            if _ORACLE['decide'] is not None and n > 4:
                # narrow to the interval of positions the path condition allows (binary search: O(log n) solver calls)
                dec = _ORACLE['decide']
                lo, hi = 0, n - 1
                a, b = 0, n - 1
                while a < b:                      # smallest k with (i <= k) feasible
                    mid = (a + b) // 2
                    if dec(I(i) <= mid) is False:
                        a = mid + 1
                    else:
                        b = mid
                lo = a
                a, b = lo, n - 1
                while a < b:                      # largest k with (i >= k) feasible
                    mid = (a + b + 1) // 2
                    if dec(I(i) >= mid) is False:
                        b = mid - 1
                    else:
                        a = mid
                hi = a
                idxs = list(range(lo, hi + 1))
                if not idxs:
                    return NONE
            r = items[idxs[-1]]
            for k in reversed(idxs[:-1]):
                r = merge_values(I(i) == k, items[k], r)
            return r
        r = items[n - 1]
        for k in range(n - 2, -1, -1):
            r = ite(I(i) == k, items[k], r)
        return r
    return VSeq(kind, n, at, items=items)


def seq_parts(v):
    """[('lit', str) | ('dec', int term)] when v is a string built from literals and str(int) pieces, else None"""
    if v.kind != 'str':
        return None
    if v.parts is not None:
        return v.parts
    if v.tag and v.tag[0] == 'dec':
        return [('dec', v.tag[1])]
    cs = conc_str(v) if v.items is not None else None
    if cs is not None:
        return [('lit', cs)] if cs else []
    return None


def seq_concat(a, b):
    if a.kind != b.kind:
        raise Unsupported('concat %s + %s' % (a.kind, b.kind))
    if a.items is not None and b.items is not None:
        return seq_items(a.kind, a.items + b.items)
    pa, pb = seq_parts(a), seq_parts(b)
    r = _seq_concat(a, b)
    if pa is not None and pb is not None and r.parts is None:
        r.parts = pa + pb
    return r


def _seq_concat(a, b):
    ca, cb = a.clen(), b.clen()
    if ca == 0:
        return b
    if cb == 0:
        return a
    an = a.n

    def at(i, a=a, b=b, an=an, kind=a.kind):
        ii = I(i)
        c = bool_lit(ii < an)
        if c is None and _ORACLE['decide'] is not None:
            c = _ORACLE['decide'](ii < an)
        if c is True:
            return a.at(i)
        if c is False:
            return b.at(z3.simplify(ii - an))
        if kind == 'list':
            return merge_values(ii < an, a.at(i), b.at(ii - an))
        return ite(ii < an, a.at(i), b.at(ii - an))
    return VSeq(a.kind, z3.simplify(a.n + b.n), at)


def dite(decide, c, a, b):
    """If(c, a, b) resolved through the path condition when a `decide` oracle is given"""
    cl = bool_lit(c)
    if cl is None and decide is not None:
        cl = decide(c)
    if cl is True:
        return a
    if cl is False:
        return b
    return z3.If(c, a, b)


def clamp_index(x, n, decide=None):
    """python slice bound normalisation for step 1: x (Int term) -> in [0,n]"""
    x = I(x)
    c = conc_int(x)
    cn = conc_int(n)
    if c is not None and cn is not None:
        if c < 0:
            c += cn
        return z3.IntVal(max(0, min(c, cn)))
    if c is not None and c >= 0:
        return z3.simplify(dite(decide, x <= n, x, n))
    if c is not None and c < 0:
        x2 = z3.simplify(x + n)
        return z3.simplify(dite(decide, x2 < 0, z3.IntVal(0), x2))
    x2 = dite(decide, x < 0, x + n, x)
    return z3.simplify(dite(decide, x2 < 0, z3.IntVal(0), dite(decide, x2 > n, n, x2)))


def seq_slice(s, lo, hi, decide=None):
    """s[lo:hi], lo/hi Int terms or None"""
    n = s.n
    lo2 = z3.IntVal(0) if lo is None else clamp_index(lo, n, decide)
    hi2 = n if hi is None else clamp_index(hi, n, decide)
    if s.items is not None:
        cl, ch = conc_int(lo2), conc_int(hi2)
        if cl is not None and ch is not None:
            return seq_items(s.kind, s.items[cl:ch])
    d = z3.simplify(hi2 - lo2)
    ln = z3.simplify(dite(decide, d < 0, z3.IntVal(0), d))
    lo3 = lo2
    if conc_int(lo3) == 0 and ln.eq(n):
        return s

    def at(i, s=s, lo3=lo3):
        return s.at(z3.simplify(lo3 + I(i)))
    return VSeq(s.kind, ln, at)


def seq_reverse(s):
    if s.items is not None:
        return seq_items(s.kind, s.items[::-1])
    n = s.n
    return VSeq(s.kind, n, lambda i, s=s, n=n: s.at(z3.simplify(n - 1 - I(i))))


def seq_repeat(s, k):
    k = I(k)
    ck = conc_int(k)
    if s.items is not None and ck is not None:
        return seq_items(s.kind, s.items * max(ck, 0))
    cs = s.clen()
    kk = z3.If(k < 0, 0, k)
    if cs == 1:
        e = s.at(z3.IntVal(0))
        return VSeq(s.kind, z3.simplify(kk), lambda i, e=e: e)
    if cs is None:
        raise Unsupported('repeat of symbolic-length sequence')
    return VSeq(s.kind, z3.simplify(kk * cs), lambda i, s=s, cs=cs: s.at(I(i) % cs))


def seq_map(s, f, kind=None):
    """element-wise map (length preserving)"""
    if s.items is not None:
        return seq_items(kind or s.kind, [f(e) for e in s.items])
    return VSeq(kind or s.kind, s.n, lambda i, s=s, f=f: f(s.at(i)))


def seq_base(kind, name, engine=None, lo=None, hi=None, elem_fact=None):
    """uninterpreted input sequence: array `name` + length `name.len`.
    elem_fact(e, i) -> Bool: a property of EVERY element (a universally quantified hypothesis, instantiated at each access)"""
    arr = z3.Array(name, z3.IntSort(), z3.IntSort())
    n = z3.Int(name + '.len')
    if lo is None and kind == 'bytes':
        lo, hi = 0, 255
    if lo is None and kind == 'str':
        lo, hi = 0, 0x10FFFF

    def at(i, arr=arr, engine=engine, lo=lo, hi=hi, elem_fact=elem_fact):
        e = z3.Select(arr, I(i))
        if engine is not None and lo is not None:
            engine.fact(z3.And(e >= lo, e <= hi))
        if engine is not None and elem_fact is not None:
            engine.fact(elem_fact(e, I(i)))
        return e
    s = VSeq(kind, n, at, tag=name)
    if engine is not None:
        engine.fact(n >= 0)
    return s


def seq_eq_bool(a, b):
    """a == b as a z3 Bool, possible when one side has concrete length (or both share the length term)"""
    if a.kind != b.kind:
        return z3.BoolVal(False)
    ca, cb = a.clen(), b.clen()
    if ca is not None and cb is not None and ca != cb:
        return z3.BoolVal(False)
    c = ca if ca is not None else cb
    if c is None:
        raise Unsupported('== between two symbolic-length sequences in an expression')
    conj = []
    if ca is None:
        conj.append(a.n == c)
    if cb is None:
        conj.append(b.n == c)
    for k in range(c):
        ea, eb = a.at(z3.IntVal(k)), b.at(z3.IntVal(k))
        if isinstance(ea, V) or isinstance(eb, V):
            conj.append(value_eq_bool(ea, eb))
        else:
            conj.append(elem_eq(ea, eb))
    return z3.simplify(z3.And(*conj)) if conj else z3.BoolVal(True)


def value_eq_bool(a, b):
    """Python == on two values as a z3 Bool"""
    if a is NONE or b is NONE:
        return z3.BoolVal(a is b) if (a is NONE and b is NONE) or not isinstance(a if b is NONE else b, VOpaque) else z3.BoolVal(False)
    if isinstance(a, (VInt, VBool)) and isinstance(b, (VInt, VBool)):
        ta = a.t if isinstance(a, VInt) else z3.If(a.t, 1, 0)
        tb = b.t if isinstance(b, VInt) else z3.If(b.t, 1, 0)
        if isinstance(a, VBool) and isinstance(b, VBool):
            return a.t == b.t
        return ta == tb
    if isinstance(a, VBV) and isinstance(b, VBV):
        w = max(a.w, b.w)
        return z3.ZeroExt(w - a.w, a.t) == z3.ZeroExt(w - b.w, b.t)
    if isinstance(a, VBV) and isinstance(b, VInt) and b.conc() is not None:
        return a.t == z3.BitVecVal(b.conc(), a.w) if 0 <= b.conc() < (1 << a.w) else z3.BoolVal(False)
    if isinstance(b, VBV) and isinstance(a, VInt):
        return value_eq_bool(b, a)
    if isinstance(a, VSeq) and isinstance(b, VSeq):
        return seq_eq_bool(a, b)
    if isinstance(a, VTuple) and isinstance(b, VTuple):
        if len(a.items) != len(b.items):
            return z3.BoolVal(False)
        return z3.And(*[value_eq_bool(x, y) for x, y in zip(a.items, b.items)]) if a.items else z3.BoolVal(True)
    if isinstance(a, VOpaque) and isinstance(b, VOpaque) and a.sort_name == b.sort_name:
        return a.t == b.t
    if isinstance(a, VRef) and isinstance(b, VRef):
        if a.oid == b.oid:
            return z3.BoolVal(True)
        raise Unsupported('== on two distinct heap references')
    if type(a) is not type(b):
        # different python types (str vs int, seq vs None ...) compare unequal
        return z3.BoolVal(False)
    raise Unsupported('== on %r / %r' % (a, b))


def merge_values(c, a, b):
    """If(c, a, b) on values"""
    cl = bool_lit(c)
    if cl is True:
        return a
    if cl is False:
        return b
    if a is b:
        return a
    if isinstance(a, VInt) and isinstance(b, VInt):
        return VInt(ite(c, a.t, b.t))
    if isinstance(a, VBool) and isinstance(b, VBool):
        return VBool(ite(c, a.t, b.t))
    if isinstance(a, VBV) and isinstance(b, VBV) and a.w == b.w:
        return VBV(z3.If(B(c), a.t, b.t))
    if isinstance(a, VSeq) and isinstance(b, VSeq) and a.kind == b.kind:
        if a.items is not None and b.items is not None and len(a.items) == len(b.items):
            if a.kind == 'list':
                return seq_items(a.kind, [merge_values(c, x, y) for x, y in zip(a.items, b.items)])
            return seq_items(a.kind, [ite(c, x, y) for x, y in zip(a.items, b.items)])
        if a.kind == 'list':
            return VSeq(a.kind, ite(c, a.n, b.n), lambda i, a=a, b=b, c=c: merge_values(c, a.at(i), b.at(i)))
        return VSeq(a.kind, ite(c, a.n, b.n), lambda i, a=a, b=b, c=c: ite(c, a.at(i), b.at(i)))
    if isinstance(a, VTuple) and isinstance(b, VTuple) and len(a.items) == len(b.items):
        return VTuple([merge_values(c, x, y) for x, y in zip(a.items, b.items)])
    if isinstance(a, VOpaque) and isinstance(b, VOpaque) and a.sort_name == b.sort_name:
        return VOpaque(a.sort_name, z3.If(B(c), a.t, b.t))
    raise Unsupported('cannot merge %r / %r' % (a, b))


def lift(x, kind_hint=None):
    """python constant -> V"""
    if isinstance(x, V):
        return x
    if x is None:
        return NONE
    if isinstance(x, bool):
        return VBool(x)
    if isinstance(x, int):
        return VInt(x)
    if isinstance(x, bytes):
        return seq_lit('bytes', x)
    if isinstance(x, str):
        return seq_lit('str', x)
    if isinstance(x, tuple):
        return VTuple([lift(e) for e in x])
    raise Unsupported('cannot lift %r' % (x,))


def conc_str(v):
    """python str/bytes of a fully concrete sequence, else None"""
    if not isinstance(v, VSeq) or v.kind == 'list':
        return None
    if v.items is not None:
        out = []
        for e in v.items:
            if not isinstance(e, int):
                e = conc_int(e)
                if e is None:
                    return None
            out.append(e)
        return bytes(out) if v.kind == 'bytes' else ''.join(map(chr, out))
    c = v.clen()
    if c is None:
        return None
    out = []
    for k in range(c):
        e = conc_int(v.at(z3.IntVal(k)))
        if e is None:
            return None
        out.append(e)
    if v.kind == 'bytes':
        return bytes(out)
    return ''.join(map(chr, out))
