"""check driver: runs the proof units of one property against /repo's current working tree.

exit 0  property held on everything explored (UNDECIDED / KNOWN-FINDING lines possible)
exit 1  at least one line `VIOLATION property=<id> replay=<path>`
exit 3  the checker itself could not run / is inconsistent (vacuity guards, canary survived ...)
"""
import argparse
import hashlib
import importlib
import json
import multiprocessing as mp
import os
import subprocess
import sys
import time
import traceback

ROOT = os.path.dirname(os.path.dirname(os.path.abspath(__file__)))
sys.path.insert(0, ROOT)

PY_NATIVE = '/venv/bin/python'


def _job(args):
    """worker: explore one (unit, debug mode) and discharge its obligations"""
    (modnames, uname, dflag, repo, overrides, timeout_ms, want_smt2, seed) = args
    import z3
    from pyvc import runner
    from pyvc.engine import Engine
    from pyvc.extract import Program
    runner.UNITS.clear()
    for m in modnames:
        if m in sys.modules:
            importlib.reload(sys.modules[m])
        else:
            importlib.import_module(m)
    u = [x for x in runner.UNITS if x.name == uname][0]
    out = {'unit': uname, 'debug': dflag, 'obligations': [], 'undecided': [], 'error': None}
    try:
        prog = Program(repo, overrides=overrides)
        E = Engine(prog)
        res = runner.run_unit(E, u, dflag)
        out['paths'] = res.paths
        out['live_paths'] = res.live
        out['vacuous_paths'] = res.vacuous
        out['undecided'] = res.undecided
        out['covers'] = sorted(res.covers)
        out['explore_s'] = round(res.time, 3)
        out['functions'] = {q: {'file': os.path.relpath(fi.module.path, repo), 'lines': list(fi.span()), 'sha256': fi.text_hash()}
                            for q, fi in res.funcs.items()}
        out['models_used'] = sorted(res.models_used)
        out['dropped_logger'] = prog.dropped_logger
        for ob in res.obligations:
            if ob.status is None:
                runner.check_ob(ob, timeout_ms, seed)
                if ob.status == 'unknown':
                    # other back end takes z3's unknowns
                    r2 = runner.check_ob_cvc5(ob, max(5, timeout_ms // 1000))
                    if r2 == 'unsat':
                        ob.status = 'unsat'
                        ob.note = 'cvc5'
            rec = {'name': ob.name, 'tier': ob.tier, 'kind': ob.kind, 'where': ob.where, 'status': ob.status,
                   'time': round(ob.time, 4), 'backend': 'cvc5' if ob.note == 'cvc5' else 'z3', 'pc_size': len(ob.pc),
                   'goal': str(z3.simplify(ob.goal))[:300]}
            if ob.status in ('sat', 'sat?'):
                rec['model'] = ob.model
                rec['native'] = ob.native
                # the native input template of a unit is written for the oracle of the unit's FIRST property
                rec['native_prop'] = u.props[0] if u.props else None
            if ob.status == 'unknown':
                rec['reason'] = ob.note
            if want_smt2 and ob.status == 'unsat' and ob.kind != 'lemma-app':
                r2 = runner.check_ob_cvc5(ob, 20)
                rec['cvc5'] = r2
            out['obligations'].append(rec)
    except Exception as ex:
        out['error'] = '%s: %s\n%s' % (type(ex).__name__, ex, traceback.format_exc()[-1500:])
    return out


def load_registry():
    from props import registry
    return registry


def run_property(pid, tier, repo, seed, overrides=None, quiet=False, unit_filter=None, own_only=False):
    reg = load_registry()
    spec = reg.PROPS[pid]
    from pyvc import runner
    runner.UNITS.clear()
    # a composite property is decided by its own units plus those of the properties it is a lemma over (registry `deps`)
    want = {pid}
    mods = list(spec['modules'])
    todo = [] if own_only else [pid]          # canary runs use the property's own units only
    while todo:
        for d in reg.PROPS.get(todo.pop(), {}).get('deps', []):
            if d not in want:
                want.add(d)
                todo.append(d)
                mods += [m for m in reg.PROPS[d]['modules'] if m not in mods]
    for m in mods:
        if m in sys.modules:
            importlib.reload(sys.modules[m])
        else:
            importlib.import_module(m)
    units = [u for u in runner.UNITS if want & set(u.props) and (tier == 'thorough' or not u.thorough_only)]
    if unit_filter:
        units = [u for u in units if unit_filter in u.name]
    jobs = []
    timeout_ms = 60000 if tier == 'quick' else 180000
    for u in units:
        for dm in u.debug_modes:
            jobs.append((mods, u.name, dm, repo, overrides, timeout_ms, tier == 'thorough', seed % 1000))
    nproc = min(16, max(1, len(jobs)))
    wall = 400 if tier == 'quick' else 1800
    if nproc == 1 and not os.environ.get('PYVC_FORCE_POOL'):
        results = [_job(j) for j in jobs]
    else:
        ctx = mp.get_context('fork')
        pool = ctx.Pool(nproc, maxtasksperchild=1)
        asyncs = [pool.apply_async(_job, (j,)) for j in jobs]
        results = []
        deadline = time.time() + wall
        for j, a in zip(jobs, asyncs):
            try:
                results.append(a.get(timeout=max(1, deadline - time.time())))
            except mp.TimeoutError:
                # a solver call that ignores its own timeout must not hang the check: undecided, never a verdict
                results.append({'unit': j[1], 'debug': j[2], 'obligations': [], 'undecided': ['wall-clock limit of %ds exceeded (solver did not return)' % wall], 'error': None})
        pool.terminate()
        pool.join()
    return units, results


def sha(path):
    return hashlib.sha256(open(path, 'rb').read()).hexdigest()


def main(argv=None):
    ap = argparse.ArgumentParser()
    ap.add_argument('pid', nargs='?')
    ap.add_argument('--tier', default=os.environ.get('VERIF_TIER', 'quick'))
    ap.add_argument('--repo', default=os.environ.get('CARDUTIL_REPO', '/repo'))
    ap.add_argument('--replay')
    ap.add_argument('--unit')
    ap.add_argument('--no-canaries', action='store_true')
    ap.add_argument('--no-native', action='store_true')
    ap.add_argument('-v', action='store_true')
    a = ap.parse_args(argv)
    if a.replay:
        from pyvc import report
        return report.replay(a.replay, a.repo)
    seed = int(os.environ.get('VERIF_SEED', '0') or 0)
    from pyvc import report
    return report.run_check(a.pid, a.tier, a.repo, seed, a)


if __name__ == '__main__':
    sys.exit(main())
