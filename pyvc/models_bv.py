"""Bit-vector side of the library models (fixed-length crypto-format modules: pinblock, key, BitArray).

Characters are 8-bit vectors, hex digits 4-bit vectors, and an int obtained from int(s,16) / int.from_bytes IS the
concatenated bit-vector.  No Int<->BV conversion is ever emitted (DESIGN 4.2).
Also: the assumed contract of the `cryptography` ciphers (uninterpreted block functions + D(E(x)) = x).
"""
import z3

from .values import *      # noqa
from .models import model, method, MODELS, hexval, _raise


def _bv8(e):
    if isinstance(e, int):
        return z3.BitVecVal(e, 8)
    if z3.is_bv(e):
        return e
    c = conc_int(e)
    if c is not None:
        return z3.BitVecVal(c, 8)
    raise Unsupported('Int element in the bit-vector domain')


def nibble_char(nib):
    """lowercase hex character (BV8) of a 4-bit value"""
    c = conc_int(nib)
    if c is not None:
        return ord('0123456789abcdef'[c])
    x = z3.ZeroExt(4, nib)
    return z3.If(z3.ULT(nib, 10), x + 48, x + 87)


def int_of_hex(E, v, base):
    """int(s, 16) / int(s, 2) on a concrete-length string of bit-vector characters -> VBV"""
    c = v.clen()
    if c is None:
        v = E.fix_len(v)
        c = v.clen()
    if c is None or c == 0:
        raise Unsupported('int() of symbolic-length string in the bit-vector domain')
    els = [v.at(z3.IntVal(k)) for k in range(c)]
    if base == 16:
        oks, nibs = [], []
        for e in els:
            ok, val = hexval(e)
            oks.append(ok)
            nibs.append(val if z3.is_expr(val) and z3.is_bv(val) else z3.BitVecVal(conc_int(val) if not isinstance(val, int) else val, 4))
        if not E.branch(z3.And(*oks)):
            # sign / underscore / whitespace forms are not modelled: ValueError is the common case
            if E.branch(E.fresh_bool('int16_accepts_nonhex')):
                raise Unsupported('int(s,16) on a non-hex-digit string')
            _raise(E, ValueError, 'invalid literal for int() with base 16')
        t = nibs[0]
        for nb in nibs[1:]:
            t = z3.Concat(t, nb)
        return VBV(z3.simplify(t))
    if base == 2:
        bits = []
        oks = []
        for e in els:
            e8 = _bv8(e)
            oks.append(z3.Or(e8 == 48, e8 == 49))
            bits.append(z3.Extract(0, 0, e8))
        if not E.branch(z3.And(*oks)):
            _raise(E, ValueError, 'invalid literal for int() with base 2')
        t = bits[0]
        for b in bits[1:]:
            t = z3.Concat(t, b)
        return VBV(z3.simplify(t))
    if base == 10:
        # decimal digits of a short string: value as small bit-vector is not needed anywhere -> Int via case split
        raise Unsupported('int(s) base 10 on bit-vector characters')
    raise Unsupported('int base %s' % base)


def format_bv(E, v, fill, align, zero, width, typ):
    """format(bitvector-int, '016x' | '032x' | 'x' | '0128b' ...)"""
    if typ == 'x':
        w = v.w
        nn = (w + 3) // 4
        t = z3.ZeroExt(nn * 4 - w, v.t) if nn * 4 != w else v.t
        nibs = [z3.simplify(z3.Extract(4 * (nn - 1 - k) + 3, 4 * (nn - 1 - k), t)) for k in range(nn)]
        if width is None or not zero or width < nn:
            # minimal-length rendering depends on leading zero nibbles: only the fully padded form is modelled,
            # unless the value is concrete
            c = conc_int(v.t)
            if c is not None:
                return seq_lit('str', format(c, ('0' if zero else '') + (str(width) if width else '') + 'x'))
            if nn == 1 and (width is None or width <= 1):
                return seq_items('str', [nibble_char(nibs[0])])
            raise Unsupported('hex format narrower than the bit-vector')
        pad = width - nn
        return seq_items('str', [48] * pad + [nibble_char(nb) for nb in nibs])
    if typ == 'b':
        w = v.w
        if width is None or not zero or width < w:
            raise Unsupported('binary format narrower than the bit-vector')
        bits = [z3.ZeroExt(7, z3.Extract(w - 1 - k, w - 1 - k, v.t)) + 48 for k in range(w)]
        return seq_items('str', [48] * (width - w) + [z3.simplify(b) for b in bits])
    if typ in (None, 'd'):
        c = conc_int(v.t)
        if c is not None:
            return seq_lit('str', format(c, 'd'))
        if v.w <= 4 and width is None:
            if not E.feasible(z3.UGE(v.t, 10)):
                return seq_items('str', [z3.simplify(z3.ZeroExt(8 - v.w, v.t) + 48)])
        raise Unsupported('decimal format of a symbolic bit-vector int')
    raise Unsupported('format of bit-vector int with %r' % typ)


def to_bytes(E, a, kw):
    v = a[0]
    n = conc_int(E.as_int(a[1] if len(a) > 1 else kw.get('length')))
    order = conc_str(a[2]) if len(a) > 2 else conc_str(kw.get('byteorder', lift('big')))
    if order != 'big':
        raise Unsupported('byteorder %r' % order)
    if isinstance(v, VInt):
        c = v.conc()
        if c is None:
            raise Unsupported('to_bytes of unbounded symbolic int')
        try:
            return seq_lit('bytes', c.to_bytes(n, 'big'))
        except OverflowError:
            _raise(E, OverflowError, 'int too big to convert')
    w = v.w
    if w > 8 * n:
        hi = z3.Extract(w - 1, 8 * n, v.t)
        if E.branch(hi != 0):
            _raise(E, OverflowError, 'int too big to convert')
        t = z3.Extract(8 * n - 1, 0, v.t)
    else:
        t = z3.ZeroExt(8 * n - w, v.t) if w < 8 * n else v.t
    return seq_items('bytes', [z3.simplify(z3.Extract(8 * (n - 1 - k) + 7, 8 * (n - 1 - k), t)) for k in range(n)])


def from_bytes(E, a, kw):
    b = a[0]
    order = conc_str(a[1]) if len(a) > 1 else conc_str(kw.get('byteorder', lift('big')))
    if order != 'big':
        raise Unsupported('byteorder %r' % order)
    b = E.fix_len(b)
    c = b.clen()
    if c is None or c == 0:
        raise Unsupported('int.from_bytes of symbolic-length bytes')
    t = _bv8(b.at(z3.IntVal(0)))
    for k in range(1, c):
        t = z3.Concat(t, _bv8(b.at(z3.IntVal(k))))
    return VBV(z3.simplify(t))


def bytes_to_bv(b):
    c = b.clen()
    t = _bv8(b.at(z3.IntVal(0)))
    for k in range(1, c):
        t = z3.Concat(t, _bv8(b.at(z3.IntVal(k))))
    return t


def bv_to_bytes(t):
    n = t.size() // 8
    return seq_items('bytes', [z3.simplify(z3.Extract(8 * (n - 1 - k) + 7, 8 * (n - 1 - k), t)) for k in range(n)])


@model('secrets.randbits')
def m_randbits(E, a, kw):
    k = conc_int(E.as_int(a[0]))
    E.ghost['randbits_calls'] = E.ghost.get('randbits_calls', 0) + 1
    return VBV(z3.BitVec(E.fresh_name('randbits%d' % k), k))


# ---- cryptography: assumed contract ---------------------------------------------------------------
# E_alg(key, block) / D_alg(key, block) uninterpreted per (algorithm, key width); D(k, E(k, x)) = x; E(k, D(k, x)) = x.
# TripleDES keying options: a 16-byte key K1K2 is the 24-byte key K1K2K1, an 8-byte key K is KKK.

KEYLENS = {'TripleDES': (8, 16, 24), 'AES': (16, 24, 32)}
BLOCK = {'TripleDES': 8, 'AES': 16}


def cipher_fn(alg, direction, keybits):
    bs = BLOCK[alg] * 8
    return z3.Function('%s_%s_%d' % (direction, alg, keybits), z3.BitVecSort(keybits), z3.BitVecSort(bs), z3.BitVecSort(bs))


def norm_key(alg, kt):
    """canonical key term: TripleDES keys are brought to 192 bits (keying options 2 and 3)"""
    if alg == 'TripleDES':
        w = kt.size()
        if w == 64:
            return z3.Concat(kt, kt, kt)
        if w == 128:
            return z3.Concat(kt, z3.Extract(127, 64, kt))
    return kt


def block_apply(E, alg, direction, key_bytes, data):
    kt = norm_key(alg, bytes_to_bv(key_bytes))
    bs = BLOCK[alg]
    f = cipher_fn(alg, direction, kt.size())
    inv = cipher_fn(alg, 'D' if direction == 'E' else 'E', kt.size())
    n = data.clen()
    out = []
    for j in range(n // bs):
        blk = bytes_to_bv(seq_items('bytes', [data.at(z3.IntVal(bs * j + i)) for i in range(bs)]))
        r = f(kt, blk)
        E.fact(inv(kt, r) == blk)              # D(k, E(k, x)) = x  (instantiated at this block)
        out.extend(bv_to_bytes(r).items)
    return seq_items('bytes', out)


def _algo(name):
    def m(E, a, kw):
        key = a[0]
        if not (isinstance(key, VSeq) and key.kind == 'bytes'):
            _raise(E, TypeError, 'key must be bytes')
        key = E.fix_len(key)
        n = key.clen()
        if n is None:
            raise Unsupported('cipher key of symbolic length')
        if n not in KEYLENS[name]:
            _raise(E, ValueError, 'Invalid key size (%d) for %s' % (n * 8, name))
        return E.new_cell({'__kind__': 'algo', 'name': name, 'key': key})
    return m


for _mod in ('cryptography.hazmat.decrepit.ciphers.algorithms', 'cryptography.hazmat.primitives.ciphers.algorithms'):
    MODELS[_mod + '.TripleDES'] = _algo('TripleDES')
    MODELS[_mod + '.AES'] = _algo('AES')


@model('cryptography.hazmat.primitives.ciphers.modes.ECB')
def m_ecb(E, a, kw):
    return E.new_cell({'__kind__': 'mode', 'name': 'ECB'})


@model('cryptography.hazmat.backends.default_backend')
def m_backend(E, a, kw):
    return VOpaque('backend', z3.Int('backend'))


@model('cryptography.hazmat.primitives.ciphers.Cipher')
def m_cipher(E, a, kw):
    algo, mode = a[0], a[1]
    if not (isinstance(algo, VRef) and E.kind_of(algo) == 'algo' and isinstance(mode, VRef) and E.kind_of(mode) == 'mode'):
        raise Unsupported('Cipher(...) arguments')
    return E.new_cell({'__kind__': 'cipher', 'algo': algo})


@method('cipher', 'encryptor')
def m_encryptor(E, a, kw):
    return E.new_cell({'__kind__': 'cryptor', 'algo': E.getf(a[0], 'algo'), 'dir': 'E', 'pending': 0})


@method('cipher', 'decryptor')
def m_decryptor(E, a, kw):
    return E.new_cell({'__kind__': 'cryptor', 'algo': E.getf(a[0], 'algo'), 'dir': 'D', 'pending': 0})


@method('cryptor', 'update')
def m_update(E, a, kw):
    c, data = a[0], a[1]
    if not (isinstance(data, VSeq) and data.kind == 'bytes'):
        _raise(E, TypeError, 'data must be bytes-like')
    data = E.fix_len(data)
    n = data.clen()
    if n is None:
        raise Unsupported('cipher data of symbolic length')
    algo = E.getf(c, 'algo')
    name = E.getf(algo, 'name')
    bs = BLOCK[name]
    whole = n - n % bs
    E.setf(c, 'pending', n % bs)
    return block_apply(E, name, E.getf(c, 'dir'), E.getf(algo, 'key'), seq_items('bytes', [data.at(z3.IntVal(i)) for i in range(whole)]))


@method('cryptor', 'finalize')
def m_finalize(E, a, kw):
    if E.getf(a[0], 'pending'):
        _raise(E, ValueError, 'The length of the provided data is not a multiple of the block length.')
    return seq_lit('bytes', b'')
