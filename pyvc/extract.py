"""Extraction: parse /repo/cardutil/*.py from the *current working tree* on every run.

What is dropped from the verified text, and nothing else (DESIGN 4.1):
  (a) expression statements whose value is a call on the module-level name LOGGER,
  (b) docstrings, (c) annotations.
"""
import ast
import hashlib
import os

REPO = os.environ.get('CARDUTIL_REPO', '/repo')

MODULES = {
    'cardutil': 'cardutil/__init__.py',
    'cardutil.card': 'cardutil/card.py',
    'cardutil.BitArray': 'cardutil/BitArray.py',
    'cardutil.config': 'cardutil/config.py',
    'cardutil.iso8583': 'cardutil/iso8583.py',
    'cardutil.mciipm': 'cardutil/mciipm.py',
    'cardutil.pinblock': 'cardutil/pinblock.py',
    'cardutil.key': 'cardutil/key.py',
    'cardutil.cli': 'cardutil/cli/__init__.py',
    'cardutil.cli.mci_csv_to_ipm': 'cardutil/cli/mci_csv_to_ipm.py',
    'cardutil.cli.mci_ipm_to_csv': 'cardutil/cli/mci_ipm_to_csv.py',
    'cardutil.cli.mci_ipm_encode': 'cardutil/cli/mci_ipm_encode.py',
    'cardutil.cli.mci_ipm_param_encode': 'cardutil/cli/mci_ipm_param_encode.py',
    'cardutil.cli.mci_ipm_param_to_csv': 'cardutil/cli/mci_ipm_param_to_csv.py',
    'cardutil.cli.mideu': 'cardutil/cli/mideu.py',
    'cardutil.cli.paramconv': 'cardutil/cli/paramconv.py',
}


class FuncInfo:
    def __init__(self, module, qualname, node, cls=None):
        self.module = module
        self.qualname = qualname          # e.g. cardutil.mciipm.Block1014.write
        self.node = node
        self.cls = cls
        self.decorators = [ast.unparse(d) for d in node.decorator_list]
        self.dropped = 0

    @property
    def name(self):
        return self.node.name

    def text_hash(self):
        return hashlib.sha256(ast.unparse(self.node).encode()).hexdigest()

    def span(self):
        return (self.node.lineno, self.node.end_lineno)


class ClassInfo:
    def __init__(self, module, qualname, node):
        self.module = module
        self.qualname = qualname
        self.node = node
        self.name = node.name
        self.base_exprs = node.bases
        self.bases = []                   # resolved later: ClassInfo | python exception class | None(object)
        self.methods = {}                 # name -> FuncInfo
        self.attrs = {}                   # name -> ast expr (class-level assignments)

    def __repr__(self):
        return '<ClassInfo %s>' % self.qualname


class ModuleInfo:
    def __init__(self, name, path, tree, source):
        self.name = name
        self.path = path
        self.tree = tree
        self.source = source
        self.functions = {}
        self.classes = {}
        self.assigns = {}                 # module-level NAME = expr
        self.imports = {}                 # local name -> ('module', modname) | ('from', modname, attr)


def _is_logger_call(stmt):
    if isinstance(stmt, ast.Expr) and isinstance(stmt.value, ast.Call):
        f = stmt.value.func
        if isinstance(f, ast.Attribute) and isinstance(f.value, ast.Name) and f.value.id == 'LOGGER':
            return True
    return False


def _is_docstring(stmt):
    return isinstance(stmt, ast.Expr) and isinstance(stmt.value, ast.Constant) and isinstance(stmt.value.value, str)


class _Cleaner(ast.NodeTransformer):
    """drops LOGGER statement calls and docstrings; counts what it dropped"""

    def __init__(self):
        self.dropped_logger = 0
        self.dropped_doc = 0

    def _clean_body(self, body):
        out = []
        for s in body:
            if _is_logger_call(s):
                self.dropped_logger += 1
                continue
            if _is_docstring(s):
                self.dropped_doc += 1
                continue
            out.append(self.visit(s))
        if not out:
            out = [ast.Pass()]
        return out

    def generic_visit(self, node):
        for field in ('body', 'orelse', 'finalbody'):
            b = getattr(node, field, None)
            if isinstance(b, list) and b and isinstance(b[0], ast.stmt):
                setattr(node, field, self._clean_body(b))
        if isinstance(node, ast.Try):
            for h in node.handlers:
                h.body = self._clean_body(h.body)
        return node


class Program:
    def __init__(self, repo=None, overrides=None):
        """overrides: {relative path: source text} - in-memory canary mutations; /repo is never touched"""
        self.repo = repo or REPO
        overrides = overrides or {}
        self.modules = {}
        self.functions = {}     # qualname -> FuncInfo
        self.classes = {}       # qualname -> ClassInfo
        self.dropped_logger = 0
        self.dropped_doc = 0
        for name, rel in MODULES.items():
            path = os.path.join(self.repo, rel)
            if not os.path.exists(path):
                continue
            src = overrides[rel] if rel in overrides else open(path, encoding='utf-8').read()
            tree = ast.parse(src, filename=path)
            cl = _Cleaner()
            tree.body = cl._clean_body(tree.body)
            for n in ast.walk(tree):
                if isinstance(n, (ast.FunctionDef, ast.ClassDef)):
                    n.body = cl._clean_body(n.body)
                    for sub in ast.walk(n):
                        if sub is not n:
                            cl.generic_visit(sub)
            self.dropped_logger += cl.dropped_logger
            self.dropped_doc += cl.dropped_doc
            ast.fix_missing_locations(tree)
            mi = ModuleInfo(name, path, tree, src)
            self.modules[name] = mi
            self._index(mi)
        for ci in self.classes.values():
            self._resolve_bases(ci)

    def _index(self, mi):
        for s in mi.tree.body:
            if isinstance(s, ast.FunctionDef):
                fi = FuncInfo(mi, mi.name + '.' + s.name, s)
                mi.functions[s.name] = fi
                self.functions[fi.qualname] = fi
            elif isinstance(s, ast.ClassDef):
                ci = ClassInfo(mi, mi.name + '.' + s.name, s)
                mi.classes[s.name] = ci
                self.classes[ci.qualname] = ci
                for c in s.body:
                    if isinstance(c, ast.FunctionDef):
                        fi = FuncInfo(mi, ci.qualname + '.' + c.name, c, cls=ci)
                        ci.methods[c.name] = fi
                        self.functions[fi.qualname] = fi
                    elif isinstance(c, ast.Assign) and len(c.targets) == 1 and isinstance(c.targets[0], ast.Name):
                        ci.attrs[c.targets[0].id] = c.value
            elif isinstance(s, ast.Assign) and len(s.targets) == 1 and isinstance(s.targets[0], ast.Name):
                mi.assigns[s.targets[0].id] = s.value
            elif isinstance(s, ast.Import):
                for a in s.names:
                    mi.imports[(a.asname or a.name).split('.')[0] if not a.asname else a.asname] = ('module', a.name if a.asname else a.name.split('.')[0])
            elif isinstance(s, ast.ImportFrom):
                for a in s.names:
                    mi.imports[a.asname or a.name] = ('from', s.module, a.name)

    def _resolve_bases(self, ci):
        import builtins
        ci.bases = []
        for b in ci.base_exprs:
            r = None
            if isinstance(b, ast.Name):
                if b.id in ci.module.classes:
                    r = ci.module.classes[b.id]
                elif b.id in ci.module.imports:
                    imp = ci.module.imports[b.id]
                    if imp[0] == 'from':
                        q = imp[1] + '.' + imp[2]
                        r = self.classes.get(q)
                if r is None and hasattr(builtins, b.id):
                    r = getattr(builtins, b.id)
            elif isinstance(b, ast.Attribute):
                r = ast.unparse(b)   # e.g. abc.ABC : opaque
            ci.bases.append(r)

    def mro(self, ci):
        """linearisation good enough for the single / mixin inheritance used in cardutil (C3 via python)"""
        cache = {}

        def mk(c):
            if c in cache:
                return cache[c]
            bases = tuple(mk(b) for b in c.bases if isinstance(b, ClassInfo))
            t = type(c.name, bases or (object,), {'_ci': c})
            cache[c] = t
            return t
        t = mk(ci)
        return [k._ci for k in t.__mro__ if hasattr(k, '_ci') and '_ci' in k.__dict__]

    def find_method(self, ci, name, after=None):
        """(FuncInfo) first definition of `name` in the MRO of ci (strictly after class `after` if given)"""
        m = self.mro(ci)
        if after is not None:
            m = m[m.index(after) + 1:]
        for c in m:
            if name in c.methods:
                return c.methods[name]
        return None

    def find_class_attr(self, ci, name):
        for c in self.mro(ci):
            if name in c.attrs:
                return c, c.attrs[name]
        return None, None

    def exc_base(self, ci):
        """the python built-in exception class a ClassInfo ultimately derives from (or None)"""
        for c in self.mro(ci):
            for b in c.bases:
                if isinstance(b, type) and issubclass(b, BaseException):
                    return b
        return None

    def is_subclass(self, ci, other):
        return other in self.mro(ci)
