"""CPython differential test of the engine (guard against an unsound VC generator, DESIGN II 9.4).

Each case is a call of a real cardutil function with CONCRETE arguments.  It is executed twice: symbolically by pyvc (all terms
fold to constants, so exactly one path is taken) and natively by /venv/bin/python; results (value, or exception class) must
agree.  This exercises the statement/expression semantics and the *defined* library models (slicing, format, int, struct,
binascii, codecs by table, dict/list operations, exception matching) on the real source.  It is a test of the trusted base,
labelled as such; it is not an obligation."""
import json
import os
import subprocess
import sys
import z3

from .engine import Engine, PyRaise
from .values import *       # noqa
from .extract import ClassInfo

PY_NATIVE = '/venv/bin/python'


def B_(b):
    return {'__bytes__': b.hex()}


def F_(b):
    return {'__file__': b.hex()}


ISO = 'cardutil.iso8583.'
MCI = 'cardutil.mciipm.'
CARD = 'cardutil.card.'
BM23 = bytes.fromhex('e0000000000000000000000000000000')

CASES = [
    (CARD + 'calculate_check_digit', ['7992739871'], {}),
    (CARD + 'calculate_check_digit', ['4111 1111-1111 111'], {}),
    (CARD + 'calculate_check_digit', [''], {}),
    (CARD + 'add_check_digit', ['123456789012345'], {}),
    (CARD + 'validate_check_digit', ['79927398713'], {}),
    (CARD + 'validate_check_digit', ['79927398710'], {}),
    (CARD + 'mask', ['4444555566667777'], {}),
    (CARD + 'mask', ['1234567890', 'X'], {}),
    (CARD + 'mask', ['123456789'], {}),
    (ISO + '_get_field_length', [{'field_type': 'LLLVAR'}], {}),
    (ISO + '_field_to_iso8583', [{'field_type': 'LLVAR', 'field_length': 0}, 'hello'], {'encoding': 'cp500'}),
    (ISO + '_field_to_iso8583', [{'field_type': 'FIXED', 'field_length': 8}, 'ab'], {'encoding': 'latin_1'}),
    (ISO + '_field_to_iso8583', [{'field_type': 'FIXED', 'field_length': 3}, 'abcdef'], {}),
    (ISO + '_field_to_iso8583', [{'field_type': 'FIXED', 'field_length': 12, 'field_python_type': 'long'}, 1234], {'encoding': 'cp037'}),
    (ISO + '_field_to_iso8583', [{'field_type': 'FIXED', 'field_length': 4, 'field_python_type': 'int'}, '0042'], {}),
    (ISO + '_field_to_iso8583', [{'field_type': 'LLLVAR', 'field_length': 255, 'field_processor': 'ICC'}, B_(b'\x9a\x01\x05')], {'encoding': 'cp500'}),
    (ISO + '_field_to_iso8583', [{'field_type': 'LLVAR', 'field_length': 0}, 'x' * 100], {}),
    (ISO + '_iso8583_to_field', [2, {'field_type': 'LLVAR', 'field_length': 0}, B_(b'05helloworld'), 'latin_1'], {}),
    (ISO + '_iso8583_to_field', [2, {'field_type': 'LLVAR', 'field_length': 0, 'field_processor': 'PAN'}, B_(b'164444555566667777xx'), 'latin_1'], {}),
    (ISO + '_iso8583_to_field', [2, {'field_type': 'LLVAR', 'field_length': 0, 'field_processor': 'PAN-PREFIX'}, B_(b'164444555566667777'), 'latin_1'], {}),
    (ISO + '_iso8583_to_field', [4, {'field_type': 'FIXED', 'field_length': 6, 'field_python_type': 'int'}, B_(b'000123rest'), 'latin_1'], {}),
    (ISO + '_iso8583_to_field', [4, {'field_type': 'FIXED', 'field_length': 6, 'field_python_type': 'int'}, B_(b'00x123'), 'latin_1'], {}),
    (ISO + '_iso8583_to_field', [2, {'field_type': 'LLVAR', 'field_length': 0}, B_(b'-2abc'), 'latin_1'], {}),
    (ISO + '_iso8583_to_field', [2, {'field_type': 'LLVAR', 'field_length': 0}, B_(b'x2abc'), 'latin_1'], {}),
    (ISO + '_iso8583_to_field', [2, {'field_type': 'LLVAR', 'field_length': 0}, B_(b'9'), 'latin_1'], {}),
    (ISO + '_iso8583_to_field', [2, {'field_type': 'LLLVAR', 'field_length': 0}, B_('010ABCDEFGHIJ'.encode('cp500')), 'cp500'], {}),
    (ISO + '_iso8583_to_field', [48, {'field_type': 'LLLVAR', 'field_length': 0, 'field_processor': 'PDS'}, B_(b'0200023003abc0148003xyz'), 'latin_1'], {}),
    (ISO + '_iso8583_to_field', [48, {'field_type': 'LLLVAR', 'field_length': 0, 'field_processor': 'PDS'}, B_(b'0100023abcX'), 'latin_1'], {}),
    (ISO + '_iso8583_to_field', [55, {'field_type': 'LLLVAR', 'field_length': 255, 'field_processor': 'ICC'}, B_(b'008\x9f\x02\x02\x01\x02\x9a\x01\x05'), 'latin_1'], {}),
    (ISO + '_iso8583_to_field', [55, {'field_type': 'LLLVAR', 'field_length': 255, 'field_processor': 'ICC'}, B_(b'001\x9a'), 'latin_1'], {}),
    (ISO + '_pds_to_dict', ['0023003abc0148000'], {}),
    (ISO + '_pds_to_dict', ['0023-07'], {}),
    (ISO + '_pds_to_dict', ['0023'], {}),
    (ISO + '_pds_to_dict', [''], {}),
    (ISO + '_pds_to_de', [{'MTI': '1144', 'PDS0148': 'xyz', 'PDS0023': 'a' * 990, 'DE2': '1'}], {}),
    (ISO + '_pds_to_de', [{'MTI': '1144'}], {}),
    (ISO + '_icc_to_dict', [B_(b'\x9f\x02\x02\x01\x02\x5f\x2a\x01\x09\x9a\x00\x00\x12')], {}),
    (ISO + '_pan_prefix', ['1234567890123456'], {}),
    (ISO + 'dumps', [{'MTI': '1144', 'DE2': '4444555566667777', 'DE3': '123456', 'DE4': 99, 'DE26': 5411, 'DE72': 'free text'}], {}),
    (ISO + 'dumps', [{'MTI': '1144', 'DE2': '4444555566667777', 'DE48': 'abc', 'PDS0023': 'q'}], {'encoding': 'cp500', 'hex_bitmap': True}),
    (ISO + 'dumps', [{'MTI': '1144', 'PDS0023': 'a' * 600, 'PDS0148': 'b' * 600, 'DE127': 'z'}], {}),
    (ISO + 'dumps', [{'MTI': '1240', 'DE55': B_(b'\x9a\x01\x05'), 'DE71': 0}], {'encoding': 'cp037'}),
    (ISO + 'dumps', [{'DE2': '1'}], {}),
    (ISO + 'loads', [B_(b'1144' + BM23 + b'164444555566667777123456')], {}),
    (ISO + 'loads', [B_(b'1144' + BM23 + b'164444555566667777123456x')], {}),
    (ISO + 'loads', [B_(b'1144' + BM23 + b'16444455556666777712345')], {}),
    (ISO + 'loads', [B_(b'11x4' + BM23 + b'164444555566667777123456')], {}),
    (ISO + 'loads', [B_(b'1144' + b'e0' + b'00' * 15 + b'164444555566667777123456')], {'hex_bitmap': True}),
    (ISO + 'loads', [B_(b'1144' + b'zz' + b'00' * 15 + b'16')], {'hex_bitmap': True}),
    (ISO + 'loads', [B_(b'1144' + bytes.fromhex('42000000000000000000000000000000') + b'xx')], {}),
    (ISO + 'loads', [B_(b'12')], {}),
    (ISO + 'loads', [B_('1144'.encode('cp500') + bytes.fromhex('c0000000000000000000000000000000') + '051234567'.encode('cp500')[:7])], {'encoding': 'cp500'}),
    (MCI + 'vbs_list_to_bytes', [[B_(b'hello'), B_(b'x' * 1100)]], {}),
    (MCI + 'vbs_list_to_bytes', [[B_(b'hello'), B_(b'x' * 1100), B_(b'y' * 1008)]], {'blocked': True}),
    (MCI + 'vbs_bytes_to_list', [B_(b'\x00\x00\x00\x02ab\x00\x00\x00\x01c\x00\x00\x00\x00')], {}),
    (MCI + 'vbs_bytes_to_list', [B_(b'\x00\x00\x00\x02ab\x00\x00\x00\x09c')], {}),
    (MCI + 'vbs_bytes_to_list', [B_(b'\x00\x00\x00\x02ab\x00\x00')], {}),
    (MCI + 'vbs_bytes_to_list', [B_(b'\x00\x00\x00\x05hello\x00\x00\x00\x00'.ljust(1012, b'\x40') + b'\x40\x40')], {'blocked': True}),
    (MCI + 'block_1014_check', [B_(b'a' * 1012 + b'@@')], {}),
    (MCI + 'block_1014_check', [B_((b'a' * 1012 + b'@@') * 2 + b'a' * 472)], {}),
    (MCI + 'block_1014_check', [B_(b'a' * 1012 + b'@@' + b'b' * 1013)], {}),
    (MCI + 'bitmap_check', [B_(bytes.fromhex('f0000000000000000000000000000000'))], {}),
    (MCI + 'bitmap_check', [B_(bytes.fromhex('82000000000000000000000000000001'))], {}),
    (MCI + 'encoding_check', [B_(b'1144')], {}),
    (MCI + 'encoding_check', [B_('1240'.encode('cp500'))], {}),
    (MCI + 'encoding_check', [B_(b'\xb2\xb3\xb9\xbc')], {}),
    (MCI + 'ipm_info', [F_(b'\x00\x00\x00\x18' + b'1144' + bytes.fromhex('f0000000000000000000000000000000') + b'\x00' * 4)], {}),
    (MCI + 'ipm_info', [F_(b'\x00\x00\x00\x18' + b'1144')], {}),
    (MCI + 'ipm_info', [F_(b'\x00\x00\x20\x00' + b'1144' + bytes.fromhex('f0000000000000000000000000000000') + b'\x00' * 4)], {}),
    ('cardutil.BitArray.BitArray', {'init': [], 'calls': [('frombytes', [B_(bytes.fromhex('a5000000000000000000000000000003'))]), ('tolist', [])]}, {}),
    ('cardutil.BitArray.BitArray', {'init': [], 'calls': [('fromlist', [[True, False] * 64]), ('tobytes', [])]}, {}),
    ('cardutil.pinblock.Iso0PinBlock', {'init': ['1234', '1111222233334444'], 'calls': [('to_bytes', [])]}, {}),
    ('cardutil.pinblock.Iso0PinBlock', {'init': ['123456789012', '5555444433332'], 'calls': [('to_bytes', [])]}, {}),
    ('cardutil.pinblock.Iso4PinBlock', {'init': ['12345'], 'initkw': {'random_value': 0x1122334455667788}, 'calls': [('to_bytes', [])]}, {}),
    ('cardutil.pinblock._get_tsp', ['1111222233334444', 3, '987654'], {}),
    ('cardutil.mciipm.Block1014', {'init': [F_(b'')], 'calls': [('write', [B_(b'a' * 1000)]), ('write', [B_(b'b' * 2036)]), ('write', [B_(b'')]), ('seek', [0])], 'result': 'file0'}, {}),
    ('cardutil.mciipm.Unblock1014', {'init': [F_((b'a' * 1012 + b'@@') * 2 + b'tail')], 'calls': [('read', [5]), ('read', [1012]), ('read', [])]}, {}),
]

NATIVE_DRIVER = r'''
import importlib, io, json, sys
def dec(x):
    if isinstance(x, dict) and '__bytes__' in x: return bytes.fromhex(x['__bytes__'])
    if isinstance(x, dict) and '__file__' in x: return io.BytesIO(bytes.fromhex(x['__file__']))
    if isinstance(x, dict): return {k: dec(v) for k, v in x.items()}
    if isinstance(x, list): return [dec(v) for v in x]
    return x
def enc(x):
    if isinstance(x, bytes): return {'__bytes__': x.hex()}
    if isinstance(x, dict): return {str(k): enc(v) for k, v in x.items()}
    if isinstance(x, (list, tuple)): return [enc(v) for v in x]
    if x is None or isinstance(x, (bool, int, str)): return x
    return {'__repr__': type(x).__name__}
out = []
for qual, args, kw in json.load(open(sys.argv[1])):
    mod, _, name = qual.rpartition('.')
    try:
        m = importlib.import_module(mod)
    except ImportError:
        mod2, _, cls = mod.rpartition('.')
        m = importlib.import_module(mod2); m = getattr(m, cls)
    f = getattr(m, name)
    try:
        if isinstance(args, dict):
            files = []
            ia = dec(args['init'])
            files = [a for a in ia if isinstance(a, io.BytesIO)]
            obj = f(*ia, **dec(args.get('initkw', {})))
            r = None
            rs = []
            for meth, a in args['calls']:
                rs.append(getattr(obj, meth)(*dec(a)))
            r = rs[-1] if args.get('result') != 'file0' else files[0].getvalue()
            if args.get('result') is None and len(rs) > 1: r = rs
        else:
            r = f(*dec(args), **dec(kw))
        out.append(['ok', enc(r)])
    except Exception as e:
        out.append(['raise', type(e).__name__])
print(json.dumps(out))
'''


def lift_py(E, x):
    if isinstance(x, dict) and '__bytes__' in x:
        return lift(bytes.fromhex(x['__bytes__']))
    if isinstance(x, dict) and '__file__' in x:
        return E.new_file(lift(bytes.fromhex(x['__file__'])), 0)
    if isinstance(x, dict):
        return E.new_dict({k: lift_py(E, v) for k, v in x.items()})
    if isinstance(x, list):
        return E.new_list(seq_items('list', [lift_py(E, v) for v in x]))
    return lift(x)


def unlift(E, v):
    if v is NONE:
        return None
    if isinstance(v, VBool):
        b = bool_lit(v.t)
        return b if b is not None else {'__symbolic__': str(v)}
    if isinstance(v, VInt):
        c = v.conc()
        return c if c is not None else {'__symbolic__': str(v)}
    if isinstance(v, VBV):
        c = conc_int(v.t)
        return c if c is not None else {'__symbolic__': str(v)}
    if isinstance(v, VSeq):
        if v.kind == 'list':
            s = E.fix_len(v)
            if s.clen() is None:
                return {'__symbolic__': 'list'}
            return [unlift(E, s.at(z3.IntVal(i))) for i in range(s.clen())]
        c = conc_str(E.fix_len(v))
        if c is None:
            return {'__symbolic__': repr(v)}
        return {'__bytes__': c.hex()} if isinstance(c, bytes) else c
    if isinstance(v, VTuple):
        return [unlift(E, x) for x in v.items]
    if isinstance(v, VRef):
        k = E.kind_of(v)
        if k == 'list':
            return unlift(E, E.getf(v, 'val'))
        if k == 'dict':
            d = E.getf(v, 'val')
            if isinstance(d, dict):
                return {str(kk): unlift(E, vv) for kk, vv in d.items()}
            ents = E.fix_len(d.entries)
            out = {}
            for i in range(ents.clen() or 0):
                kv = ents.at(z3.IntVal(i))
                out[str(unlift(E, kv.items[0]))] = unlift(E, kv.items[1])
            return out
        return {'__repr__': k}
    if isinstance(v, VOpaque):
        return {'__repr__': v.sort_name}
    return {'__repr__': type(v).__name__}


def run_engine_case(E, qual, args, kw):
    E.reset([])
    E.unit_name = 'difftest'
    E.differential_mode = True
    try:
        if isinstance(args, dict):
            ci = E.program.classes[qual]
            ia = [lift_py(E, a) for a in args['init']]
            obj = E.instantiate(ci, ia, {k: lift_py(E, v) for k, v in args.get('initkw', {}).items()})
            rs = []
            for meth, a in args['calls']:
                rs.append(E.method(obj, meth, *[lift_py(E, x) for x in a]))
            if args.get('result') == 'file0':
                r = E.getf(ia[0], 'content')
            else:
                r = rs[-1] if len(rs) == 1 else VTuple(rs)
        else:
            r = E.call(qual, *[lift_py(E, a) for a in args], **{k: lift_py(E, v) for k, v in kw.items()})
        return ['ok', unlift(E, r)]
    except PyRaise as pr:
        ec = E.exc_class(pr.exc)
        return ['raise', ec.name if isinstance(ec, ClassInfo) else ec.__name__]


def main(repo=None, verbose=False):
    repo = repo or os.environ.get('CARDUTIL_REPO', '/repo')
    import tempfile
    E = Engine(__import__('pyvc.extract', fromlist=['Program']).Program(repo))
    fd, path = tempfile.mkstemp(suffix='.json', prefix='pyvc_diff_')
    with os.fdopen(fd, 'w') as f:
        json.dump(CASES, f)
    env = dict(os.environ)
    env['PYTHONPATH'] = repo
    LIMIT = int(os.environ.get('PYVC_DIFFTEST_TIMEOUT', '240'))
    try:
        # subprocess.run kills the child when the timeout expires: a concrete program that never returns on edited code
        # must not outlive the check (an orphan would burn a core for ever and slow every later solver call)
        p = subprocess.run([PY_NATIVE, '-c', NATIVE_DRIVER, path], capture_output=True, text=True, env=env, cwd=repo, timeout=LIMIT)
    except subprocess.TimeoutExpired:
        print('difftest: CPython did not finish the %d concrete programs within %d s (a call that does not return)' % (len(CASES), LIMIT))
        return 1
    finally:
        os.unlink(path)
    if p.returncode != 0:
        print('native driver failed:', p.stderr[-500:])
        return 3
    native = json.loads(p.stdout.strip().splitlines()[-1])
    bad = 0
    unsupported = 0
    for (qual, args, kw), nat in zip(CASES, native):
        try:
            eng = run_engine_case(E, qual, args, kw)
        except Unsupported as ex:
            unsupported += 1
            if verbose:
                print('UNSUPPORTED', qual, str(ex)[:100])
            continue
        except PathEnd:
            eng = ['pathend', None]
        # opaque values (datetime, ...) compare by kind only
        if json.dumps(eng, sort_keys=True) != json.dumps(nat, sort_keys=True):
            if '__repr__' in json.dumps(eng) or '__symbolic__' in json.dumps(eng):
                unsupported += 1
                if verbose:
                    print('OPAQUE', qual, str(eng)[:120])
                continue
            bad += 1
            print('DISAGREE', qual, str(args)[:80], '\n   engine:', str(eng)[:200], '\n   native:', str(nat)[:200])
    print('difftest: %d cases, %d agree, %d disagree, %d outside the comparable subset' % (len(CASES), len(CASES) - bad - unsupported, bad, unsupported))
    return 1 if bad else 0


if __name__ == '__main__':
    sys.exit(main(verbose='-v' in sys.argv))
