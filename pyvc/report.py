"""Verdicts, evidence, replay files, guards (DESIGN sections 8-10)."""
import json
import os
import subprocess
import sys
import time

ROOT = os.path.dirname(os.path.dirname(os.path.abspath(__file__)))
PY_NATIVE = '/venv/bin/python'

PY_ASSUMPTIONS = [
    "pyvc (the VC generator in /verif/pyvc) implements CPython semantics for the subset of DESIGN 4.2: left-to-right evaluation, unbounded ints (machine arithmetic is mathematical here because Python ints are unbounded), slice clamping, truthiness, except-matching by class, assert removed iff -O; guarded by canaries / native differential runs, not proved",
    "z3 4.x (python wheel 5.1.0 API) is sound on the quantifier-free Int/Array/BV/UF queries it answers `unsat`; cvc5 1.0.3 takes z3's unknowns and re-checks in the thorough tier",
    "statements `LOGGER.<level>(...)` are dropped from the verified text: logging calls and the evaluation of their arguments neither raise nor change program state (cardutil.vendor.hexdump.hexdump is trusted total)",
    "file objects behave as the File model (no short reads/writes except at end of file, single owner, write at pos overwrites)",
    "sidecar contracts / spec functions in /verif/contracts say what the property statement says (human reading)",
]


def native_standin(pid, repo, tier, seed, inputs=None, timeout=900):
    """bounded stand-in: native sweep with an executable oracle.  Never counted as proved."""
    script = os.path.join(ROOT, 'replay', 'native', pid + '.py')
    if not os.path.exists(script):
        return None
    env = dict(os.environ)
    env['PYTHONPATH'] = repo
    cmd = [PY_NATIVE, script, '--tier', tier, '--seed', str(seed)]
    tmp = None
    if inputs:
        import tempfile
        fd, tmp = tempfile.mkstemp(suffix='.json', prefix='pyvc_inputs_')
        with os.fdopen(fd, 'w') as f:
            json.dump(inputs, f)
        cmd += ['--inputs', tmp]
    t0 = time.time()
    try:
        p = subprocess.run(cmd, cwd=repo, env=env, capture_output=True, text=True, timeout=timeout)
    except subprocess.TimeoutExpired:
        return {'tool': 'native sweep ' + os.path.relpath(script, ROOT), 'result': 'timeout', 'failures': [], 'evaluations': 0, 'wall_s': timeout}
    if tmp:
        try:
            os.unlink(tmp)
        except OSError:
            pass
    res = {'tool': 'native sweep ' + os.path.relpath(script, ROOT), 'wall_s': round(time.time() - t0, 2), 'model_inputs_replayed': len(inputs or [])}
    try:
        last = [l for l in p.stdout.splitlines() if l.startswith('{')][-1]
        j = json.loads(last)
        res.update(j)
        res['result'] = 'failures' if j.get('failures') else 'clean'
    except Exception:
        res.update({'result': 'crash', 'failures': [], 'evaluations': 0, 'stderr': (p.stdout + p.stderr)[-800:]})
    return res


def replay(path, repo):
    j = json.load(open(path))
    pid = j['property']
    print('replay of %s: property %s, obligation %s' % (path, pid, j.get('obligation')))
    if j.get('native_input') is not None:
        script = os.path.join(ROOT, 'replay', 'native', j.get('native_property', pid) + '.py')
        env = dict(os.environ)
        env['PYTHONPATH'] = repo
        p = subprocess.run([PY_NATIVE, script, '--replay', path], cwd=repo, env=env, capture_output=True, text=True)
        sys.stdout.write(p.stdout[-3000:])
        if p.returncode != 0:
            print('VIOLATION property=%s replay=%s' % (pid, path))
            return 1
        print('replayed input no longer fails on this tree')
        return 0
    print('no concrete failing input recorded (no-failing-input-found); failed obligation and solver output:')
    print(json.dumps({k: j.get(k) for k in ('obligation', 'function', 'status', 'model', 'goal')}, indent=1)[:3000])
    from pyvc import check
    return check.main([pid, '--tier', 'quick', '--repo', repo, '--no-canaries'])


BASELINE_HASHES = os.path.join(ROOT, 'props', 'validated_function_hashes.json')


def function_hashes(repo):
    from pyvc.extract import Program
    prog = Program(repo)
    return {q: f.text_hash() for q, f in prog.functions.items()}


def functions_changed_since_validation(repo):
    """qualified names of repository functions whose text differs from the text the contracts were last validated against
    (props/validated_function_hashes.json, written by tools/refresh_evidence.sh from the unchanged tree)"""
    try:
        base = json.load(open(BASELINE_HASHES))
    except Exception:
        return []
    now = function_hashes(repo)
    return sorted(q for q in set(base) | set(now) if base.get(q) != now.get(q))


def run_check(pid, tier, repo, seed, opts):
    from pyvc import check
    t0 = time.time()
    reg = check.load_registry()
    if pid not in reg.PROPS:
        print('property %s is not claimed (see MANIFEST.not_applicable)' % pid)
        return 3
    spec = reg.PROPS[pid]
    units, results = check.run_property(pid, tier, repo, seed, unit_filter=opts.unit)
    errors = [r for r in results if r['error']]
    obs = []
    undecided_units = []
    funcs = {}
    models_used = set()
    covers = set()
    for r in results:
        tag = r['unit'] + ('' if r['debug'] else '[-O]')
        for o in r['obligations']:
            o['unit'] = tag
            obs.append(o)
        for u in r['undecided']:
            undecided_units.append('%s: %s' % (tag, u))
        funcs.update(r.get('functions', {}))
        models_used.update(r.get('models_used', []))
        covers.update(r.get('covers', []))
    # ---- vacuity guards
    checker_errors = []
    edited = None
    engine_untrusted = False
    for r in results:
        if r['error']:
            # a unit that cannot be run: on the function texts the contracts were validated against this is a defect of the
            # checker (exit 3); on edited code it means the contract no longer matches the code -> undecided, the stand-in decides
            if edited is None:
                edited = functions_changed_since_validation(repo)
            if edited:
                undecided_units.append('%s: contract could not be run on the edited code (%s); edited since the contracts were validated: %s' % (
                    r['unit'], r['error'].splitlines()[0][:160], ', '.join(edited[:4])))
                r['undecided'] = list(r.get('undecided') or []) + ['unit could not be run on the edited code']
                continue
            checker_errors.append('unit %s crashed: %s' % (r['unit'], r['error'][:400]))
        elif not r['obligations'] and not r['undecided']:
            checker_errors.append('unit %s generated zero obligations' % r['unit'])
        elif r.get('live_paths', 1) == 0 and not r['undecided']:
            checker_errors.append('unit %s: every completed path has a contradictory path condition (vacuous proof)' % r['unit'])
    if not units:
        checker_errors.append('no proof units registered for %s' % pid)
    sat = [o for o in obs if o['status'] in ('sat', 'sat?')]
    unknown = [o for o in obs if o['status'] == 'unknown']
    discharged = [o for o in obs if o['status'] == 'unsat']
    # ---- canaries (must-fail mutations, in memory)
    canary_res = []
    if not opts.no_canaries and not sat and not checker_errors:
        cans = spec.get('canaries', [])
        if tier == 'quick':
            cans = cans[:2]
        for can in cans:
            rel, old, new, note = can[:4]
            ufilter = can[4] if len(can) > 4 else None
            src = open(os.path.join(repo, rel), encoding='utf-8').read()
            if src.count(old) != 1:
                canary_res.append({'canary': note, 'result': 'not-applicable (anchor text not found once)'})
                continue
            _, cres = check.run_property(pid, 'quick', repo, seed, overrides={rel: src.replace(old, new)}, unit_filter=ufilter, own_only=True)
            bad = [o for r in cres for o in r['obligations'] if o['status'] != 'unsat']
            und = [u for r in cres for u in r['undecided']] + [r['error'] for r in cres if r['error']]
            killed = bool(bad)
            canary_res.append({'canary': note, 'result': 'killed' if killed else ('undecided' if und else 'SURVIVED'),
                               'failed_obligations': [o['name'] for o in bad][:5]})
            if not killed and not und:
                if edited is None:
                    edited = functions_changed_since_validation(repo)
                if edited:
                    canary_res[-1]['result'] = 'survived on edited code (anchor text may have lost its role; not counted)'
                else:
                    checker_errors.append('canary survived: %s' % note)
    # ---- engine vs CPython differential (every check; also part of setup_cmd): a test of the trusted base
    diff_res = None
    if not opts.no_native:
        try:
            p = subprocess.run([sys.executable, '-m', 'pyvc.difftest'], cwd=ROOT, capture_output=True, text=True, timeout=600,
                               env=dict(os.environ, CARDUTIL_REPO=repo))
            diff_res = p.stdout.strip().splitlines()[-1] if p.stdout.strip() else 'no output'
            if p.returncode == 1:
                if edited is None:
                    edited = functions_changed_since_validation(repo)
                if edited:
                    # on edited code the engine left the part of Python it is validated for: its verdicts are not used, the
                    # bounded stand-in decides
                    engine_untrusted = True
                    undecided_units.append('engine and CPython disagree on concrete runs of the edited code (%s): proof results not used' % diff_res)
                else:
                    checker_errors.append('engine disagrees with CPython: ' + diff_res)
        except subprocess.TimeoutExpired:
            diff_res = 'timeout'
    # ---- bounded stand-in when the proof is not complete (or always in the thorough tier)
    # The bounded native stand-ins (of this property and of the properties it is a lemma over) run on EVERY check: they realise
    # counterexamples, stand in where the proof is undecided, and are a safety net for gaps between the engine's model of
    # Python and CPython.  They are labelled bounded and never counted as discharged.
    standin = None
    standins = []
    need_native = bool(sat or unknown or undecided_units)
    if not opts.no_native:
        order = [pid]
        todo = [pid]
        while todo:
            for d in reg.PROPS.get(todo.pop(), {}).get('deps', []):
                if d not in order:
                    order.append(d)
                    todo.append(d)
        for k, p2 in enumerate(order):
            budget_tier = tier if (need_native or k == 0) else 'quick'        # dependencies' stand-ins: quick sweep unless something is open
            # model-derived inputs go to the oracle they were written for (kinds of different oracles may share a name)
            inputs = [o['native'] for o in sat if o.get('native') is not None and o.get('native_prop') in (None, p2)][:20]
            r = native_standin(p2, repo, budget_tier, seed, inputs=inputs)
            if r is not None:
                r['property'] = p2
                standins.append(r)
        with_fail = [r for r in standins if r.get('failures')]
        standin = with_fail[0] if with_fail else (standins[0] if standins else None)
    # ---- verdict
    os.makedirs(os.path.join(ROOT, 'replay', 'found'), exist_ok=True)
    violations = []
    lines = []
    kf = json.load(open(os.path.join(ROOT, 'known_findings.json')))
    known = [f for f in kf.get('findings', []) if f.get('property') == pid]
    native_fail = (standin or {}).get('failures') or []
    used_native = False
    # A postcondition is derived under the unit's invariants and within the supported subset.  If, in the same unit, part of the
    # code was outside the subset / did not match its loop invariant (an undecided path), or an invariant obligation fails, a
    # failing postcondition may be an artefact of that mismatch: without a concrete failing input it is reported as undecided.
    tainted = set()
    for r in results:
        tag_ = r['unit'] + ('' if r['debug'] else '[-O]')
        if r.get('undecided'):
            tainted.add(tag_)
    for o in sat:
        if o.get('kind') in ('inv-entry', 'inv-preserve', 'variant'):
            tainted.add(o['unit'])
    for o in sat:
        rp = os.path.join(ROOT, 'replay', 'found', '%s_%s.json' % (pid, __import__('hashlib').sha1((o['unit'] + o['name']).encode()).hexdigest()[:10]))
        rec = {'property': pid, 'obligation': o['name'], 'unit': o['unit'], 'function': o['where'], 'tier': o['tier'], 'kind': o['kind'],
               'status': 'sat (obligation fails)', 'goal': o['goal'], 'model': o.get('model'),
               'function_source': funcs.get(o['where']), 'repo': repo, 'native_input': None}
        confirmed = None
        if native_fail:
            confirmed = native_fail[0]
            rec['native_input'] = confirmed.get('input')
            rec['native_detail'] = confirmed.get('detail')
            rec['native_property'] = standin.get('property', pid)
            used_native = True
        is_known = any(k.get('obligation') == o['name'] and (confirmed is None or k.get('witness') == confirmed.get('class')) for k in known)
        if is_known:
            lines.append('KNOWN-FINDING: property=%s %s' % (pid, o['name']))
            continue
        if confirmed is not None:
            json.dump(rec, open(rp, 'w'), indent=1, default=str)
            violations.append((o, rp, ''))
        elif o['tier'] == 'P' and o['status'] == 'sat' and not engine_untrusted and o['unit'] not in tainted:
            json.dump(rec, open(rp, 'w'), indent=1, default=str)
            violations.append((o, rp, ' no-failing-input-found'))
        else:
            why = 'internal obligation fails' if o['tier'] != 'P' else ('postcondition fails in a unit whose invariants / supported subset no longer match the code' if o['unit'] in tainted else 'candidate only')
            lines.append('UNDECIDED property=%s obligation=%s (%s, no failing input found natively; bound=%s)'
                         % (pid, o['name'], why, (standin or {}).get('bound', 'no stand-in')))
    if native_fail and not used_native:
        f = native_fail[0]
        rp = os.path.join(ROOT, 'replay', 'found', '%s_native.json' % pid)
        json.dump({'property': pid, 'obligation': None, 'native_input': f.get('input'), 'native_detail': f.get('detail'), 'repo': repo,
                   'native_property': standin.get('property', pid)},
                  open(rp, 'w'), indent=1, default=str)
        violations.append(({'name': 'native:' + str(f.get('class'))}, rp, ''))
    for o in unknown:
        lines.append('UNDECIDED property=%s obligation=%s (solver: %s; bound=%s)' % (pid, o['name'], o.get('reason'), (standin or {}).get('bound', 'no stand-in')))
    for u in undecided_units:
        lines.append('UNDECIDED property=%s %s (bound=%s)' % (pid, u[:300], (standin or {}).get('bound', 'no stand-in')))
    seen = set()
    for o, rp, suffix in violations:
        if rp in seen:
            continue
        seen.add(rp)
        if len(seen) <= 12:
            lines.append('VIOLATION property=%s replay=%s%s' % (pid, rp, suffix))
    if len(seen) > 12:
        lines.append('(%d further failed obligations of %s not listed; all of them are in the evidence file and have replay files under replay/found/)' % (len(seen) - 12, pid))
    # ---- evidence
    proof_complete = not sat and not unknown and not undecided_units and not checker_errors and obs
    by_kind = {}
    for o in obs:
        by_kind[o['kind']] = by_kind.get(o['kind'], 0) + 1
    by_backend = {}
    for o in discharged:
        b = by_backend.setdefault(o['backend'], {'count': 0, 'seconds': 0.0})
        b['count'] += 1
        b['seconds'] = round(b['seconds'] + o['time'], 3)
    cvc5_agree = sum(1 for o in obs if o.get('cvc5') == 'unsat')
    cvc5_other = sorted({o['name'] + ':' + o['cvc5'] for o in obs if o.get('cvc5') and o['cvc5'] != 'unsat'})
    slow = sorted(obs, key=lambda o: -o['time'])[:5]
    nontrivial = len({(o['unit'], o['name']) for o in obs if o['goal'] not in ('True',)})
    cov = {
        'obligations': len(obs), 'discharged': len(discharged),
        'checker_cmd': 'python3-vt /verif/check %s --tier %s   (pyvc: ast -> z3 VCs from %s/cardutil/*.py, discharged by z3 %s; cvc5 /usr/bin/cvc5 for z3 unknowns%s)'
                       % (pid, tier, repo, _z3v(), ' and as a cross-check of every obligation' if tier == 'thorough' else ''),
        'trusted_base': ['pyvc VC generator (/verif/pyvc)', 'z3', 'cvc5', 'CPython ast module', 'sidecar contracts in /verif/contracts',
                         'library models: ' + ', '.join(sorted(models_used))],
        'functions_under_contract': funcs,
        'proof_units': sorted({o['unit'] for o in obs}),
        'obligations_by_kind': by_kind, 'by_backend': by_backend,
        'solver_seconds': round(sum(o['time'] for o in obs), 3),
        'slowest': [{'name': o['name'], 'unit': o['unit'], 's': o['time']} for o in slow],
        'covers_reached': sorted(covers),
        'paths_explored': sum(r.get('paths', 0) for r in results),
        'paths_completed_with_satisfiable_condition': sum(r.get('live_paths', 0) for r in results),
        'paths_vacuous': sum(r.get('vacuous_paths', 0) for r in results),
        'canaries': canary_res,
        'cvc5_cross_check': {'agree_unsat': cvc5_agree, 'other': cvc5_other},
        'engine_vs_cpython_differential': diff_res or 'not run (--no-native)',
        'bounded_standins': standins,
        'undecided': [o['name'] for o in unknown] + undecided_units,
        'failed_obligations': [{'name': o['name'], 'unit': o['unit'], 'tier': o['tier'], 'model': o.get('model')} for o in sat],
        'evaluations': len(obs), 'distinct_nontrivial': nontrivial,
        'rule': 'one evaluation = one named proof obligation (path condition and negated goal) generated from the real AST; non-trivial = goal not syntactically True after simplification; distinct by (unit, name)',
        'samples': [{'unit': o['unit'], 'name': o['name'], 'kind': o['kind'], 'tier': o['tier'], 'pc_size': o['pc_size'], 'goal': o['goal'][:160],
                     'verdict': o['status'], 's': o['time']} for o in obs[:6]],
        'exhaustive': False,
        'checker_errors': checker_errors,
    }
    assumptions = list(PY_ASSUMPTIONS)
    assumptions += ['library model (assumed contract on a dependency): ' + m for m in sorted(models_used)]
    assumptions += spec.get('assumptions', [])
    level = 'proof' if proof_complete else 'other'
    if not proof_complete:
        cov['explanation'] = ('proof NOT complete on this run: %d of %d obligations discharged; failed=%s undecided=%s checker_errors=%s; '
                              'bounded stand-in: %s' % (len(discharged), len(obs), [o['name'] for o in sat][:8],
                                                         ([o['name'] for o in unknown] + undecided_units)[:8], checker_errors[:4],
                                                         (standin or {}).get('result', 'not run')))
    ev = {'property_id': pid, 'tier': tier if tier in ('quick', 'thorough') else 'quick', 'seed': seed, 'level': level, 'coverage': cov,
          'assumptions': assumptions, 'wall_s': round(time.time() - t0, 2), 'violations': len(seen)}
    # evidence/<id>.json is only ever written from a run against /repo itself; runs against scratch copies
    # (seeded changes, canaries) go to evidence_scratch/ which is not committed
    evdir = os.path.join(ROOT, 'evidence' if os.path.realpath(repo) == os.path.realpath('/repo') else 'evidence_scratch')
    if evdir.endswith('evidence_scratch') and os.environ.get('PYVC_EVIDENCE_DIR'):
        evdir = os.environ['PYVC_EVIDENCE_DIR']
    os.makedirs(evdir, exist_ok=True)
    json.dump(ev, open(os.path.join(evdir, pid + '.json'), 'w'), indent=1, default=str)
    # ---- output
    print('%s: %d proof units, %d obligations, %d discharged, %d failed, %d undecided; functions under contract: %d; wall %.1fs'
          % (pid, len({o["unit"] for o in obs}), len(obs), len(discharged), len(sat), len(unknown) + len(undecided_units), len(funcs), time.time() - t0))
    if opts.v:
        for o in obs:
            print('   %-7s %-2s %-60s %s %.3fs' % (o['status'], o['tier'], o['name'][:60], o['unit'], o['time']))
    for c in canary_res:
        print('   canary %-60s %s' % (c['canary'][:60], c['result']))
    for st in standins:
        print('   bounded stand-in: %s -> %s (%s evaluations, %.0fs)' % (st['tool'], st['result'], st.get('evaluations'), st.get('wall_s', 0)))
    for l in lines:
        print(l)
    if seen:
        return 1
    if checker_errors:
        for c in checker_errors:
            print('CHECKER-ERROR %s' % c)
        return 3
    return 0


def _z3v():
    try:
        import z3
        return z3.get_version_string()
    except Exception:
        return '?'
