"""pyvc engine: forward symbolic execution of the real cardutil ASTs, one path at a time.

Direct-style interpreter with *path replay*: a proof unit is re-run once per path; every undecided branch
is a recorded decision, the alternative is pushed on a work list.  Loops are cut by sidecar loop specs
(ghost witnesses, substitution style, DESIGN 4.3); obligations are quantifier-free formulas.
"""
import ast
import binascii
import decimal
import struct
import time
import z3

from .values import *            # noqa
from . import values as _v
from .extract import Program, FuncInfo, ClassInfo

MAX_UNROLL = 260


class PyRaise(Exception):
    """a Python exception in flight inside the symbolically executed program"""

    def __init__(self, exc):
        Exception.__init__(self)
        self.exc = exc            # VRef of the exception object


class ReturnSig(Exception):
    def __init__(self, value):
        self.value = value


class BreakSig(Exception):
    pass


class ContinueSig(Exception):
    pass


class CheckerError(Exception):
    """the machinery itself is inconsistent (exit 3)"""


class VUnknown(V):
    """poison: value of a variable assigned inside a loop body but not described by the loop spec"""

    def __init__(self, why):
        self.why = why

    def __repr__(self):
        return '<unknown %s>' % self.why


class Frame:
    def __init__(self, func, module, locs):
        self.func = func            # FuncInfo or None (ghost client)
        self.module = module        # ModuleInfo
        self.locals = locs
        self.cls = func.cls if func is not None else None


class Obligation:
    __slots__ = ('name', 'tier', 'pc', 'goal', 'where', 'status', 'time', 'model', 'prop', 'kind', 'unit', 'note', 'template', 'native')

    def __init__(self, name, tier, pc, goal, where, kind):
        self.name, self.tier, self.pc, self.goal, self.where, self.kind = name, tier, pc, goal, where, kind
        self.status = None
        self.time = 0.0
        self.model = None
        self.unit = None
        self.note = None
        self.template = None
        self.native = None


class Snapshot:
    def __init__(self, locs, heap):
        self.locals = dict(locs)
        self.heap = {k: dict(v) for k, v in heap.items()}


class Engine:
    def __init__(self, program=None, solver_timeout_ms=20000):
        self.program = program or Program()
        self.models = {}
        self.method_models = {}
        self.contracts = {}           # qualname -> callable(E, args(list), kwargs) applied instead of inlining
        self.loop_specs = {}          # (qualname, ordinal) -> spec object
        self.debug_flag = True        # value of __debug__
        self._ghost_module = None
        self._ghost_cache = {}
        self.merge_ifs = False        # units that walk long loops switch if-merging on
        self.trace_merge = False
        self.solver_timeout_ms = solver_timeout_ms
        self.obligations = []
        self.undecided = []           # (unit, reason)
        self.covers = {}              # cover name -> reached?
        self.stats = {'paths': 0, 'feas_calls': 0, 'feas_time': 0.0}
        self.unit_name = None
        self.func_used = {}           # qualname -> FuncInfo of every real function executed
        self.models_used = set()
        self._loop_ord_cache = {}
        from . import models
        models.install(self)
        self.reset([])

    # ------------------------------------------------------------------ path state
    def reset(self, prefix):
        self.prefix = list(prefix)
        self.di = 0
        self.decisions = []
        self.pc = []
        self._pc_ids = set()
        self.heap = {}
        self._oid = 0
        self._fresh = {}
        self.frames = []
        self.worklist_add = []
        self.ghost = {}
        self.stdout = []
        self._decide_cache = {}
        self.sigmas = []
        self.native_template = None
        self._globals_cache = {}
        self._defaults_cache = {}
        self.no_fork = False
        self._inc = None
        self._inc_n = 0
        self._inc_last = None
        self._vars_cache = {}
        _v.set_oracle(self.decide, self.entailed_int_cached)

    def fresh_name(self, base):
        k = self._fresh.get(base, 0)
        self._fresh[base] = k + 1
        return base if k == 0 else '%s!%d' % (base, k)

    def fresh_int(self, base):
        return z3.Int(self.fresh_name(base))

    def fresh_bool(self, base):
        return z3.Bool(self.fresh_name(base))

    def fresh_seq(self, kind, base, lo=None, hi=None, elem_fact=None):
        return seq_base(kind, self.fresh_name(base), self, lo, hi, elem_fact)

    def fact(self, b):
        """append a (universally valid or assumed) fact to the path condition"""
        if isinstance(b, bool):
            if not b:
                raise PathEnd()
            return
        i = b.get_id()
        if i in self._pc_ids:
            return
        self._pc_ids.add(i)
        self.pc.append(b)

    def assume(self, b):
        bl = bool_lit(b)
        if bl is False:
            raise PathEnd()
        if bl is True:
            return
        self.fact(b)

    def replaying(self):
        return self.di < len(self.prefix)

    # ------------------------------------------------------------------ solver
    def _solver(self, timeout_ms):
        s = z3.Solver()
        s.set('timeout', timeout_ms)
        s.set('rlimit', 40000000)
        return s

    def _sync_solver(self):
        """one incremental solver per path, kept in step with self.pc (rebuilt when the pc was cut back)"""
        n = len(self.pc)
        if self._inc is None or self._inc_n > n or (self._inc_n and self._inc_last is not self.pc[self._inc_n - 1]):
            self._inc = self._solver(8000)
            self._inc_n = 0
        if self._inc_n < n:
            self._inc.add(*self.pc[self._inc_n:])
            self._inc_n = n
            self._inc_last = self.pc[n - 1]
        return self._inc

    def _vars_of(self, e):
        """uninterpreted constants (0-ary symbols of any sort) of a formula; memoised per path"""
        k = e.get_id()
        hit = self._vars_cache.get(k)
        if hit is not None:
            return hit[0]
        out = set()
        seen = set()
        stack = [e]
        while stack:
            t = stack.pop()
            i = t.get_id()
            if i in seen:
                continue
            seen.add(i)
            if z3.is_quantifier(t):
                stack.append(t.body())
                continue
            if z3.is_app(t):
                if t.num_args() == 0:
                    if t.decl().kind() == z3.Z3_OP_UNINTERPRETED:
                        out.add(t.decl().name())
                else:
                    stack.extend(t.children())
        fs = frozenset(out)
        self._vars_cache[k] = (fs, e)
        return fs

    def _slice(self, extra):
        """path-condition formulas that share a variable (transitively) with `extra` (cone of influence).
        Dropping the others over-approximates satisfiability, so `infeasible` answers stay sound."""
        want = set(self._vars_of(extra))
        if not want:
            return list(self.pc)          # ground query (e.g. ENCODABLE(48)): no slicing
        pcv = [(f, self._vars_of(f)) for f in self.pc]
        chosen = [not vs for (f, vs) in pcv]          # ground facts are always kept
        changed = True
        while changed:
            changed = False
            for idx, (f, vs) in enumerate(pcv):
                if not chosen[idx] and vs & want:
                    chosen[idx] = True
                    if not vs <= want:
                        want |= vs
                        changed = True
        return [f for idx, (f, _) in enumerate(pcv) if chosen[idx]]

    def feasible(self, extra, full=False):
        t0 = time.time()
        extra = B(extra)
        if not full and len(self.pc) > 40 and bool_lit(extra) is None:
            sl = self._slice(extra)
            if len(sl) < len(self.pc):
                s = self._solver(4000)
                s.add(*sl)
                s.add(extra)
                r = s.check()
                self.stats['feas_calls'] += 1
                self.stats['feas_time'] += time.time() - t0
                return r != z3.unsat
        s = self._sync_solver()
        s.push()
        s.add(extra)
        r = s.check()
        s.pop()
        self.stats['feas_calls'] += 1
        self.stats['feas_time'] += time.time() - t0
        return r != z3.unsat

    def entailed_int_cached(self, t):
        key = ('v', len(self.pc), t.get_id())
        hit = self._decide_cache.get(key)
        if hit is not None:
            return hit[0]
        r = self.entailed_int(t)
        self._decide_cache[key] = (r, t)
        return r

    def entailed_int(self, t):
        """python int v if the path condition entails t == v, else None"""
        c = conc_int(t)
        if c is not None:
            return c
        if len(self.pc) > 40:
            s = self._solver(4000)
            s.add(*self._slice(t == 0))
        else:
            s = self._sync_solver()
        s.push()
        try:
            if s.check() != z3.sat:
                return None
            v = s.model().eval(t, model_completion=True)
            if not z3.is_int_value(v):
                return None
            s.add(t != v)
            if s.check() == z3.unsat:
                return v.as_long()
            return None
        finally:
            s.pop()

    def decide(self, c):
        """True / False when the path condition entails c / not c, else None (two cheap solver calls)"""
        bl = bool_lit(c)
        if bl is not None:
            return bl
        key = (len(self.pc), c.get_id())
        hit = self._decide_cache.get(key)
        if hit is not None:
            return hit[0]
        r = None
        if not self.feasible(z3.Not(c)):
            r = True
        elif not self.feasible(c):
            r = False
        self._decide_cache[key] = (r, c)   # keep c alive: z3 ast ids are recycled
        return r

    def fix_len(self, sq):
        """sequence with literal length when the path condition determines it"""
        if sq.clen() is not None:
            return sq
        v = self.entailed_int(sq.n)
        if v is None or v > 4096:
            return sq
        return seq_items(sq.kind, [sq.at(z3.IntVal(k)) for k in range(v)])

    def branch(self, c):
        """decide a python-level branch on z3 Bool c; forks the path when both sides are feasible"""
        c = B(c)
        bl = bool_lit(c)
        if bl is not None:
            return bl
        if self.no_fork:
            d = self.decide(c)
            if d is None:
                raise Unsupported('branch inside a symbolic comprehension element')
            return d
        if self.di < len(self.prefix):
            d = self.prefix[self.di]
            self.di += 1
            self.decisions.append(d)
            self.fact(c if d else z3.Not(c))
            return d
        t = self.feasible(c)
        f = self.feasible(z3.Not(c))
        if not t and not f:
            raise PathEnd()
        if t and f:
            if getattr(self, 'differential_mode', False):
                # concrete inputs, yet both sides feasible: an abstract library model was reached (outside the comparable subset)
                raise Unsupported('undetermined branch on concrete input (abstract model reached)')
            self.worklist_add.append(self.decisions + [False])
            d = True
        else:
            d = t
        self.di += 1
        self.prefix.append(d)
        self.decisions.append(d)
        self.fact(c if d else z3.Not(c))
        return d

    def choose(self, n, label=''):
        """n-way nondeterministic choice (all alternatives explored)"""
        for k in range(n - 1):
            if self.branch(self.fresh_bool('choice_%s_%d' % (label, k))):
                return k
        return n - 1

    def prove(self, name, goal, tier='I', kind='post', where=None):
        """record a proof obligation  pc |- goal  (discharged later)"""
        if self.replaying():
            return
        goal = B(goal)
        if where is None and self.frames and self.frames[-1].func is not None:
            where = self.frames[-1].func.qualname
        ob = Obligation(name, tier, list(self.pc), goal, where, kind)
        ob.unit = self.unit_name
        ob.template = self.native_template
        self.obligations.append(ob)

    def prove_value_eq(self, name, a, b, tier='I', kind='post'):
        """goal a == b for values; sequences are compared by length + element at one skolem index"""
        if isinstance(a, VRef) and isinstance(b, VRef) and a.oid != b.oid and self.kind_of(a) == 'dict' and self.kind_of(b) == 'dict':
            from .models_iso import AssocDict, MsgDict
            da, db = self.getf(a, 'val'), self.getf(b, 'val')
            if isinstance(da, MsgDict) or isinstance(db, MsgDict):
                pres = self.ghost.get('msg_present')
                ma = da if isinstance(da, MsgDict) else MsgDict(da, z3.IntVal(2))
                mb = db if isinstance(db, MsgDict) else MsgDict(db, z3.IntVal(2))
                if set(ma.base) != set(mb.base):
                    return self.prove(name + '.keys', z3.BoolVal(False), tier, kind)
                for k in ma.base:
                    self.prove_value_eq('%s[%s]' % (name, k), ma.base[k], mb.base[k], tier, kind)
                ua, ub = ma.upto, mb.upto
                same = z3.Or(ua == ub, z3.And(ub == ua + 1, z3.Not(pres(ua))), z3.And(ua == ub + 1, z3.Not(pres(ub))))
                return self.prove(name + '.elements-up-to', same, tier, kind)
            ea = AssocDict.from_concrete(da).entries if isinstance(da, dict) else da.entries
            eb = AssocDict.from_concrete(db).entries if isinstance(db, dict) else db.entries
            return self.prove_value_eq(name + '.entries', ea, eb, tier, kind)
        from .models_iso import AssocDict as _AD
        if (isinstance(a, _AD) or isinstance(b, _AD)) and isinstance(a, (_AD, dict)) and isinstance(b, (_AD, dict)):
            ea = _AD.from_concrete(a).entries if isinstance(a, dict) else a.entries
            eb = _AD.from_concrete(b).entries if isinstance(b, dict) else b.entries
            return self.prove_value_eq(name + '.entries', ea, eb, tier, kind)
        if isinstance(a, VRef) and isinstance(b, VRef) and a.oid != b.oid:
            ca, cb = self.heap.get(a.oid), self.heap.get(b.oid)
            if ca is not None and cb is not None and ca.get('__kind__') in ('list',) and cb.get('__kind__') == ca.get('__kind__'):
                return self.prove_value_eq(name, ca['val'], cb['val'], tier, kind)
        if isinstance(a, VSeq) and isinstance(b, VSeq) and a.kind == b.kind and a.kind != 'list':
            ca, cb = a.clen(), b.clen()
            if ca is not None and cb is not None:
                if ca != cb:
                    self.prove(name + '.len', z3.BoolVal(False), tier, kind)
                    return
                for k in range(ca):
                    self.prove('%s[%d]' % (name, k), elem_eq(a.at(z3.IntVal(k)), b.at(z3.IntVal(k))), tier, kind)
                return
            self.prove(name + '.len', a.n == b.n, tier, kind)
            k = self.fresh_int('sk')
            saved = list(self.pc), set(self._pc_ids)
            self.fact(k >= 0)
            self.fact(k < a.n)
            self.fact(k < b.n)
            ea, eb = a.at(k), b.at(k)
            self.prove(name + '.elem', elem_eq(ea, eb), tier, kind)
            self.pc, self._pc_ids = saved
            return
        if isinstance(a, VSeq) and isinstance(b, VSeq) and a.kind == 'list':
            ca, cb = a.clen(), b.clen()
            if ca is not None and cb is not None:
                if ca != cb:
                    self.prove(name + '.len', z3.BoolVal(False), tier, kind)
                    return
                for k in range(ca):
                    self.prove_value_eq('%s[%d]' % (name, k), a.at(z3.IntVal(k)), b.at(z3.IntVal(k)), tier, kind)
                return
            self.prove(name + '.len', a.n == b.n, tier, kind)
            k = self.fresh_int('sk')
            saved = list(self.pc), set(self._pc_ids)
            self.fact(k >= 0)
            self.fact(k < a.n)
            self.fact(k < b.n)
            self.prove_value_eq(name + '.elem', a.at(k), b.at(k), tier, kind)
            self.pc, self._pc_ids = saved
            return
        if isinstance(a, VTuple) and isinstance(b, VTuple) and len(a.items) == len(b.items):
            for i, (x, y) in enumerate(zip(a.items, b.items)):
                self.prove_value_eq('%s.%d' % (name, i), x, y, tier, kind)
            return
        self.prove(name, value_eq_bool(a, b), tier, kind)

    def native_input(self, template):
        """register how a solver model of this unit maps to an input of the property's native oracle
        (dict / list structure whose leaves are symbolic values); used to replay counterexamples on the real code"""
        self.native_template = template

    def cover(self, name):
        self.covers[name] = True

    # ------------------------------------------------------------------ heap
    def new_cell(self, fields):
        self._oid += 1
        oid = self._oid
        self.heap[oid] = dict(fields)
        return VRef(oid)

    def new_list(self, seq):
        return self.new_cell({'__kind__': 'list', 'val': seq})

    def new_dict(self, d=None):
        return self.new_cell({'__kind__': 'dict', 'val': dict(d or {})})

    def new_obj(self, qualname, fields):
        """instance of a real class with the given field values (used by contracts to build pre-states)"""
        ci = self.program.classes.get(qualname)
        if ci is None:
            raise Unsupported('class %s is not in the tree any more: its contract cannot be attached' % qualname)
        d = {'__kind__': 'obj', '__class__': ci}
        d.update(fields)
        return self.new_cell(d)

    def new_file(self, content, pos):
        return self.new_cell({'__kind__': 'file', 'content': content, 'pos': VInt(pos) if not isinstance(pos, V) else pos, 'closed': FALSE})

    def method(self, obj, name, *args, **kwargs):
        """call a method of a heap object the way python would (MRO lookup)"""
        f = self.getattr_value(obj, name)
        return self.call_value(f, [lift(a) for a in args], {k: lift(v) for k, v in kwargs.items()})

    def cell(self, ref):
        return self.heap[ref.oid]

    def kind_of(self, ref):
        return self.heap[ref.oid].get('__kind__')

    def getf(self, ref, name):
        return self.heap[ref.oid][name]

    def setf(self, ref, name, v):
        c = dict(self.heap[ref.oid])
        c[name] = v
        self.heap[ref.oid] = c

    def list_val(self, v):
        """VSeq of a python list value (heap list) or the seq itself"""
        if isinstance(v, VRef) and self.kind_of(v) == 'list':
            return self.getf(v, 'val')
        if isinstance(v, VSeq):
            return v
        if isinstance(v, VTuple):
            return seq_items('list', v.items)
        raise Unsupported('not a sequence: %r' % (v,))

    def snapshot(self):
        return Snapshot(self.frames[-1].locals if self.frames else {}, self.heap)

    # ------------------------------------------------------------------ exceptions
    def make_exc(self, cls, args=(), kwargs=None):
        """instantiate exception; cls: ClassInfo | python exception class"""
        if isinstance(cls, ClassInfo):
            return self.instantiate(cls, list(args), kwargs or {})
        return self.new_cell({'__kind__': 'exc', '__class__': cls, 'args': VTuple(list(args))})

    def throw(self, cls, *args):
        raise PyRaise(self.make_exc(cls, [lift(a) for a in args]))

    def exc_class(self, ref):
        return self.heap[ref.oid]['__class__']

    def exc_matches(self, ref, handler):
        """does exception object `ref` match an except clause value?"""
        if isinstance(handler, VTuple):
            return any(self.exc_matches(ref, h) for h in handler.items)
        ec = self.exc_class(ref)
        if isinstance(handler, VClass):
            if isinstance(ec, ClassInfo):
                return self.program.is_subclass(ec, handler.info)
            return False
        if isinstance(handler, VExcClass):
            if isinstance(ec, ClassInfo):
                base = self.program.exc_base(ec)
                return base is not None and issubclass(base, handler.pycls)
            return issubclass(ec, handler.pycls)
        raise Unsupported('except clause %r' % (handler,))

    def exc_is(self, ref, what):
        """what: ClassInfo qualname str | python exception class"""
        ec = self.exc_class(ref)
        if isinstance(what, str):
            return isinstance(ec, ClassInfo) and any(c.qualname == what for c in self.program.mro(ec))
        if isinstance(ec, ClassInfo):
            base = self.program.exc_base(ec)
            return base is not None and issubclass(base, what)
        return issubclass(ec, what)

    def exc_name(self, ref):
        ec = self.exc_class(ref)
        return ec.qualname if isinstance(ec, ClassInfo) else ec.__module__ + '.' + ec.__name__

    # ------------------------------------------------------------------ truthiness / ints
    def truth(self, v):
        if isinstance(v, VBool):
            return v.t
        if isinstance(v, VInt):
            return v.t != 0
        if isinstance(v, VBV):
            return v.t != 0
        if v is NONE:
            return z3.BoolVal(False)
        if isinstance(v, VSeq):
            c = v.clen()
            return z3.BoolVal(c > 0) if c is not None else v.n > 0
        if isinstance(v, VTuple):
            return z3.BoolVal(len(v.items) > 0)
        if isinstance(v, VRef):
            k = self.kind_of(v)
            if k == 'list':
                return self.truth(self.getf(v, 'val'))
            if k == 'dict':
                return self.dict_truth(v)
            return z3.BoolVal(True)
        if isinstance(v, (VFunc, VClass, VModule, VExcClass)):
            return z3.BoolVal(True)
        if isinstance(v, VOpaque):
            if v.sort_name in self.opaque_truthy:
                return z3.BoolVal(True)
            if v.sort_name == 'fieldval':
                from .models_iso import TRUTHY
                return TRUTHY(v.t.arg(0))
        if isinstance(v, VUnknown):
            raise Unsupported('use of %r' % (v,))
        raise Unsupported('truthiness of %r' % (v,))

    opaque_truthy = {'datetime', 'logger', 'backend', 'cipher', 'regex'}

    def dict_truth(self, ref):
        d = self.getf(ref, 'val')
        if isinstance(d, dict):
            return z3.BoolVal(len(d) > 0)
        return d.truth(self)

    def as_int(self, v, what='int'):
        if isinstance(v, VInt):
            return v.t
        if isinstance(v, VBool):
            return z3.If(v.t, 1, 0)
        if isinstance(v, VBV):
            c = conc_int(v.t)
            if c is not None:
                return z3.IntVal(c)
            if v.w <= 5:
                # small bit-vector used as a python int (index, length): finite case split, no Int<->BV conversion
                for val in range(1 << v.w):
                    if self.branch(v.t == val):
                        return z3.IntVal(val)
                raise PathEnd()
            raise Unsupported('wide bit-vector int used as an unbounded int')
        if isinstance(v, VUnknown):
            raise Unsupported('use of %r' % (v,))
        raise Unsupported('%s expected, got %r' % (what, v))

    # ------------------------------------------------------------------ function calls
    def loop_ordinals(self, fi):
        if fi.qualname not in self._loop_ord_cache:
            loops = [n for n in ast.walk(fi.node) if isinstance(n, (ast.While, ast.For))]
            loops.sort(key=lambda n: (n.lineno, n.col_offset))
            self._loop_ord_cache[fi.qualname] = {id(n): i for i, n in enumerate(loops)}
        return self._loop_ord_cache[fi.qualname]

    def get_function(self, qualname):
        fi = self.program.functions.get(qualname)
        if fi is None:
            raise Unsupported('function %s is not in the tree any more: its contract cannot be attached' % qualname)
        return fi

    def ghost_function(self, src, name=None):
        """a ghost client: a few lines of spec-level Python (given as source text) executed by this same engine; its loops
        carry the induction over records / fields / histories through loop specs registered under ('ghost.<name>', ordinal)"""
        from .extract import ModuleInfo
        key = (src, name)
        if key in self._ghost_cache:
            return self._ghost_cache[key]
        tree = ast.parse(src)
        fd = [n for n in tree.body if isinstance(n, ast.FunctionDef) and (name is None or n.name == name)][0]
        mi = self._ghost_module
        if mi is None:
            mi = ModuleInfo('ghost', '<ghost>', tree, src)
            self._ghost_module = mi
        fi = FuncInfo(mi, 'ghost.' + fd.name, fd)
        self._ghost_cache[key] = fi
        return fi

    def call(self, qualname, *args, **kwargs):
        """call a real function of /repo by qualified name with V arguments"""
        fi = self.get_function(qualname)
        return self.call_ast(fi, [lift(a) for a in args], {k: lift(v) for k, v in kwargs.items()})

    def call_ast(self, fi, args, kwargs, use_contract=True):
        if use_contract and fi.qualname in self.contracts:
            return self.contracts[fi.qualname](self, args, kwargs)
        if not fi.qualname.startswith('ghost.'):
            self.func_used[fi.qualname] = fi
        node = fi.node
        for d in fi.decorators:
            if d not in ('classmethod', 'staticmethod', 'property', 'abc.abstractmethod'):
                raise Unsupported('decorator %s on %s' % (d, fi.qualname))
        locs = self.bind_args(fi, args, kwargs)
        fr = Frame(fi, fi.module, locs)
        self.frames.append(fr)
        try:
            self.exec_block(node.body, fr)
            return NONE
        except ReturnSig as r:
            return r.value
        finally:
            self.frames.pop()

    def bind_args(self, fi, args, kwargs):
        a = fi.node.args
        locs = {}
        params = [p.arg for p in a.posonlyargs + a.args]
        defaults = a.defaults
        ndef = len(defaults)
        args = list(args)
        kwargs = dict(kwargs)
        for i, p in enumerate(params):
            if i < len(args):
                locs[p] = args[i]
                if p in kwargs:
                    self.throw(TypeError, 'multiple values for argument')
            elif p in kwargs:
                locs[p] = kwargs.pop(p)
            else:
                di = i - (len(params) - ndef)
                if di < 0:
                    self.throw(TypeError, 'missing argument %s' % p)
                locs[p] = self.default_value(fi, ('pos', di), defaults[di])
        extra = args[len(params):]
        if a.vararg and '__varargs__' in kwargs:
            # ghost-level call with a symbolic-length tuple of extra positional arguments (f(*parts) for any number of parts)
            locs[a.vararg.arg] = kwargs.pop('__varargs__')
        elif a.vararg:
            locs[a.vararg.arg] = VTuple(extra)
        elif extra:
            self.throw(TypeError, 'too many positional arguments')
        for p, d in zip(a.kwonlyargs, a.kw_defaults):
            if p.arg in kwargs:
                locs[p.arg] = kwargs.pop(p.arg)
            elif d is not None:
                locs[p.arg] = self.default_value(fi, ('kw', p.arg), d)
            else:
                self.throw(TypeError, 'missing kw-only argument')
        if a.kwarg:
            locs[a.kwarg.arg] = self.new_dict({k: v for k, v in kwargs.items()})
        elif kwargs:
            self.throw(TypeError, 'unexpected keyword argument %s' % list(kwargs))
        return locs

    def default_value(self, fi, key, expr):
        """default argument values are created once, when the def statement runs: mutable defaults keep their state between calls"""
        k = (fi.qualname, key)
        if k not in self._defaults_cache:
            self._defaults_cache[k] = self.eval_in_module(expr, fi.module)
        return self._defaults_cache[k]

    def eval_in_module(self, expr, module):
        fr = Frame(None, module, {})
        self.frames.append(fr)
        try:
            return self.eval(expr, fr)
        finally:
            self.frames.pop()

    def instantiate(self, ci, args, kwargs):
        obj = self.new_cell({'__kind__': 'obj', '__class__': ci})
        init = self.program.find_method(ci, '__init__')
        if init is not None:
            self.call_ast(init, [obj] + list(args), kwargs)
        else:
            base = self.program.exc_base(ci)
            if base is not None:
                self.setf(obj, 'args', VTuple(list(args)))
            elif args or kwargs:
                self.throw(TypeError, 'object() takes no arguments')
        return obj

    def call_value(self, f, args, kwargs):
        if isinstance(f, VFunc):
            if f.kind == 'ast':
                a = list(args)
                if f.self_val is not None:
                    a = [f.self_val] + a
                return self.call_ast(f.target, a, kwargs)
            if f.kind == 'model':
                self.models_used.add(f.name)
                a = list(args)
                if f.self_val is not None:
                    a = [f.self_val] + a
                return f.target(self, a, kwargs)
        if isinstance(f, VClass):
            return self.instantiate(f.info, args, kwargs)
        if isinstance(f, VExcClass):
            return self.make_exc(f.pycls, args)
        raise Unsupported('call of %r' % (f,))

    # ------------------------------------------------------------------ name / attribute resolution
    def lookup_name(self, name, fr):
        if name in fr.locals:
            v = fr.locals[name]
            if isinstance(v, VUnknown):
                raise Unsupported('use of %r' % (v,))
            return v
        if name == '__debug__':
            return VBool(self.debug_flag)
        if name == '__name__':
            return lift(fr.module.name)
        return self.lookup_global(name, fr.module)

    def lookup_global(self, name, mod):
        if name in mod.functions:
            return VFunc('ast', mod.functions[name], name=mod.functions[name].qualname)
        if name in mod.classes:
            return VClass(mod.classes[name])
        if name in mod.assigns:
            key = (mod.name, name)
            if key not in self._globals_cache:          # module-level objects are created once (python semantics)
                self._globals_cache[key] = self.eval_in_module(mod.assigns[name], mod)
            return self._globals_cache[key]
        if name in mod.imports:
            return self.resolve_import(mod.imports[name])
        if name in self.models:
            return VFunc('model', self.models[name], name=name)
        import builtins
        if hasattr(builtins, name) and isinstance(getattr(builtins, name), type) and issubclass(getattr(builtins, name), BaseException):
            return VExcClass(getattr(builtins, name))
        raise Unsupported('unknown name %s' % name)

    def resolve_import(self, imp):
        if imp[0] == 'module':
            return VModule(imp[1])
        _, modname, attr = imp
        full = '%s.%s' % (modname, attr)
        if full in self.program.modules:
            return VModule(full)
        if modname in self.program.modules:
            return self.lookup_global(attr, self.program.modules[modname])
        return self.module_attr(modname, attr)

    def module_attr(self, modname, attr):
        full = '%s.%s' % (modname, attr)
        if modname in self.program.modules:
            m = self.program.modules[modname]
            if full in self.program.modules and attr not in m.functions and attr not in m.classes and attr not in m.assigns and attr not in m.imports:
                return VModule(full)          # sub-module of a package
            return self.lookup_global(attr, m)
        if full in self.program.modules:
            return VModule(full)
        if full in self.models:
            return VFunc('model', self.models[full], name=full)
        if full in ('struct.error',):
            return VExcClass(struct.error)
        if full in ('binascii.Error',):
            return VExcClass(binascii.Error)
        if full in ('decimal.InvalidOperation',):
            return VExcClass(decimal.InvalidOperation)
        if full in self.module_consts:
            return self.module_consts[full](self)
        return VModule(full)      # sub-module / unknown attribute: resolved lazily on use

    module_consts = {}

    def getattr_value(self, v, name, fr=None):
        if isinstance(v, VModule):
            return self.module_attr(v.name, name)
        if isinstance(v, VRef):
            c = self.heap[v.oid]
            k = c.get('__kind__')
            if k in ('obj', 'exc') and isinstance(c.get('__class__'), ClassInfo):
                if name in c:
                    val = c[name]
                    if isinstance(val, VUnknown):
                        raise Unsupported('use of %r' % (val,))
                    return val
                ci = c['__class__']
                if name == '__class__':
                    return VClass(ci)
                if name == '__dict__':
                    return self.new_dict({k2: v2 for k2, v2 in c.items() if not k2.startswith('__') and not k2.startswith('_g_')})
                m = self.program.find_method(ci, name)
                owner, aexpr = self.program.find_class_attr(ci, name)
                if m is not None:
                    if 'property' in m.decorators:
                        return self.call_ast(m, [v], {})
                    if 'staticmethod' in m.decorators:
                        return VFunc('ast', m, name=m.qualname)
                    if 'classmethod' in m.decorators:
                        return VFunc('ast', m, self_val=VClass(ci), name=m.qualname)
                    return VFunc('ast', m, self_val=v, name=m.qualname)
                if aexpr is not None:
                    return self.eval_in_module(aexpr, owner.module)
                if k == 'exc' or self.program.exc_base(ci) is not None:
                    if name == 'args':
                        return c.get('args', VTuple([]))
                ga = self.program.find_method(ci, '__getattr__')
                if ga is not None:
                    return self.call_ast(ga, [v, lift(name)], {})
                self.throw(AttributeError, name)
            mm = self.method_models.get((k, name))
            if mm is not None:
                return VFunc('model', mm, self_val=v, name='%s.%s' % (k, name))
            if name in c:
                return c[name]
            raise Unsupported('attribute %s of %s object' % (name, k))
        if isinstance(v, VClass):
            ci = v.info
            m = self.program.find_method(ci, name)
            if m is not None:
                if 'classmethod' in m.decorators:
                    return VFunc('ast', m, self_val=v, name=m.qualname)
                return VFunc('ast', m, name=m.qualname)
            owner, aexpr = self.program.find_class_attr(ci, name)
            if aexpr is not None:
                return self.eval_in_module(aexpr, owner.module)
            if name == '__name__':
                return lift(ci.name)
            raise Unsupported('class attribute %s.%s' % (ci.qualname, name))
        if isinstance(v, VSeq):
            mm = self.method_models.get((v.kind, name))
            if mm is not None:
                return VFunc('model', mm, self_val=v, name='%s.%s' % (v.kind, name))
            raise Unsupported('method %s.%s' % (v.kind, name))
        if isinstance(v, (VInt, VBV)):
            mm = self.method_models.get(('int', name))
            if mm is not None:
                return VFunc('model', mm, self_val=v, name='int.%s' % name)
        if isinstance(v, VFunc) and v.kind == 'model':
            full = '%s.%s' % (v.name, name)
            if full in self.models:
                return VFunc('model', self.models[full], name=full)
        if isinstance(v, VOpaque):
            mm = self.method_models.get((v.sort_name, name))
            if mm is not None:
                return VFunc('model', mm, self_val=v, name='%s.%s' % (v.sort_name, name))
        if isinstance(v, VUnknown):
            raise Unsupported('use of %r' % (v,))
        raise Unsupported('attribute %s of %r' % (name, v))

    def setattr_value(self, obj, name, val):
        if isinstance(obj, VRef) and self.kind_of(obj) in ('obj', 'exc'):
            self.setf(obj, name, val)
            return
        raise Unsupported('attribute store on %r' % (obj,))

    # ------------------------------------------------------------------ statements
    def exec_block(self, stmts, fr):
        for s in stmts:
            self.exec_stmt(s, fr)

    def exec_stmt(self, s, fr):
        m = getattr(self, 'st_' + type(s).__name__, None)
        if m is None:
            raise Unsupported('statement %s at %s:%s' % (type(s).__name__, fr.module.name, s.lineno))
        return m(s, fr)

    def st_Pass(self, s, fr):
        pass

    def st_Expr(self, s, fr):
        self.eval(s.value, fr)

    def st_Return(self, s, fr):
        raise ReturnSig(self.eval(s.value, fr) if s.value is not None else NONE)

    def st_Break(self, s, fr):
        raise BreakSig()

    def st_Continue(self, s, fr):
        raise ContinueSig()

    def st_Import(self, s, fr):
        for a in s.names:
            fr.locals[(a.asname or a.name).split('.')[0]] = VModule(a.name if a.asname else a.name.split('.')[0])

    def st_ImportFrom(self, s, fr):
        for a in s.names:
            fr.locals[a.asname or a.name] = self.resolve_import(('from', s.module, a.name))

    def st_Assign(self, s, fr):
        v = self.eval(s.value, fr)
        for t in s.targets:
            self.assign(t, v, fr)

    def st_AnnAssign(self, s, fr):
        if s.value is not None:
            self.assign(s.target, self.eval(s.value, fr), fr)

    def st_AugAssign(self, s, fr):
        t = s.target
        if isinstance(t, ast.Name):
            cur = self.lookup_name(t.id, fr)
            r = self.aug(cur, s.op, self.eval(s.value, fr))
            if r is not None:
                fr.locals[t.id] = r
        elif isinstance(t, ast.Attribute):
            obj = self.eval(t.value, fr)
            cur = self.getattr_value(obj, t.attr, fr)
            r = self.aug(cur, s.op, self.eval(s.value, fr))
            if r is not None:
                self.setattr_value(obj, t.attr, r)
        elif isinstance(t, ast.Subscript):
            obj = self.eval(t.value, fr)
            idx = self.eval_index(t.slice, fr)
            cur = self.subscript(obj, idx)
            r = self.aug(cur, s.op, self.eval(s.value, fr))
            if r is not None:
                self.store_subscript(obj, idx, r)
        else:
            raise Unsupported('augmented assignment target')

    def aug(self, cur, op, val):
        """returns new value, or None when mutated in place"""
        if isinstance(cur, VRef) and self.kind_of(cur) == 'list' and isinstance(op, ast.Add):
            self.setf(cur, 'val', seq_concat(self.getf(cur, 'val'), self.list_val(val)))
            return None
        return self.binop(cur, op, val)

    def assign(self, t, v, fr):
        if isinstance(t, ast.Name):
            fr.locals[t.id] = v
        elif isinstance(t, ast.Attribute):
            self.setattr_value(self.eval(t.value, fr), t.attr, v)
        elif isinstance(t, ast.Subscript):
            obj = self.eval(t.value, fr)
            self.store_subscript(obj, self.eval_index(t.slice, fr), v)
        elif isinstance(t, (ast.Tuple, ast.List)):
            items = self.unpack(v, len(t.elts))
            for te, ve in zip(t.elts, items):
                self.assign(te, ve, fr)
        else:
            raise Unsupported('assignment target %s' % type(t).__name__)

    def unpack(self, v, n):
        if isinstance(v, VTuple):
            items = v.items
        else:
            sq = self.list_val(v)
            c = sq.clen()
            if c is None:
                raise Unsupported('unpacking symbolic-length sequence')
            items = [self.seq_elem_value(sq, z3.IntVal(i)) for i in range(c)]
        if len(items) != n:
            self.throw(ValueError, 'unpack')
        return items

    def st_If(self, s, fr):
        c = self.truth(self.eval(s.test, fr))
        if bool_lit(c) is None and self.merge_ifs:
            d = self.decide(c)
            if d is None:
                if self._try_merge_if(s, fr, c):
                    return
            else:
                c = z3.BoolVal(d)
        if self.branch(c):
            self.exec_block(s.body, fr)
        else:
            self.exec_block(s.orelse, fr)

    def st_Match(self, s, fr):
        """match on constants / or-patterns / capture-all only (what an if/elif chain on constants turns into)"""
        subj = self.eval(s.subject, fr)

        def pat_cond(p):
            if isinstance(p, ast.MatchValue):
                return self.compare(subj, ast.Eq(), self.eval(p.value, fr))
            if isinstance(p, ast.MatchSingleton):
                return self.compare(subj, ast.Is(), lift(p.value))
            if isinstance(p, ast.MatchOr):
                return z3.Or(*[B(pat_cond(q)) for q in p.patterns])
            if isinstance(p, ast.MatchAs) and p.pattern is None:
                if p.name is not None:
                    fr.locals[p.name] = subj
                return z3.BoolVal(True)
            raise Unsupported('match pattern %s' % type(p).__name__)
        for case in s.cases:
            c = B(pat_cond(case.pattern))
            if case.guard is not None:
                if not self.branch(c):
                    continue
                if not self.branch(self.truth(self.eval(case.guard, fr))):
                    continue
                self.exec_block(case.body, fr)
                return
            if self.branch(c):
                self.exec_block(case.body, fr)
                return

    def ex_NamedExpr(self, e, fr):
        v = self.eval(e.value, fr)
        self.assign(e.target, v, fr)
        return v

    def st_Assert(self, s, fr):
        if not self.debug_flag:
            return
        if not self.branch(self.truth(self.eval(s.test, fr))):
            args = [self.eval(s.msg, fr)] if s.msg is not None else []
            raise PyRaise(self.make_exc(AssertionError, args))

    def st_Raise(self, s, fr):
        if s.exc is None:
            raise Unsupported('bare raise')
        v = self.eval(s.exc, fr)
        if isinstance(v, (VClass, VExcClass)):
            v = self.call_value(v, [], {})
        if not isinstance(v, VRef):
            raise Unsupported('raise of %r' % (v,))
        raise PyRaise(v)

    def st_Try(self, s, fr):
        try:
            try:
                self.exec_block(s.body, fr)
            except PyRaise as pr:
                for h in s.handlers:
                    if h.type is None or self.exc_matches(pr.exc, self.eval(h.type, fr)):
                        if h.name:
                            fr.locals[h.name] = pr.exc
                        self.exec_block(h.body, fr)
                        break
                else:
                    raise
            else:
                self.exec_block(s.orelse, fr)
        finally:
            # NB: runs for every python-level signal incl. PathEnd, which is harmless (state is discarded)
            if s.finalbody:
                import sys
                et = sys.exc_info()[0]
                if et is None or not issubclass(et, (PathEnd, Unsupported, CheckerError)):
                    self.exec_block(s.finalbody, fr)

    def st_With(self, s, fr):
        if len(s.items) != 1:
            # nest
            inner = ast.With(items=s.items[1:], body=s.body)
            ast.copy_location(inner, s)
            outer = ast.With(items=s.items[:1], body=[inner])
            ast.copy_location(outer, s)
            return self.st_With(outer, fr)
        item = s.items[0]
        mgr = self.eval(item.context_expr, fr)
        enter = self.getattr_value(mgr, '__enter__', fr)
        exit_ = self.getattr_value(mgr, '__exit__', fr)
        val = self.call_value(enter, [], {})
        if item.optional_vars is not None:
            self.assign(item.optional_vars, val, fr)
        try:
            self.exec_block(s.body, fr)
        except PyRaise as pr:
            r = self.call_value(exit_, [VClass(self.exc_class(pr.exc)) if isinstance(self.exc_class(pr.exc), ClassInfo) else VExcClass(self.exc_class(pr.exc)), pr.exc, NONE], {})
            if self.branch(self.truth(r)):
                return
            raise
        except (ReturnSig, BreakSig, ContinueSig):
            self.call_value(exit_, [NONE, NONE, NONE], {})
            raise
        self.call_value(exit_, [NONE, NONE, NONE], {})

    def st_FunctionDef(self, s, fr):
        raise Unsupported('nested function definition')

    def st_Delete(self, s, fr):
        for t in s.targets:
            if isinstance(t, ast.Subscript):
                obj = self.eval(t.value, fr)
                idx = self.eval_index(t.slice, fr)
                self.delete_subscript(obj, idx)
            else:
                raise Unsupported('del target')

    # ---- loops
    def loop_spec_for(self, s, fr):
        if fr.func is None:
            return getattr(s, '_pyvc_spec', None)
        ordn = self.loop_ordinals(fr.func).get(id(s))
        return self.loop_specs.get((fr.func.qualname, ordn))

    def st_While(self, s, fr):
        spec = self.loop_spec_for(s, fr)
        if spec is not None:
            return self.run_spec_loop(s, fr, spec, None)
        n = 0
        while True:
            if not self.branch(self.truth(self.eval(s.test, fr))):
                self.exec_block(s.orelse, fr)
                return
            n += 1
            if n > MAX_UNROLL:
                raise Unsupported('while loop without spec not bounded by unrolling (%s:%d)' % (fr.module.name, s.lineno))
            try:
                self.exec_block(s.body, fr)
            except BreakSig:
                return
            except ContinueSig:
                continue

    def st_For(self, s, fr):
        spec = self.loop_spec_for(s, fr)
        it = self.eval(s.iter, fr)
        if spec is not None:
            return self.run_spec_loop(s, fr, spec, it)
        if isinstance(it, VRef) and self.kind_of(it) in ('obj',):
            # iterator protocol on a verified object: bounded unrolling
            nxt_owner = it
            n = 0
            while True:
                n += 1
                if n > MAX_UNROLL:
                    raise Unsupported('iterator loop not bounded')
                try:
                    v = self.call_value(self.getattr_value(nxt_owner, '__next__', fr), [], {})
                except PyRaise as pr:
                    if self.exc_is(pr.exc, StopIteration):
                        break
                    raise
                self.assign(s.target, v, fr)
                try:
                    self.exec_block(s.body, fr)
                except BreakSig:
                    return
                except ContinueSig:
                    continue
            self.exec_block(s.orelse, fr)
            return
        items = self.iter_items(it)
        for v in items:
            self.assign(s.target, v, fr)
            try:
                self.exec_block(s.body, fr)
            except BreakSig:
                return
            except ContinueSig:
                continue
        self.exec_block(s.orelse, fr)

    def iter_items(self, it):
        """python list of V for a concrete-length iterable"""
        if isinstance(it, VTuple):
            return list(it.items)
        if isinstance(it, VRef) and self.kind_of(it) == 'dict':
            d = self.getf(it, 'val')
            if isinstance(d, dict):
                return [self.key_value(k) for k in d]
            return d.iter_keys(self)
        if isinstance(it, VRef) and self.kind_of(it) == 'iter':
            return list(self.getf(it, 'items'))
        sq = self.fix_len(self.list_val(it))
        c = sq.clen()
        if c is None:
            raise Unsupported('iteration over symbolic-length sequence without loop spec')
        if c > 4 * MAX_UNROLL:
            raise Unsupported('iteration too long to unroll')
        return [self.seq_elem_value(sq, z3.IntVal(i)) for i in range(c)]

    def seq_elem_value(self, sq, i):
        """element of a sequence as a python-level value (bytes -> int, str -> 1-char str)"""
        e = sq.at(i)
        if sq.kind == 'list':
            return e
        if sq.kind == 'bytes':
            return VInt(e) if not isinstance(e, int) else VInt(e)
        return seq_items('str', [e])

    def key_value(self, k):
        return lift(k)

    # keys in loop-spec state dicts: 'x' (local) or 'a.b.c' (attribute path starting at a local)
    def read_path(self, key, fr):
        parts = key.split('.')
        v = fr.locals.get(parts[0])
        if v is None:
            raise Unsupported('loop invariant names the local %s, which the loop no longer has (invariant does not match the code)' % parts[0])
        for p in parts[1:]:
            v = self.heap[v.oid][p]
        if isinstance(v, VRef) and self.kind_of(v) == 'list':
            v = self.getf(v, 'val')
        return v

    def write_path(self, key, val, fr):
        parts = key.split('.')
        if len(parts) == 1:
            cur = fr.locals.get(key)
            if isinstance(cur, VRef) and self.kind_of(cur) == 'list' and isinstance(val, VSeq):
                self.setf(cur, 'val', val)
            elif isinstance(val, VSeq) and val.kind == 'list':
                fr.locals[key] = self.new_list(val)
            else:
                fr.locals[key] = val
            return
        v = fr.locals[parts[0]]
        for p in parts[1:-1]:
            v = self.heap[v.oid][p]
        cur = self.heap[v.oid].get(parts[-1])
        if isinstance(cur, VRef) and self.kind_of(cur) == 'list' and isinstance(val, VSeq):
            self.setf(cur, 'val', val)
        else:
            self.setf(v, parts[-1], val)

    def assigned_names(self, stmts):
        out = set()
        for st in stmts:
            for n in ast.walk(st):
                if isinstance(n, ast.Name) and isinstance(n.ctx, ast.Store):
                    out.add(n.id)
        return out

    def run_spec_loop(self, s, fr, spec, it):
        """cut a loop by its sidecar spec (DESIGN 4.3)"""
        qn = fr.func.qualname if fr.func is not None else 'ghost'
        ordn = self.loop_ordinals(fr.func).get(id(s)) if fr.func is not None else 0
        tag = '%s#loop%s' % (qn.split('.', 1)[-1], ordn)
        tier = 'I'
        is_for = isinstance(s, ast.For)
        seq = None
        if is_for:
            seq = self.list_val(it)
        pre = Snapshot(fr.locals, self.heap)
        ctx = LoopCtx(self, fr, pre, seq)
        # 1. entry
        g0 = spec.entry(ctx)
        if is_for:
            g0 = dict(g0)
            g0.setdefault('i', z3.IntVal(0))
        for k, c in enumerate(spec.side(ctx, g0)):
            self.prove('%s/inv-entry/side%d' % (tag, k), c, tier, 'inv-entry')
        st0 = spec.state(ctx, g0)
        for key, val in st0.items():
            self.prove_value_eq('%s/inv-entry/%s' % (tag, key), self.read_path(key, fr), val, tier, 'inv-entry')
        # 2. havoc
        g = {}
        for name in spec.ghosts:
            srt = getattr(spec, 'ghost_sorts', {}).get(name)
            g[name] = self.fresh_int('g_' + name) if srt is None else z3.Const(self.fresh_name('g_' + name), srt)
        if is_for:
            g.setdefault('i', self.fresh_int('g_i'))
            self.assume(g['i'] >= 0)
            self.assume(g['i'] <= seq.n)
        for c in spec.side(ctx, g):
            self.assume(c)
        st = spec.state(ctx, g)
        modified = self.assigned_names(s.body) | (self.assigned_names([s.target]) if is_for else set())
        hv_keys = set(spec.havoc_keys) if hasattr(spec, 'havoc_keys') else set()
        for name in modified:
            if name not in st and name not in hv_keys:
                fr.locals[name] = VUnknown('%s assigned in %s, not in loop spec' % (name, tag))
        for key, val in st.items():
            self.write_path(key, val, fr)
        # variables about which the invariant says nothing: fresh values of the right shape, no obligations
        hv = spec.havoc(ctx, g) if hasattr(spec, 'havoc') else {}
        for key, val in hv.items():
            self.write_path(key, val, fr)
        st = dict(st)
        st.update({k: None for k in hv})
        if hasattr(spec, 'facts'):
            for c in spec.facts(ctx, g):
                self.assume(c)
        head = Snapshot(fr.locals, self.heap)
        v0 = None
        if is_for:
            test = g['i'] < seq.n
            v0 = seq.n - g['i']
        else:
            test = self.truth(self.eval(s.test, fr))
            if getattr(spec, 'variant', None) is not None:
                v0 = spec.variant(ctx, g)
        self.cover(tag + '/head')
        if self.branch(test):
            self.cover(tag + '/body')
            if is_for:
                self.assign(s.target, self.seq_elem_value(seq, g['i']), fr)
            try:
                self.exec_block(s.body, fr)
            except BreakSig:
                self.check_loop_frame(head, st, fr, tag, modified)
                return
            except ContinueSig:
                pass
            # 3. preservation
            g1 = spec.step(ctx, g)
            if is_for:
                g1 = dict(g1)
                g1['i'] = g['i'] + 1
            for k, c in enumerate(spec.side(ctx, g1)):
                self.prove('%s/inv-preserve/side%d' % (tag, k), c, tier, 'inv-preserve')
            st1 = spec.state(ctx, g1)
            for key, val in st1.items():
                self.prove_value_eq('%s/inv-preserve/%s' % (tag, key), self.read_path(key, fr), val, tier, 'inv-preserve')
            if not is_for:
                if v0 is None:
                    if not getattr(spec, 'terminates_by_exception_only', False):
                        raise CheckerError('loop spec %s has no variant' % tag)
                else:
                    ctx2 = LoopCtx(self, fr, pre, seq)
                    v1 = spec.variant(ctx2, g1)
                    self.prove('%s/variant/bounded' % tag, v0 >= 0, 'P' if getattr(spec, 'variant_tier', 'I') == 'P' else tier, 'variant')
                    self.prove('%s/variant/decreases' % tag, v1 < v0, 'P' if getattr(spec, 'variant_tier', 'I') == 'P' else tier, 'variant')
            self.check_loop_frame(head, st, fr, tag, modified)
            raise PathEnd()
        else:
            self.cover(tag + '/exit')
            self.ghost.setdefault('loop_ghosts', {})[tag] = dict(g)      # ghost values at loop exit, for the unit's postconditions
            self.exec_block(s.orelse, fr)

    def check_loop_frame(self, head, st, fr, tag, modified):
        """no heap field outside the loop spec's keys may be changed by the body"""
        keys = set(st.keys())
        allowed = set()
        for key in keys:
            parts = key.split('.')
            if len(parts) > 1:
                v = head.locals[parts[0]]
                for p in parts[1:-1]:
                    v = head.heap[v.oid][p]
                allowed.add((v.oid, parts[-1]))
            else:
                v = head.locals.get(key)
                if isinstance(v, VRef):
                    allowed.add((v.oid, 'val'))
        for oid, cellv in head.heap.items():
            now = self.heap.get(oid)
            if now is None:
                continue
            for f, old in cellv.items():
                if (oid, f) in allowed:
                    continue
                if now.get(f) is not old:
                    raise Unsupported('%s: heap field %s.%s modified in loop body but not in loop spec' % (tag, oid, f))
            for f in now:
                if f not in cellv and (oid, f) not in allowed:
                    raise Unsupported('%s: heap field %s.%s created in loop body but not in loop spec' % (tag, oid, f))

    # ------------------------------------------------------------------ expressions
    def eval(self, e, fr):
        m = getattr(self, 'ex_' + type(e).__name__, None)
        if m is None:
            raise Unsupported('expression %s at %s:%s' % (type(e).__name__, fr.module.name, getattr(e, 'lineno', '?')))
        return m(e, fr)

    def ex_Constant(self, e, fr):
        v = e.value
        if v is Ellipsis:
            raise Unsupported('Ellipsis')
        return lift(v)

    def ex_Name(self, e, fr):
        return self.lookup_name(e.id, fr)

    def ex_Attribute(self, e, fr):
        return self.getattr_value(self.eval(e.value, fr), e.attr, fr)

    def ex_Tuple(self, e, fr):
        return VTuple(self.eval_elts(e.elts, fr))

    def ex_List(self, e, fr):
        return self.new_list(seq_items('list', self.eval_elts(e.elts, fr)))

    def eval_elts(self, elts, fr):
        out = []
        for x in elts:
            if isinstance(x, ast.Starred):
                out.extend(self.iter_items(self.eval(x.value, fr)))
            else:
                out.append(self.eval(x, fr))
        return out

    def ex_Dict(self, e, fr):
        d = {}
        for k, v in zip(e.keys, e.values):
            if k is None:
                src = self.eval(v, fr)
                sd = self.getf(src, 'val')
                if not isinstance(sd, dict):
                    raise Unsupported('** of symbolic dict in dict display')
                d.update(sd)
            else:
                d[self.dict_key(self.eval(k, fr))] = self.eval(v, fr)
        return self.new_dict(d)

    def dict_key(self, kv):
        """hashable python key for a concrete dict"""
        if isinstance(kv, VSeq):
            s = conc_str(kv)
            if s is None:
                raise Unsupported('symbolic dict key')
            return s
        if isinstance(kv, VInt):
            c = kv.conc()
            if c is None:
                raise Unsupported('symbolic int dict key')
            return c
        if isinstance(kv, VTuple):
            return tuple(self.dict_key(x) for x in kv.items)
        if kv is NONE:
            return None
        raise Unsupported('dict key %r' % (kv,))

    def ex_UnaryOp(self, e, fr):
        v = self.eval(e.operand, fr)
        if isinstance(e.op, ast.Not):
            return VBool(z3.simplify(z3.Not(self.truth(v))))
        if isinstance(e.op, ast.USub):
            return VInt(z3.simplify(-self.as_int(v)))
        if isinstance(e.op, ast.UAdd):
            return VInt(self.as_int(v))
        raise Unsupported('unary op')

    def ex_BoolOp(self, e, fr):
        # python semantics: returns one of the operands; short-circuit evaluation
        is_and = isinstance(e.op, ast.And)
        v = self.eval(e.values[0], fr)
        for nxt in e.values[1:]:
            t = self.truth(v)
            if is_and:
                if not self.branch(t):
                    return v
            else:
                if self.branch(t):
                    return v
            v = self.eval(nxt, fr)
        return v

    def ex_IfExp(self, e, fr):
        c = self.truth(self.eval(e.test, fr))
        if bool_lit(c) is None and self._simple_expr(e.body) and self._simple_expr(e.orelse):
            # both arms are side-effect free: evaluate both and merge instead of forking the path
            try:
                saved = self.no_fork
                self.no_fork = True
                try:
                    a = self.eval(e.body, fr)
                    b = self.eval(e.orelse, fr)
                finally:
                    self.no_fork = saved
                return merge_values(c, a, b)
            except (Unsupported, PyRaise):
                pass
        if self.branch(c):
            return self.eval(e.body, fr)
        return self.eval(e.orelse, fr)

    def _simple_expr(self, e):
        return isinstance(e, (ast.Constant, ast.Name)) or (isinstance(e, ast.UnaryOp) and self._simple_expr(e.operand))

    # ---- if-merging: a symbolic `if` whose arms only assign is executed on both sides and the states are merged
    def _try_merge_if(self, s, fr, c):
        if self.no_fork:
            return False
        snap_loc = dict(fr.locals)
        snap_heap = dict(self.heap)
        snap_pc = (list(self.pc), set(self._pc_ids))
        snap_obs = len(self.obligations)
        snap_misc = (self._oid, dict(self._fresh), len(self.worklist_add), len(self.decisions), list(self.stdout), dict(self.ghost), len(self.sigmas))
        results = []
        ok = True
        for arm, cond in ((s.body, c), (s.orelse, z3.Not(c))):
            fr.locals.clear()
            fr.locals.update(snap_loc)
            self.heap = dict(snap_heap)
            self.pc, self._pc_ids = list(snap_pc[0]), set(snap_pc[1])
            self.fact(cond)
            self.no_fork = True
            try:
                self.exec_block(arm, fr)
            except (Unsupported, PyRaise, ReturnSig, BreakSig, ContinueSig, PathEnd) as ex:
                ok = False
                if self.trace_merge:
                    print('merge abort at line', s.lineno, type(ex).__name__, str(ex)[:100])
            finally:
                self.no_fork = False
            if not ok or len(self.stdout) != len(snap_misc[4]) or len(self.decisions) != snap_misc[3] or len(self.worklist_add) != snap_misc[2]:
                ok = False
                break
            results.append((dict(fr.locals), dict(self.heap), list(self.pc)))
        if ok:
            (lt, ht, pct), (lf, hf, pcf) = results
            try:
                merged_loc = {}
                for k in set(lt) | set(lf):
                    if k in lt and k in lf:
                        merged_loc[k] = lt[k] if lt[k] is lf[k] else merge_values(c, lt[k], lf[k])
                    else:
                        merged_loc[k] = VUnknown('%s assigned on one side of a merged if' % k)
                merged_heap = {}
                for oid in set(ht) | set(hf):
                    a, b = ht.get(oid), hf.get(oid)
                    if a is None or b is None:
                        merged_heap[oid] = a if b is None else b      # object created on one side only (unreachable from the other)
                        continue
                    if a is b:
                        merged_heap[oid] = a
                        continue
                    cell = {}
                    for f in set(a) | set(b):
                        if f not in a or f not in b:
                            raise Unsupported('field created on one side of a merged if')
                        cell[f] = a[f] if a[f] is b[f] else merge_values(c, a[f], b[f]) if isinstance(a[f], V) and isinstance(b[f], V) else self._same_or_fail(a[f], b[f])
                    merged_heap[oid] = cell
            except Unsupported:
                ok = False
        if not ok:
            # roll back completely and let the caller fork
            fr.locals.clear()
            fr.locals.update(snap_loc)
            self.heap = dict(snap_heap)
            self.pc, self._pc_ids = snap_pc
            del self.obligations[snap_obs:]
            self._oid, self._fresh = snap_misc[0], snap_misc[1]
            del self.worklist_add[snap_misc[2]:]
            self.stdout = snap_misc[4]
            self.ghost = snap_misc[5]
            del self.sigmas[snap_misc[6]:]
            return False
        fr.locals.clear()
        fr.locals.update(merged_loc)
        self.heap = merged_heap
        # universally valid facts discovered in either arm are kept, the arm conditions themselves are not
        self.pc, self._pc_ids = snap_pc
        cid, ncid = c.get_id(), None
        for f in pct + pcf:
            if f.get_id() in self._pc_ids:
                continue
            if f.eq(c) or (z3.is_not(f) and f.arg(0).eq(c)):
                continue
            self.fact(f)
        return True

    def _same_or_fail(self, a, b):
        if a == b:
            return a
        raise Unsupported('non-value field differs across a merged if')

    def ex_Compare(self, e, fr):
        left = self.eval(e.left, fr)
        res = None
        for op, rexp in zip(e.ops, e.comparators):
            right = self.eval(rexp, fr)
            c = self.compare(left, op, right)
            res = c if res is None else z3.And(res, c)
            left = right
        return VBool(z3.simplify(res))

    def compare(self, a, op, b):
        if isinstance(a, VUnknown) or isinstance(b, VUnknown):
            raise Unsupported('use of unknown')
        if isinstance(op, (ast.Eq, ast.NotEq)) and (isinstance(a, VOpaque) and a.sort_name == 'fieldval' or isinstance(b, VOpaque) and b.sort_name == 'fieldval'):
            fv, other = (a, b) if isinstance(a, VOpaque) and a.sort_name == 'fieldval' else (b, a)
            if isinstance(other, VInt) and other.conc() == 0:
                from .models_iso import ISZERO
                c = ISZERO(fv.t.arg(0))
                return c if isinstance(op, ast.Eq) else z3.Not(c)
            raise Unsupported('comparison of an abstract message value with %r' % (other,))
        if isinstance(op, (ast.Eq, ast.NotEq)) and (isinstance(a, VOpaque) and a.sort_name == 'cfgval' or isinstance(b, VOpaque) and b.sort_name == 'cfgval'):
            cv, other = (a, b) if isinstance(a, VOpaque) and a.sort_name == 'cfgval' else (b, a)
            from .models_iso import CFGEQ
            cs = conc_str(other) if isinstance(other, VSeq) else None
            if cs is None:
                raise Unsupported('comparison of an abstract configuration value with %r' % (other,))
            c = CFGEQ(cv.t, z3.IntVal(abs(hash(cs)) % (10 ** 9)) if False else z3.IntVal(sum(ord(ch) * 131 ** i for i, ch in enumerate(cs)) % (10 ** 12)))
            return c if isinstance(op, ast.Eq) else z3.Not(c)
        if isinstance(op, (ast.Eq, ast.NotEq)):
            a2 = self.list_val(a) if isinstance(a, VRef) and self.kind_of(a) == 'list' else a
            b2 = self.list_val(b) if isinstance(b, VRef) and self.kind_of(b) == 'list' else b
            c = value_eq_bool(a2, b2)
            return c if isinstance(op, ast.Eq) else z3.Not(c)
        if isinstance(op, (ast.Is, ast.IsNot)):
            if a is NONE or b is NONE:
                c = z3.BoolVal(a is b)
            elif isinstance(a, VBool) and isinstance(b, VBool):
                c = a.t == b.t
            elif isinstance(a, VRef) and isinstance(b, VRef):
                c = z3.BoolVal(a.oid == b.oid)
            elif isinstance(a, VBool) != isinstance(b, VBool):
                c = z3.BoolVal(False)
            else:
                raise Unsupported('`is` on %r / %r' % (a, b))
            return c if isinstance(op, ast.Is) else z3.Not(c)
        if isinstance(op, (ast.In, ast.NotIn)):
            c = self.contains(b, a)
            return c if isinstance(op, ast.In) else z3.Not(c)
        if isinstance(a, VBV) or isinstance(b, VBV):
            raise Unsupported('ordering on bit-vector int')
        x, y = self.as_int(a, 'ordered comparison'), self.as_int(b, 'ordered comparison')
        if isinstance(op, ast.Lt):
            return x < y
        if isinstance(op, ast.LtE):
            return x <= y
        if isinstance(op, ast.Gt):
            return x > y
        if isinstance(op, ast.GtE):
            return x >= y
        raise Unsupported('comparison op')

    def contains(self, container, item):
        if isinstance(container, VRef) and self.kind_of(container) == 'dict':
            d = self.getf(container, 'val')
            if isinstance(d, dict):
                if isinstance(item, VSeq) and conc_str(item) is None:
                    # symbolic key against concrete key set
                    return z3.Or(*[value_eq_bool(item, lift(k)) for k in d if isinstance(k, (str, bytes))]) if d else z3.BoolVal(False)
                return z3.BoolVal(self.dict_key(item) in d)
            return d.contains(self, item)
        if isinstance(container, VTuple):
            return z3.Or(*[value_eq_bool(item, x) for x in container.items]) if container.items else z3.BoolVal(False)
        sq = self.list_val(container)
        if sq.kind == 'list':
            c = sq.clen()
            if c is None:
                raise Unsupported('`in` on symbolic-length list')
            if c == 0:
                return z3.BoolVal(False)
            return z3.Or(*[value_eq_bool(item, sq.at(z3.IntVal(i))) for i in range(c)])
        # substring test on str/bytes: supported for concrete-length haystack and needle
        if isinstance(item, VSeq):
            ch, cn = sq.clen(), item.clen()
            if ch is not None and cn is not None:
                if cn == 0:
                    return z3.BoolVal(True)
                alts = []
                for off in range(ch - cn + 1):
                    alts.append(z3.And(*[elem_eq(sq.at(z3.IntVal(off + k)), item.at(z3.IntVal(k))) for k in range(cn)]))
                return z3.Or(*alts) if alts else z3.BoolVal(False)
        if isinstance(item, VInt) and sq.kind == 'bytes':
            ch = sq.clen()
            if ch is not None:
                return z3.Or(*[elem_eq(sq.at(z3.IntVal(k)), item.t) for k in range(ch)]) if ch else z3.BoolVal(False)
        raise Unsupported('`in` on %r' % (container,))

    def ex_BinOp(self, e, fr):
        return self.binop(self.eval(e.left, fr), e.op, self.eval(e.right, fr))

    def binop(self, a, op, b):
        if isinstance(a, VUnknown) or isinstance(b, VUnknown):
            raise Unsupported('use of unknown value')
        if isinstance(a, VRef) and self.kind_of(a) == 'list':
            a = self.getf(a, 'val')
            if isinstance(op, ast.Add):
                return self.new_list(seq_concat(a, self.list_val(b)))
            if isinstance(op, ast.Mult):
                return self.new_list(seq_repeat(a, self.as_int(b)))
        if isinstance(a, VSeq) and isinstance(b, VSeq) and isinstance(op, ast.Add):
            if a.kind != b.kind:
                self.throw(TypeError, 'can only concatenate same kinds')
            return seq_concat(a, b)
        if isinstance(a, VTuple) and isinstance(b, VTuple) and isinstance(op, ast.Add):
            return VTuple(a.items + b.items)
        if isinstance(a, VTuple) and isinstance(op, ast.Mult) and conc_int(self.as_int(b)) is not None:
            return VTuple(a.items * max(0, conc_int(self.as_int(b))))
        if isinstance(b, VTuple) and isinstance(op, ast.Mult) and conc_int(self.as_int(a)) is not None:
            return VTuple(b.items * max(0, conc_int(self.as_int(a))))
        if isinstance(a, VSeq) and isinstance(op, ast.Mult):
            return seq_repeat(self.fix_len(a), self.as_int(b))
        if isinstance(b, VSeq) and isinstance(op, ast.Mult):
            return seq_repeat(self.fix_len(b), self.as_int(a))
        if isinstance(a, VSeq) and a.kind == 'str' and isinstance(op, ast.Mod):
            raise Unsupported('%-formatting')
        if isinstance(a, VBV) or isinstance(b, VBV):
            small = all((not isinstance(v, VBV)) or v.w <= 5 or conc_int(v.t) is not None for v in (a, b))
            if isinstance(a, VBV) and isinstance(op, ast.Sub) and isinstance(b, VInt) and b.conc() is not None and 0 <= b.conc() < (1 << a.w) \
                    and conc_int(a.t) is None and self.decide(z3.UGE(a.t, b.conc())) is True:
                return VBV(z3.simplify(a.t - z3.BitVecVal(b.conc(), a.w)))      # no underflow: stays a bit-vector int
            if small and isinstance(op, (ast.Add, ast.Sub, ast.Mult, ast.FloorDiv, ast.Mod)) and not (isinstance(a, VBV) and isinstance(b, VBV)):
                # a small bit-vector int in ordinary arithmetic: finite case split to a python int
                return self.binop(VInt(self.as_int(a)), op, VInt(self.as_int(b)))
            return self.bv_binop(a, op, b)
        if isinstance(a, VSeq) or isinstance(b, VSeq) or a is NONE or b is NONE:
            self.throw(TypeError, 'unsupported operand types')
        x, y = self.as_int(a), self.as_int(b)
        if isinstance(op, ast.Add):
            return VInt(z3.simplify(x + y))
        if isinstance(op, ast.Sub):
            return VInt(z3.simplify(x - y))
        if isinstance(op, ast.Mult):
            return VInt(z3.simplify(x * y))
        if isinstance(op, (ast.FloorDiv, ast.Mod)):
            if self.branch(y == 0):
                self.throw(ZeroDivisionError, 'division by zero')
            cy = conc_int(y)
            if cy is not None and cy > 0:
                return VInt(z3.simplify(x / y if isinstance(op, ast.FloorDiv) else x % y))
            # python floor semantics for general divisor
            q = self.py_floordiv(x, y)
            return VInt(q if isinstance(op, ast.FloorDiv) else z3.simplify(x - q * y))
        if isinstance(op, ast.Pow):
            cx, cy = conc_int(x), conc_int(y)
            if cx is not None and cy is not None and cy >= 0:
                return VInt(cx ** cy)
            raise Unsupported('symbolic **')
        if isinstance(op, (ast.BitXor, ast.BitAnd, ast.BitOr, ast.LShift, ast.RShift)):
            cx, cy = conc_int(x), conc_int(y)
            if cx is not None and cy is not None:
                import operator
                f = {ast.BitXor: operator.xor, ast.BitAnd: operator.and_, ast.BitOr: operator.or_,
                     ast.LShift: operator.lshift, ast.RShift: operator.rshift}[type(op)]
                return VInt(f(cx, cy))
            raise Unsupported('bit operation on unbounded symbolic ints')
        raise Unsupported('binary op %s' % type(op).__name__)

    def py_floordiv(self, x, y):
        # z3 Int div rounds so that remainder is non-negative; python floors
        return z3.simplify(z3.If(y > 0, x / y, -((-x) / (-y)) if False else z3.If((x % y) == 0, x / y, z3.If(y > 0, x / y, x / y - 1 + 1 - 1 + 0))))

    def bv_binop(self, a, op, b):
        def tobv(v, w):
            if isinstance(v, VBV):
                return z3.ZeroExt(w - v.w, v.t) if v.w < w else v.t
            c = conc_int(self.as_int(v))
            if c is None or c < 0 or c >= (1 << w):
                raise Unsupported('mixing symbolic Int with bit-vector int')
            return z3.BitVecVal(c, w)
        w = max(v.w for v in (a, b) if isinstance(v, VBV))
        x, y = tobv(a, w), tobv(b, w)
        if isinstance(op, ast.BitXor):
            return VBV(z3.simplify(x ^ y))
        if isinstance(op, ast.BitAnd):
            return VBV(z3.simplify(x & y))
        if isinstance(op, ast.BitOr):
            return VBV(z3.simplify(x | y))
        if isinstance(op, ast.Sub):
            if self.feasible(z3.ULT(x, y)):
                raise Unsupported('bit-vector int subtraction may go negative')
            return VBV(z3.simplify(x - y))
        if isinstance(op, ast.RShift):
            cy = conc_int(self.as_int(b)) if not isinstance(b, VBV) else conc_int(b.t)
            if cy is not None and 0 <= cy:
                return VBV(z3.simplify(z3.LShR(x, z3.BitVecVal(min(cy, w), w)))) if cy < w else VBV(z3.BitVecVal(0, w))
        if isinstance(op, ast.LShift) and isinstance(a, VBV):
            cy = conc_int(self.as_int(b)) if not isinstance(b, VBV) else conc_int(b.t)
            if cy is not None and 0 <= cy <= 512:
                # python ints do not overflow: the result is cy bits wider
                return VBV(z3.simplify(z3.Concat(a.t, z3.BitVecVal(0, cy)))) if cy > 0 else a
        raise Unsupported('arithmetic %s on bit-vector ints' % type(op).__name__)

    # ---- subscripts
    def eval_index(self, sl, fr):
        if isinstance(sl, ast.Slice):
            lo = self.eval(sl.lower, fr) if sl.lower is not None else NONE
            hi = self.eval(sl.upper, fr) if sl.upper is not None else NONE
            st = self.eval(sl.step, fr) if sl.step is not None else NONE
            return VSlice(lo, hi, st)
        return self.eval(sl, fr)

    def ex_Subscript(self, e, fr):
        obj = self.eval(e.value, fr)
        idx = self.eval_index(e.slice, fr)
        return self.subscript(obj, idx)

    def ex_Slice(self, e, fr):
        return self.eval_index(e, fr)

    def subscript(self, obj, idx):
        if isinstance(obj, VUnknown):
            raise Unsupported('use of %r' % (obj,))
        if isinstance(obj, VRef):
            k = self.kind_of(obj)
            if k == 'dict':
                return self.dict_get(obj, idx, strict=True)
            if k == 'list':
                r = self.subscript(self.getf(obj, 'val'), idx)
                if isinstance(idx, VSlice):
                    return self.new_list(r)
                return r
            raise Unsupported('subscript on %s' % k)
        if isinstance(obj, VTuple):
            if isinstance(idx, VSlice):
                lo = None if idx.lo is NONE else conc_int(self.as_int(idx.lo))
                hi = None if idx.hi is NONE else conc_int(self.as_int(idx.hi))
                if (idx.lo is not NONE and lo is None) or (idx.hi is not NONE and hi is None) or idx.step is not NONE:
                    raise Unsupported('symbolic tuple slice')
                return VTuple(obj.items[lo:hi])
            c = conc_int(self.as_int(idx))
            if c is None:
                raise Unsupported('symbolic tuple index')
            if not -len(obj.items) <= c < len(obj.items):
                self.throw(IndexError, 'tuple index out of range')
            return obj.items[c]
        if isinstance(obj, VSeq):
            if isinstance(idx, VSlice):
                if idx.step is not NONE:
                    st = conc_int(self.as_int(idx.step))
                    if st == -1 and idx.lo is NONE and idx.hi is NONE:
                        return seq_reverse(obj)
                    if st != 1:
                        raise Unsupported('slice step')
                lo = None if idx.lo is NONE else self.as_int(idx.lo, 'slice index')
                hi = None if idx.hi is NONE else self.as_int(idx.hi, 'slice index')
                return seq_slice(obj, lo, hi, self.decide)
            i = self.as_int(idx, 'index')
            n = obj.n
            ci = conc_int(i)
            if ci is not None and ci < 0:
                i = z3.simplify(i + n)
            elif ci is None:
                i = z3.If(i < 0, i + n, i)
            if self.branch(z3.Or(i < 0, i >= n)):
                self.throw(IndexError, 'index out of range')
            return self.seq_elem_value(obj, z3.simplify(i))
        raise Unsupported('subscript on %r' % (obj,))

    def store_subscript(self, obj, idx, val):
        if isinstance(obj, VRef):
            k = self.kind_of(obj)
            if k == 'dict':
                return self.dict_set(obj, idx, val)
            if k == 'list':
                sq = self.getf(obj, 'val')
                if isinstance(idx, VSlice):
                    sq = self.fix_len(sq)
                    lo = 0 if idx.lo is NONE else conc_int(self.as_int(idx.lo))
                    hi = sq.clen() if idx.hi is NONE else conc_int(self.as_int(idx.hi))
                    new = self.fix_len(self.list_val(val))
                    if sq.clen() is None or lo is None or hi is None or new.clen() is None or idx.step is not NONE:
                        raise Unsupported('slice assignment with symbolic bounds')
                    items = [sq.at(z3.IntVal(k)) for k in range(sq.clen())]
                    items[lo:hi] = [new.at(z3.IntVal(k)) if new.kind == 'list' else self.seq_elem_value(new, z3.IntVal(k)) for k in range(new.clen())]
                    self.setf(obj, 'val', seq_items('list', items))
                    return
                i = self.as_int(idx, 'index')
                n = sq.n
                i = z3.simplify(z3.If(i < 0, i + n, i))
                if self.branch(z3.Or(i < 0, i >= n)):
                    self.throw(IndexError, 'list assignment index out of range')
                ci = conc_int(i)
                if sq.items is not None and ci is not None:
                    items = list(sq.items)
                    items[ci] = val
                    self.setf(obj, 'val', seq_items('list', items))
                else:
                    self.setf(obj, 'val', VSeq('list', n, lambda j, sq=sq, i=i, val=val: merge_values(I(j) == i, val, sq.at(j))))
                return
        raise Unsupported('subscript store on %r' % (obj,))

    def delete_subscript(self, obj, idx):
        if isinstance(obj, VRef) and self.kind_of(obj) == 'dict':
            d = self.getf(obj, 'val')
            if isinstance(d, dict):
                k = self.dict_key(idx)
                if k not in d:
                    self.throw(KeyError, k if isinstance(k, (str, int)) else 'key')
                d2 = dict(d)
                del d2[k]
                self.setf(obj, 'val', d2)
                return
        raise Unsupported('del on %r' % (obj,))

    # ---- dicts (concrete key set; symbolic message dicts delegate to their own class)
    def dict_get(self, ref, key, strict=False, default=NONE):
        d = self.getf(ref, 'val')
        if not isinstance(d, dict):
            return d.get(self, ref, key, strict, default)
        if isinstance(key, VSeq) and conc_str(key) is None and key.tag and key.tag[0] == 'dec' and key.kind == 'str':
            # key = str(n) for a symbolic int n: str() is canonical, so the lookup is a case split on n itself
            t = key.tag[1]
            for k in d:
                if isinstance(k, str) and k.isdigit() and str(int(k)) == k:
                    if self.branch(t == int(k)):
                        return d[k]
            if strict:
                self.throw(KeyError, 'key')
            return default
        if isinstance(key, VSeq) and conc_str(key) is None:
            # symbolic key, concrete key set: case split
            for k in d:
                if isinstance(k, (str, bytes)) and (key.kind == ('str' if isinstance(k, str) else 'bytes')):
                    if self.branch(value_eq_bool(key, lift(k))):
                        return d[k]
            if strict:
                self.throw(KeyError, 'key')
            return default
        k = self.dict_key(key)
        if k in d:
            return d[k]
        if strict:
            self.throw(KeyError, k if isinstance(k, (str, int)) else 'key')
        return default

    def dict_set(self, ref, key, val):
        d = self.getf(ref, 'val')
        if not isinstance(d, dict):
            return d.set(self, ref, key, val)
        if isinstance(key, VSeq) and conc_str(key) is None:
            from .models_iso import AssocDict          # symbolic key: the dict becomes an association list
            ad = AssocDict.from_concrete(d)
            self.setf(ref, 'val', ad)
            return ad.set(self, ref, key, val)
        d2 = dict(d)
        d2[self.dict_key(key)] = val
        self.setf(ref, 'val', d2)

    # ---- calls
    def ex_Call(self, e, fr):
        # super()
        if isinstance(e.func, ast.Attribute) and isinstance(e.func.value, ast.Call) and \
                isinstance(e.func.value.func, ast.Name) and e.func.value.func.id == 'super':
            return self.super_call(e, fr)
        f = self.eval(e.func, fr)
        args = []
        for a in e.args:
            if isinstance(a, ast.Starred):
                args.extend(self.iter_items(self.eval(a.value, fr)))
            else:
                args.append(self.eval(a, fr))
        kwargs = {}
        for kw in e.keywords:
            if kw.arg is None:
                dv = self.eval(kw.value, fr)
                d = self.getf(dv, 'val')
                if not isinstance(d, dict):
                    raise Unsupported('** of symbolic dict')
                for k, v in d.items():
                    kwargs[k] = v
            else:
                kwargs[kw.arg] = self.eval(kw.value, fr)
        return self.call_value(f, args, kwargs)

    def super_call(self, e, fr):
        sc = e.func.value
        if fr.cls is None:
            raise Unsupported('super() outside a method')
        if sc.args:
            selfv = self.eval(sc.args[1], fr)
        else:
            first = fr.func.node.args.args[0].arg
            selfv = fr.locals[first]
        name = e.func.attr
        args = []
        for a in e.args:
            if isinstance(a, ast.Starred):
                args.extend(self.iter_items(self.eval(a.value, fr)))
            else:
                args.append(self.eval(a, fr))
        kwargs = {}
        for kw in e.keywords:
            if kw.arg is None:
                d = self.getf(self.eval(kw.value, fr), 'val')
                kwargs.update(d)
            else:
                kwargs[kw.arg] = self.eval(kw.value, fr)
        if isinstance(selfv, VClass):
            dyn = selfv.info
        else:
            dyn = self.heap[selfv.oid]['__class__']
        m = self.program.find_method(dyn, name, after=fr.cls)
        if m is None:
            base = self.program.exc_base(dyn)
            if name == '__init__':
                if base is not None:
                    self.setf(selfv, 'args', VTuple(args))
                return NONE
            raise Unsupported('super().%s not found' % name)
        return self.call_ast(m, [selfv] + args, kwargs)

    # ---- comprehensions / f-strings: in models.py (installed as methods)
    def ex_ListComp(self, e, fr):
        from . import models
        return models.list_comp(self, e, fr)

    def ex_GeneratorExp(self, e, fr):
        from . import models
        return models.list_comp(self, e, fr, lazy=True)

    def ex_SetComp(self, e, fr):
        from . import models
        lst = models.list_comp(self, ast.ListComp(elt=e.elt, generators=e.generators), fr)
        return models.MODELS['set'](self, [lst], {})

    def ex_Set(self, e, fr):
        from . import models
        return models.MODELS['set'](self, [self.new_list(seq_items('list', self.eval_elts(e.elts, fr)))], {})

    def ex_DictComp(self, e, fr):
        from . import models
        return models.dict_comp(self, e, fr)

    def ex_JoinedStr(self, e, fr):
        from . import models
        return models.joined_str(self, e, fr)

    def ex_Lambda(self, e, fr):
        raise Unsupported('lambda')


class LoopCtx:
    """what a loop spec may look at: entry-time snapshot (immutable), the engine, the iterated sequence"""

    def __init__(self, E, fr, pre, seq):
        self.E = E
        self.fr = fr
        self.pre = pre
        self.seq = seq

    def entry(self, key):
        """value of a local / attribute path at loop entry"""
        parts = key.split('.')
        v = self.pre.locals[parts[0]]
        for p in parts[1:]:
            v = self.pre.heap[v.oid][p]
        if isinstance(v, VRef) and self.pre.heap[v.oid].get('__kind__') == 'list':
            v = self.pre.heap[v.oid]['val']
        return v

    def now(self, key):
        return self.E.read_path(key, self.fr)
