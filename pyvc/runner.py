"""Proof-unit driver (path replay) and obligation discharge (z3, optional cvc5 cross-check)."""
import os
import subprocess
import tempfile
import time
import traceback
import z3

from .values import Unsupported, PathEnd
from .engine import Engine, PyRaise, CheckerError

UNITS = []


class Unit:
    def __init__(self, name, fn, props, functions=(), debug_modes=(True,), note='', thorough_only=False):
        self.name = name
        self.fn = fn
        self.props = tuple(props)
        self.functions = tuple(functions)     # qualnames of real functions this unit puts under contract
        self.debug_modes = debug_modes
        self.note = note
        self.thorough_only = thorough_only


def unit(name, props, functions=(), debug_modes=(True,), note='', thorough_only=False):
    def deco(fn):
        UNITS.append(Unit(name, fn, props, functions, debug_modes, note, thorough_only))
        return fn
    return deco


class UnitResult:
    def __init__(self, unit):
        self.unit = unit
        self.obligations = []
        self.undecided = []        # strings
        self.paths = 0
        self.covers = {}
        self.funcs = {}
        self.models_used = set()
        self.time = 0.0
        self.error = None
        self.live = 0          # paths that reached the end of the unit with a satisfiable path condition
        self.vacuous = 0


MAX_PATHS = 4000


def _pc_sat(E):
    s = z3.Solver()
    s.set('timeout', 5000)
    s.add(*E.pc)
    return s.check() != z3.unsat


def run_unit(E, u, debug_flag=True):
    """explore all paths of unit u; returns UnitResult with undischarged obligations"""
    res = UnitResult(u)
    t0 = time.time()
    E.obligations = []
    E.covers = {}
    E.func_used = {}
    E.models_used = set()
    E.debug_flag = debug_flag
    E.unit_name = u.name + ('' if debug_flag else '[-O]')
    work = [[]]
    while work:
        prefix = work.pop()
        res.paths += 1
        if res.paths > MAX_PATHS:
            res.undecided.append('path budget exceeded (%d)' % MAX_PATHS)
            break
        E.reset(prefix)
        try:
            u.fn(E)
            # vacuity guard: a path that ran to the end with a contradictory path condition proves nothing
            n_before = len(E.obligations)
            if E.feasible(z3.BoolVal(True), full=True) if False else _pc_sat(E):
                res.live += 1
            else:
                res.vacuous += 1
        except PathEnd:
            pass
        except Unsupported as ex:
            res.undecided.append('Unsupported: %s' % ex)
        except PyRaise as pr:
            res.undecided.append('uncaught symbolic exception in unit: %s' % E.exc_name(pr.exc))
        except CheckerError:
            raise
        except z3.Z3Exception as ex:
            res.undecided.append('z3 exception: %s' % ex)
        except RecursionError:
            res.undecided.append('engine recursion limit')
        work.extend(E.worklist_add)
    res.obligations = E.obligations
    res.covers = dict(E.covers)
    res.funcs = dict(E.func_used)
    res.models_used = set(E.models_used)
    res.time = time.time() - t0
    E.obligations = []
    return res


def _abstract_lambdas(fs):
    """replace every Lambda term by a fresh array constant (weaker formula: unsat carries over, sat is a candidate).
    Returns None when there is no Lambda at all.  DAG-memoised."""
    cache = {}
    memo = {}
    cnt = [0]

    def walk(t):
        k = t.get_id()
        if k in memo:
            return memo[k]
        if z3.is_quantifier(t) and t.is_lambda():
            if k not in cache:
                cnt[0] += 1
                cache[k] = (z3.Const('λabs%d' % cnt[0], t.sort()), t)
            r = cache[k][0]
        elif z3.is_app(t) and t.num_args() > 0:
            kids = [walk(c) for c in t.children()]
            r = t.decl()(*kids)
        else:
            r = t
        memo[k] = r
        return r
    out = [walk(f) for f in fs]
    if not cache:
        return None
    return out


def concretize(m, v, depth=0):
    """python value of a symbolic value under model m (for native replay)"""
    from .values import VInt, VBool, VSeq, VTuple, VBV, NONE
    if isinstance(v, dict):
        return {k: concretize(m, x) for k, x in v.items()}
    if isinstance(v, (list, tuple)):
        return [concretize(m, x) for x in v]
    if isinstance(v, (str, int, bool, float)) or v is None:
        return v
    if v is NONE:
        return None
    if isinstance(v, VInt):
        return m.eval(v.t, model_completion=True).as_long()
    if isinstance(v, VBV):
        return m.eval(v.t, model_completion=True).as_long()
    if isinstance(v, VBool):
        return bool(z3.is_true(m.eval(v.t, model_completion=True)))
    if isinstance(v, VTuple):
        return [concretize(m, x) for x in v.items]
    if isinstance(v, VSeq):
        n = m.eval(v.n, model_completion=True).as_long()
        n = max(0, min(n, 5000))
        els = []
        for k in range(n):
            e = v.at(z3.IntVal(k))
            if isinstance(e, int):
                els.append(e)
            elif z3.is_expr(e):
                els.append(m.eval(e, model_completion=True).as_long())
            else:
                els.append(concretize(m, e))
        if v.kind == 'bytes':
            return {'__bytes__': bytes(x % 256 for x in els).hex()}
        if v.kind == 'str':
            return ''.join(chr(max(0, min(x, 0x10FFFF))) if not (0xD800 <= x <= 0xDFFF) else '?' for x in els)
        return els
    return repr(v)


def check_ob(ob, timeout_ms=20000, seed=0):
    """discharge one obligation with z3; fills status in {'unsat','sat','sat?','unknown'}
    'sat?' = satisfiable after abstracting Lambda terms (candidate counterexample, needs native confirmation)"""
    t0 = time.time()
    s = z3.Solver()
    s.set('timeout', timeout_ms)
    if seed:
        s.set('random_seed', seed)
    s.add(*ob.pc)
    s.add(z3.Not(ob.goal))
    r = s.check()
    status = 'unsat' if r == z3.unsat else ('sat' if r == z3.sat else 'unknown')
    if status == 'unknown':
        ob.note = s.reason_unknown()
        try:
            fs = _abstract_lambdas(list(ob.pc) + [z3.Not(ob.goal)])
            if fs is None:
                raise z3.Z3Exception('no lambda to abstract')
            s2 = z3.Solver()
            s2.set('timeout', timeout_ms)
            s2.add(*fs)
            r2 = s2.check()
            if r2 == z3.unsat:
                status = 'unsat'
                ob.note = 'z3 (lambdas abstracted)'
            elif r2 == z3.sat:
                status = 'sat?'
                s = s2
        except z3.Z3Exception:
            pass
    ob.time = time.time() - t0
    ob.status = status
    if status in ('sat', 'sat?'):
        try:
            m = s.model()
            ob.model = {str(d): str(m[d]) for d in m.decls() if m[d] is not None and len(str(m[d])) < 200 and not str(d).startswith('λ')}
            if ob.template is not None:
                ob.native = concretize(m, ob.template)
        except Exception as ex:
            ob.model = {'_model_error': repr(ex)}
    return ob


def to_smt2(ob):
    s = z3.Solver()
    s.add(*ob.pc)
    s.add(z3.Not(ob.goal))
    return '(set-logic ALL)\n' + s.to_smt2()


def check_ob_cvc5(ob, timeout_s=20):
    """second opinion from /usr/bin/cvc5 on the SMT-LIB export: 'unsat' | 'sat' | 'unknown'"""
    txt = to_smt2(ob)
    if 'lambda' in txt:
        return 'unsupported'
    fd, path = tempfile.mkstemp(suffix='.smt2', prefix='pyvc_')
    try:
        with os.fdopen(fd, 'w') as f:
            f.write(txt)
        try:
            p = subprocess.run(['/usr/bin/cvc5', '--tlimit=%d' % (timeout_s * 1000), path],
                               capture_output=True, text=True, timeout=timeout_s + 5)
        except subprocess.TimeoutExpired:
            return 'unknown'
        out = p.stdout.strip().splitlines()
        if out and out[0] in ('unsat', 'sat', 'unknown'):
            return out[0]
        return 'unknown'
    finally:
        try:
            os.unlink(path)
        except OSError:
            pass
