"""Proof-unit driver (path replay) and obligation discharge (z3, optional cvc5 cross-check)."""
import os
import subprocess
import tempfile
import time
import traceback
import z3

from .values import Unsupported, PathEnd
from .engine import Engine, PyRaise, CheckerError

UNITS = []


class Unit:
    def __init__(self, name, fn, props, functions=(), debug_modes=(True,), note=''):
        self.name = name
        self.fn = fn
        self.props = tuple(props)
        self.functions = tuple(functions)     # qualnames of real functions this unit puts under contract
        self.debug_modes = debug_modes
        self.note = note


def unit(name, props, functions=(), debug_modes=(True,), note=''):
    def deco(fn):
        UNITS.append(Unit(name, fn, props, functions, debug_modes, note))
        return fn
    return deco


class UnitResult:
    def __init__(self, unit):
        self.unit = unit
        self.obligations = []
        self.undecided = []        # strings
        self.paths = 0
        self.covers = {}
        self.funcs = {}
        self.models_used = set()
        self.time = 0.0
        self.error = None


MAX_PATHS = 4000


def run_unit(E, u, debug_flag=True):
    """explore all paths of unit u; returns UnitResult with undischarged obligations"""
    res = UnitResult(u)
    t0 = time.time()
    E.obligations = []
    E.covers = {}
    E.func_used = {}
    E.models_used = set()
    E.debug_flag = debug_flag
    E.unit_name = u.name + ('' if debug_flag else '[-O]')
    work = [[]]
    while work:
        prefix = work.pop()
        res.paths += 1
        if res.paths > MAX_PATHS:
            res.undecided.append('path budget exceeded (%d)' % MAX_PATHS)
            break
        E.reset(prefix)
        try:
            u.fn(E)
        except PathEnd:
            pass
        except Unsupported as ex:
            res.undecided.append('Unsupported: %s' % ex)
        except PyRaise as pr:
            res.undecided.append('uncaught symbolic exception in unit: %s' % E.exc_name(pr.exc))
        except CheckerError:
            raise
        except z3.Z3Exception as ex:
            res.undecided.append('z3 exception: %s' % ex)
        except RecursionError:
            res.undecided.append('engine recursion limit')
        work.extend(E.worklist_add)
    res.obligations = E.obligations
    res.covers = dict(E.covers)
    res.funcs = dict(E.func_used)
    res.models_used = set(E.models_used)
    res.time = time.time() - t0
    E.obligations = []
    return res


def check_ob(ob, timeout_ms=20000, seed=0):
    """discharge one obligation with z3; fills status in {'unsat','sat','unknown'}"""
    t0 = time.time()
    s = z3.Solver()
    s.set('timeout', timeout_ms)
    if seed:
        s.set('random_seed', seed)
    s.add(*ob.pc)
    s.add(z3.Not(ob.goal))
    r = s.check()
    ob.time = time.time() - t0
    if r == z3.unsat:
        ob.status = 'unsat'
    elif r == z3.sat:
        ob.status = 'sat'
        try:
            m = s.model()
            ob.model = {str(d): str(m[d]) for d in m.decls() if m[d] is not None and len(str(m[d])) < 200}
        except Exception:
            ob.model = {}
    else:
        ob.status = 'unknown'
        ob.note = s.reason_unknown()
    return ob


def to_smt2(ob):
    s = z3.Solver()
    s.add(*ob.pc)
    s.add(z3.Not(ob.goal))
    return '(set-logic ALL)\n' + s.to_smt2()


def check_ob_cvc5(ob, timeout_s=20):
    """second opinion from /usr/bin/cvc5 on the SMT-LIB export: 'unsat' | 'sat' | 'unknown'"""
    txt = to_smt2(ob)
    if 'lambda' in txt:
        return 'unsupported'
    fd, path = tempfile.mkstemp(suffix='.smt2', prefix='pyvc_')
    try:
        with os.fdopen(fd, 'w') as f:
            f.write(txt)
        try:
            p = subprocess.run(['/usr/bin/cvc5', '--tlimit=%d' % (timeout_s * 1000), path],
                               capture_output=True, text=True, timeout=timeout_s + 5)
        except subprocess.TimeoutExpired:
            return 'unknown'
        out = p.stdout.strip().splitlines()
        if out and out[0] in ('unsat', 'sat', 'unknown'):
            return out[0]
        return 'unknown'
    finally:
        try:
            os.unlink(path)
        except OSError:
            pass
