"""setup_cmd: nothing to build; checks that the tooling the checks need is present and that the engine
proves a trivial obligation and refutes a false one (so a broken z3 install cannot pass silently)."""
import sys


def main():
    import z3
    from pyvc.engine import Engine
    from pyvc.runner import Unit, run_unit, check_ob
    E = Engine()

    def u(E):
        s = E.fresh_seq('str', 's')
        E.assume(s.n >= 10)
        r = E.call('cardutil.card.mask', s)
        E.prove('good', r.n == s.n, 'P')
        E.prove('bad', r.n == s.n + 1, 'P')
    res = run_unit(E, Unit('selftest', u, ['SELF']))
    st = {ob.name: check_ob(ob).status for ob in res.obligations}
    assert st == {'good': 'unsat', 'bad': 'sat'}, st
    import subprocess
    subprocess.run(['/usr/bin/cvc5', '--version'], capture_output=True, check=True)
    subprocess.run(['/venv/bin/python', '-c', 'import cardutil'], capture_output=True, check=True)
    from pyvc import difftest
    rc = difftest.main()
    assert rc == 0, 'engine disagrees with CPython on a concrete case'
    print('pyvc selftest ok (z3 %s)' % z3.get_version_string())


if __name__ == '__main__':
    sys.exit(main())
