"""Library models used by iso8583 / mciipm text handling: single-byte codecs (abstract and table-driven),
datetime / decimal / re as opaque values with round-trip axioms."""
import codecs
import z3

from .values import *      # noqa
from .models import model, method, MODELS, METHOD_MODELS, _raise, small_len_split

LATIN1_NAMES = {'latin_1', 'latin1', 'latin-1', 'iso-8859-1', 'iso8859-1', 'l1', '8859', 'cp819'}
TABLE_CODECS = {'cp037', 'cp500', 'cp1140', 'cp273', 'cp1252', 'iso8859_15', 'ascii', 'utf-8', 'utf8', 'utf_8'}


class Codec:
    """a text encoding as seen by the engine"""

    def __init__(self, name, kind):
        self.name = name
        self.kind = kind            # 'latin1' | 'table' | 'abstract'
        if kind == 'table':
            self._build_tables()
        if kind == 'abstract':
            self.ENC = z3.Function('ENC_' + name, z3.IntSort(), z3.IntSort())
            self.DEC = z3.Function('DEC_' + name, z3.IntSort(), z3.IntSort())
            self.ENCODABLE = z3.Function('ENCODABLE_' + name, z3.IntSort(), z3.BoolSort())
            self.DECODABLE = z3.Function('DECODABLE_' + name, z3.IntSort(), z3.BoolSort())

    def _build_tables(self):
        name = 'ascii' if self.name in ('utf-8', 'utf8', 'utf_8') else self.name   # multi-byte forms of utf-8 are out of scope
        self.dec_tab = {}
        for b in range(256):
            try:
                self.dec_tab[b] = ord(bytes([b]).decode(name))
            except UnicodeDecodeError:
                pass
        self.enc_tab = {c: b for b, c in self.dec_tab.items()}

    # element-level terms
    def dec_elem(self, e, E=None):
        """(decodable Bool, code point term) of byte element e"""
        c = conc_int(e)
        if self.kind == 'abstract' and E is not None and z3.is_app(e) and e.decl().name() == 'ENC_' + self.name:
            x = e.arg(0)
            # DEC(ENC(x)) = x for encodable x: rewrite instead of leaving it to the solver
            if E.decide(self.ENCODABLE(x)) is True:
                return z3.BoolVal(True), x
        if self.kind == 'latin1':
            return z3.BoolVal(True), e
        if self.kind == 'table':
            if c is not None:
                return z3.BoolVal(c in self.dec_tab), self.dec_tab.get(c, 0xFFFD)
            bv = z3.is_expr(e) and z3.is_bv(e)
            if bv and all(self.dec_tab.get(b) == b for b in range(128)) and all(b not in self.dec_tab for b in range(128, 256)):
                return z3.ULT(e, 128), e
            if bv:
                raise Unsupported('table codec on bit-vector bytes')
            ok = z3.Or(*[z3.And(e >= lo, e <= hi) for lo, hi in _ranges(sorted(self.dec_tab))]) if len(self.dec_tab) < 256 else z3.BoolVal(True)
            val = z3.IntVal(0xFFFD)
            # piecewise-linear table: group runs with constant offset
            for lo, hi, off in _offset_runs(self.dec_tab):
                val = z3.If(z3.And(e >= lo, e <= hi), e + off, val)
            return ok, val
        return self.DECODABLE(I(e)), self.DEC(I(e))

    def enc_elem(self, E, ch):
        """(encodable Bool, byte term) of code point ch"""
        c = conc_int(ch)
        if self.kind == 'latin1':
            if c is not None:
                return z3.BoolVal(c < 256), ch
            if z3.is_expr(ch) and z3.is_bv(ch):
                return z3.BoolVal(True), ch
            return ch < 256, ch
        if self.kind == 'table':
            if c is not None:
                return z3.BoolVal(c in self.enc_tab), self.enc_tab.get(c, 0x3F)
            if z3.is_expr(ch) and z3.is_bv(ch):
                if all(self.enc_tab.get(b) == b for b in range(128)):
                    return z3.ULT(ch, 128), ch
                raise Unsupported('table codec on bit-vector characters')
            ok = z3.Or(*[z3.And(ch >= lo, ch <= hi) for lo, hi in _ranges(sorted(self.enc_tab))])
            val = z3.IntVal(0x3F)
            for lo, hi, off in _offset_runs(self.enc_tab):
                val = z3.If(z3.And(ch >= lo, ch <= hi), ch + off, val)
            return ok, val
        x = I(ch)
        b = self.ENC(x)
        ok = self.ENCODABLE(x)
        # axioms of a single-byte codec, instantiated at this character
        E.fact(z3.And(b >= 0, b <= 255))
        E.fact(z3.Implies(ok, z3.And(self.DECODABLE(b), self.DEC(b) == x)))
        # the characters the wire format itself is made of are encodable in every ASCII- or EBCDIC-family codec
        E.fact(z3.Implies(z3.Or(z3.And(x >= 48, x <= 57), x == 32, z3.And(x >= 97, x <= 102), z3.And(x >= 65, x <= 70)), ok))
        return ok, b

    def dec_facts(self, E, e):
        if self.kind == 'abstract':
            x = I(e)
            d = self.DEC(x)
            E.fact(z3.Implies(self.DECODABLE(x), z3.And(d >= 0, d <= 0x10FFFF)))
            if getattr(self, 'bijective', False):
                E.fact(z3.And(self.DECODABLE(x), self.ENCODABLE(d), self.ENC(d) == x))


def _ranges(xs):
    out = []
    for x in xs:
        if out and out[-1][1] == x - 1:
            out[-1][1] = x
        else:
            out.append([x, x])
    return out


def _offset_runs(tab):
    runs = []
    for k in sorted(tab):
        off = tab[k] - k
        if runs and runs[-1][1] == k - 1 and runs[-1][2] == off:
            runs[-1][1] = k
        else:
            runs.append([k, k, off])
    return runs


_CODECS = {}


def abstract_codec_name(E, label='E'):
    """a symbolic encoding name (non-empty str) standing for ANY single-byte codec satisfying the axioms"""
    s = seq_lit('str', '<codec:%s>' % label)
    s.tag = ('codec', label)
    return s


def codec_of(E, enc):
    if enc is None or enc is NONE:
        name = 'utf-8'
    else:
        if isinstance(enc, VSeq) and enc.tag and enc.tag[0] == 'codec':
            label = enc.tag[1]
            key = 'abstract:' + label
            if key not in _CODECS:
                _CODECS[key] = Codec(label, 'abstract')
            return _CODECS[key]
        name = conc_str(enc)
        if name is None:
            raise Unsupported('symbolic encoding name')
        if name.startswith('<codec:'):
            label = name[7:-1]
            key = 'abstract:' + label
            if key not in _CODECS:
                _CODECS[key] = Codec(label, 'abstract')
            return _CODECS[key]
    n = name.lower().replace('-', '_') if name.lower() not in ('utf-8',) else 'utf-8'
    if name.lower() in LATIN1_NAMES or n in LATIN1_NAMES:
        key = 'latin1'
        if key not in _CODECS:
            _CODECS[key] = Codec('latin1', 'latin1')
        return _CODECS[key]
    try:
        canon = codecs.lookup(name).name.replace('-', '_')
    except LookupError:
        raise Unsupported('unknown encoding %r (LookupError in CPython)' % name)
    if canon in ('iso8859_1',):
        return codec_of(E, lift('latin_1'))
    if canon in TABLE_CODECS or canon.replace('_', '-') in TABLE_CODECS:
        if canon not in _CODECS:
            _CODECS[canon] = Codec(canon, 'table')
        return _CODECS[canon]
    raise Unsupported('encoding %r has no model' % name)


def _enc_arg(a, kw):
    if len(a) > 1:
        return a[1]
    if 'encoding' in kw:
        return kw['encoding']
    return None


@method('bytes', 'decode')
def m_decode(E, a, kw):
    b = a[0]
    cd = codec_of(E, _enc_arg(a, kw))
    if len(a) > 2 or 'errors' in kw:
        raise Unsupported('decode(errors=...)')
    b = E.fix_len(b)
    c = b.clen()
    if c is not None:
        oks, outs = [], []
        for k in range(c):
            e = b.at(z3.IntVal(k))
            ok, d = cd.dec_elem(e, E)
            cd.dec_facts(E, e)
            oks.append(ok)
            outs.append(d)
        if not E.branch(z3.And(*oks) if oks else z3.BoolVal(True)):
            _raise(E, UnicodeDecodeError, 'codec cannot decode byte')
        return seq_items('str', outs)
    if cd.kind == 'latin1':
        return VSeq('str', b.n, b.at)
    # symbolic length: either every byte decodes (facts added lazily per accessed element) or some byte w does not
    if E.branch(E.fresh_bool('decode_ok')):
        def at(i, b=b, cd=cd):
            e = b.at(i)
            ok, d = cd.dec_elem(e, E)
            E.fact(ok)
            cd.dec_facts(E, e)
            return d
        return VSeq('str', b.n, at)
    w = E.fresh_int('undecodable_at')
    E.assume(w >= 0)
    E.assume(w < b.n)
    ok, _ = cd.dec_elem(b.at(w))
    E.assume(z3.Not(ok))
    if not E.feasible(z3.BoolVal(True)):
        raise PathEnd()
    _raise(E, UnicodeDecodeError, 'codec cannot decode byte')


@method('str', 'encode')
def m_encode(E, a, kw):
    s = a[0]
    cd = codec_of(E, _enc_arg(a, kw))
    if len(a) > 2 or 'errors' in kw:
        raise Unsupported('encode(errors=...)')
    s = E.fix_len(s)
    c = s.clen()
    if c is not None:
        oks, outs = [], []
        for k in range(c):
            ok, e = cd.enc_elem(E, s.at(z3.IntVal(k)))
            oks.append(ok)
            outs.append(e)
        if not E.branch(z3.And(*oks) if oks else z3.BoolVal(True)):
            _raise(E, UnicodeEncodeError, 'codec cannot encode character')
        return seq_items('bytes', outs)
    if E.branch(E.fresh_bool('encode_ok')):
        def at(i, s=s, cd=cd):
            ok, e = cd.enc_elem(E, s.at(i))
            E.fact(ok)
            return e
        return VSeq('bytes', s.n, at)
    w = E.fresh_int('unencodable_at')
    E.assume(w >= 0)
    E.assume(w < s.n)
    ok, _ = cd.enc_elem(E, s.at(w))
    E.assume(z3.Not(ok))
    if not E.feasible(z3.BoolVal(True)):
        raise PathEnd()
    _raise(E, UnicodeEncodeError, 'codec cannot encode character')


# ================================================================================================
# dicts with symbolic keys: ordered association list, last write wins (PDSxxxx / TAGxxxx entries)
# ================================================================================================
class AssocDict:
    """python dict whose keys may be symbolic strings.  entries: VSeq 'list' of VTuple(key, value) in insertion order.
    Only what the verified code does with such dicts is supported: store, update, truthiness, (concrete-key) lookup."""

    def __init__(self, entries):
        self.entries = entries

    @staticmethod
    def from_concrete(d):
        return AssocDict(seq_items('list', [VTuple([lift(k), v]) for k, v in d.items()]))

    def truth(self, E):
        return self.entries.n > 0

    def length(self, E):
        raise Unsupported('len() of a dict with symbolic keys (duplicates unknown)')

    def set(self, E, ref, key, val):
        E.setf(ref, 'val', AssocDict(seq_concat(self.entries, seq_items('list', [VTuple([key, val])]))))

    def update(self, E, ref, other):
        od = E.getf(other, 'val')
        oe = AssocDict.from_concrete(od).entries if isinstance(od, dict) else od.entries
        E.setf(ref, 'val', AssocDict(seq_concat(self.entries, oe)))
        return NONE

    def get(self, E, ref, key, strict, default):
        """lookup by last-write-wins; supported for concrete-length entry lists"""
        ents = E.fix_len(self.entries)
        c = ents.clen()
        if c is None:
            return self.get_symbolic(E, ents, key, strict, default)
        for k in range(c - 1, -1, -1):
            kv = ents.at(z3.IntVal(k))
            if E.branch(value_eq_bool(kv.items[0], key)):
                return kv.items[1]
        if strict:
            _raise(E, KeyError, 'key')
        return default

    def get_symbolic(self, E, ents, key, strict, default):
        """lookup in an association list of ANY length: dict semantics are `the last entry with an equal key, if any`.
        Existence of (found, m) with
            found  => 0 <= m < n  and  key_m == key  and  forall q in (m, n): key_q != key
            !found => forall q in [0, n): key_q != key
        holds for every list and key; the two universally quantified parts are instantiated at the index terms the unit
        registered in E.ghost['assoc_inst'] (weaker facts = sound).  Units that define their own lookup function register a
        hook in E.ghost['assoc_on_hit'] to get their axioms instantiated at m."""
        n = ents.n
        m = E.fresh_int('assoc_hit')
        found = E.fresh_bool('assoc_found')
        key_at = lambda q: value_eq_bool(ents.at(q).items[0], key)
        inst = list(E.ghost.get('assoc_inst', []))
        E.fact(z3.Implies(found, z3.And(m >= 0, m < n, key_at(m), *[z3.Implies(z3.And(I(q) > m, I(q) < n), z3.Not(key_at(I(q)))) for q in inst])))
        E.fact(z3.Implies(z3.Not(found), z3.And(*[z3.Implies(z3.And(I(q) >= 0, I(q) < n), z3.Not(key_at(I(q)))) for q in inst])))
        for hook in E.ghost.get('assoc_on_hit', []):
            for f in hook(m, found, key):
                E.fact(f)
        E.ghost['assoc_last_lookup'] = (found, m)
        if E.branch(found):
            return ents.at(m).items[1]
        if strict:
            _raise(E, KeyError, 'key')
        return default

    def contains(self, E, item):
        ents = E.fix_len(self.entries)
        c = ents.clen()
        if c is None:
            raise Unsupported('`in` on a dict with a symbolic number of symbolic keys')
        alts = [value_eq_bool(ents.at(z3.IntVal(k)).items[0], item) for k in range(c)]
        return z3.Or(*alts) if alts else z3.BoolVal(False)

    def iter_keys(self, E):
        ents = E.fix_len(self.entries)
        c = ents.clen()
        if c is None:
            raise Unsupported('iteration over a dict with a symbolic number of keys')
        return [ents.at(z3.IntVal(k)).items[0] for k in range(c)]

    def items(self, E, ref):
        ents = E.fix_len(self.entries)
        if ents.clen() is None:
            raise Unsupported('items() of a dict with a symbolic number of keys')
        return E.new_cell({'__kind__': 'iter', 'items': [ents.at(z3.IntVal(k)) for k in range(ents.clen())]})

    def keys(self, E, ref):
        return E.new_cell({'__kind__': 'iter', 'items': self.iter_keys(E)})


# ================================================================================================
# datetime / decimal / re : opaque values with the axioms the properties need
# ================================================================================================
DT = z3.DeclareSort('DateTime')
DEC = z3.DeclareSort('Decimal')


def fmt_id(fmt):
    cs = conc_str(fmt)
    if cs is None:
        raise Unsupported('symbolic date format')
    return cs


def strftime_len(fmt):
    """length of strftime output for the numeric directives (all fixed width)"""
    widths = {'y': 2, 'Y': 4, 'm': 2, 'd': 2, 'H': 2, 'M': 2, 'S': 2, 'j': 3, 'f': 6}
    n, i = 0, 0
    while i < len(fmt):
        if fmt[i] == '%' and i + 1 < len(fmt):
            if fmt[i + 1] == '%':
                n += 1
            elif fmt[i + 1] in widths:
                n += widths[fmt[i + 1]]
            else:
                raise Unsupported('date directive %%%s has no model' % fmt[i + 1])
            i += 2
        else:
            n += 1
            i += 1
    return n


def strftime_seq(E, dt, fmt):
    """format(dt, fmt): a string of fixed length whose characters are an uninterpreted function of (dt, position);
    digits at directive positions, the literal characters elsewhere"""
    n = strftime_len(fmt)
    F = z3.Function('STRFTIME[%s]' % fmt, DT, z3.IntSort(), z3.IntSort())
    lits = {}
    pos, i = 0, 0
    widths = {'y': 2, 'Y': 4, 'm': 2, 'd': 2, 'H': 2, 'M': 2, 'S': 2, 'j': 3, 'f': 6}
    while i < len(fmt):
        if fmt[i] == '%' and i + 1 < len(fmt):
            if fmt[i + 1] == '%':
                lits[pos] = 37
                pos += 1
            else:
                pos += widths[fmt[i + 1]]
            i += 2
        else:
            lits[pos] = ord(fmt[i])
            pos += 1
            i += 1
    items = []
    for k in range(n):
        if k in lits:
            items.append(lits[k])
        else:
            e = F(dt, k)
            E.fact(z3.And(e >= 48, e <= 57))
            items.append(e)
    s = seq_items('str', items)
    s.tag = ('strftime', dt, fmt)
    E.ghost.setdefault('strftime_terms', []).append((dt, fmt, s))
    return s


def format_datetime(E, v, spec):
    if spec == '':
        return str_of_datetime(E, v)
    return strftime_seq(E, v.t, spec)


def str_of_datetime(E, v):
    return strftime_seq(E, v.t, '%Y-%m-%d %H:%M:%S')


@model('datetime.datetime.strptime')
def m_strptime(E, a, kw):
    s, fmt = a[0], fmt_id(a[1])
    if not (isinstance(s, VSeq) and s.kind == 'str'):
        _raise(E, TypeError, 'strptime() argument 1 must be str')
    n = strftime_len(fmt)
    P = z3.Function('STRPTIME[%s]' % fmt, z3.ArraySort(z3.IntSort(), z3.IntSort()), DT)
    OK = z3.Function('STRPTIME_OK[%s]' % fmt, z3.ArraySort(z3.IntSort(), z3.IntSort()), z3.BoolSort())
    from .models import reify
    # round-trip axiom: strptime(format(dt, fmt), fmt) = dt   whenever dt is representable in fmt
    if s.tag and s.tag[0] == 'strftime' and s.tag[2] == fmt:
        dt = s.tag[1]
        REP = z3.Function('REPRESENTABLE[%s]' % fmt, DT, z3.BoolSort())
        if E.branch(REP(dt)):
            return VOpaque('datetime', dt)
        _raise(E, ValueError, 'time data does not match format')
    s = E.fix_len(s)
    arr = reify(s)
    ok = OK(arr)
    # round-trip axiom  REPRESENTABLE(dt) => strptime(format(dt, fmt), fmt) = dt , instantiated for every datetime that
    # was formatted with this format on this path (the string may have travelled through encode/decode since)
    if s.clen() is not None:
        REP = z3.Function('REPRESENTABLE[%s]' % fmt, DT, z3.BoolSort())
        for dt, f2, sq in E.ghost.get('strftime_terms', []):
            if f2 == fmt and sq.clen() == s.clen():
                same = z3.And(*[elem_eq(s.at(z3.IntVal(k)), sq.at(z3.IntVal(k))) for k in range(s.clen())])
                E.fact(z3.Implies(z3.And(REP(dt), same), z3.And(ok, P(arr) == dt)))
    # python's strptime accepts shorter numeric fields, so only the gross length bound is used
    if E.branch(z3.And(ok, s.n >= 1)):
        return VOpaque('datetime', P(arr))
    _raise(E, ValueError, 'time data does not match format')


@model('datetime.datetime')
def m_datetime_cls(E, a, kw):
    raise Unsupported('datetime construction')


@model('datetime.datetime.fromisoformat')
def m_fromiso(E, a, kw):
    raise Unsupported('fromisoformat')


@model('decimal.Decimal')
def m_decimal(E, a, kw):
    v = a[0]
    if isinstance(v, VOpaque) and v.sort_name == 'decimal':
        return v
    if isinstance(v, VInt):
        F = z3.Function('DECIMAL_OF_INT', z3.IntSort(), DEC)
        return VOpaque('decimal', F(v.t))
    if isinstance(v, VSeq) and v.kind == 'str':
        import decimal as _d
        from .models import reify
        P = z3.Function('DECIMAL_PARSE', z3.ArraySort(z3.IntSort(), z3.IntSort()), DEC)
        OK = z3.Function('DECIMAL_OK', z3.ArraySort(z3.IntSort(), z3.IntSort()), z3.BoolSort())
        if v.tag and v.tag[0] == 'decfmt':
            return VOpaque('decimal', v.tag[1])
        arr = reify(v)
        if E.branch(OK(arr)):
            return VOpaque('decimal', P(arr))
        _raise(E, _d.InvalidOperation, 'ConversionSyntax')
    raise Unsupported('Decimal(%r)' % (v,))


def format_decimal(E, v, spec):
    """format(Decimal, '0Nf'): opaque string; Decimal(format(d,...)) = d for representable d is NOT assumed in general"""
    F = z3.Function('DECFMT[%s]' % spec, DEC, z3.IntSort(), z3.IntSort())
    L = z3.Function('DECFMT_LEN[%s]' % spec, DEC, z3.IntSort())
    n = L(v.t)
    E.fact(n >= 1)
    s = VSeq('str', n, lambda i, v=v: F(v.t, I(i)))
    s.tag = ('decfmt', v.t, spec)
    return s


@model('re.match')
def m_re_match(E, a, kw):
    pat, s = a[0], a[1]
    cs = conc_str(pat)
    if cs is None:
        raise Unsupported('symbolic regular expression')
    import re
    try:
        names = list(re.compile(cs).groupindex)
    except re.error:
        raise Unsupported('invalid regular expression (re.error in CPython)')
    if E.branch(E.fresh_bool('re_matches')):
        return E.new_cell({'__kind__': 'match', 'names': names, 'subject': s})
    return NONE


@method('match', 'groupdict')
def m_groupdict(E, a, kw):
    m = a[0]
    d = {}
    subj = E.getf(m, 'subject')
    for nm in E.getf(m, 'names'):
        # every named group is a substring of the subject (or None when it did not take part): content uninterpreted
        if E.branch(E.fresh_bool('group_%s_matched' % nm)):
            g = E.fresh_seq('str', 'grp_' + nm)
            E.fact(g.n <= subj.n)
            d[nm] = g
        else:
            d[nm] = NONE
    return E.new_dict(d)


def _abstract_rstrip(E, s):
    out = E.fresh_seq('str', 'rstrip')
    E.fact(out.n <= s.n)
    return out


@model('dateutil.parser.parse')
def m_dateutil_parse(E, a, kw):
    if kw or len(a) != 1:
        # dayfirst / yearfirst / default / fuzzy ... change what the text means: the assumed contract covers parse(text) only
        raise Unsupported('dateutil.parser.parse with options %s (the assumed contract is for parse(text))' % sorted(kw))
    s = a[0]
    from .models import reify
    if isinstance(s, VSeq) and s.tag and s.tag[0] == 'strftime' and s.tag[2] == '%Y-%m-%d %H:%M:%S':
        return VOpaque('datetime', s.tag[1])          # parse(str(dt)) = dt for second-precision datetimes (assumed)
    s = E.fix_len(s)
    P = z3.Function('DATEUTIL_PARSE', z3.ArraySort(z3.IntSort(), z3.IntSort()), DT)
    OK = z3.Function('DATEUTIL_OK', z3.ArraySort(z3.IntSort(), z3.IntSort()), z3.BoolSort())
    arr = reify(s)
    if E.branch(OK(arr)):
        return VOpaque('datetime', P(arr))
    _raise(E, ValueError, 'Unknown string format')


# ================================================================================================
# symbolic message dicts for the loop-invariant proofs over ALL element subsets (bits 2..127)
# ================================================================================================
FV = z3.DeclareSort('FieldValue')
VAL = z3.Function('MSG_VAL', z3.IntSort(), FV)                  # value stored under 'DE<b>' (meaningful when present)
TRUTHY = z3.Function('MSG_TRUTHY', z3.IntSort(), z3.BoolSort())     # bool(message.get('DE<b>'))
ISZERO = z3.Function('MSG_ISZERO', z3.IntSort(), z3.BoolSort())     # message.get('DE<b>') == 0


def msg_present(b):
    """what the encoder treats as `element b is present`"""
    return z3.Or(TRUTHY(b), ISZERO(b))


def de_key_bit(key):
    """bit term t when key is the string 'DE' + str(t), else None"""
    if not isinstance(key, VSeq) or key.kind != 'str':
        return None
    cs = conc_str(key)
    if cs is not None:
        if cs.startswith('DE') and cs[2:].isdigit() and str(int(cs[2:])) == cs[2:]:
            return z3.IntVal(int(cs[2:]))
        return None
    parts = seq_parts(key)
    if parts and len(parts) == 2 and parts[0] == ('lit', 'DE') and parts[1][0] == 'dec':
        return parts[1][1]
    return None


class SymMsg:
    """a message dict holding 'MTI' and an ARBITRARY subset of the keys DE2..DE127 (no PDS keys): entries are described by the
    uninterpreted functions above, so one symbolic execution covers every subset"""

    def __init__(self, mti):
        self.mti = mti

    def truth(self, E):
        return z3.BoolVal(True)

    def get(self, E, ref, key, strict, default):
        if conc_str(key) == 'MTI':
            return self.mti
        t = de_key_bit(key)
        if t is None:
            raise Unsupported('symbolic message: lookup of %r' % (key,))
        if strict:
            if E.branch(z3.Not(msg_present(t))):
                _raise(E, KeyError, 'key')
        return VOpaque('fieldval', VAL(t))

    def contains(self, E, item):
        raise Unsupported('symbolic message: `in`')

    def iter_keys(self, E):
        raise Unsupported('symbolic message: iteration')

    def set(self, E, ref, key, val):
        raise Unsupported('symbolic message: store')


class FieldRes:
    """the dict returned by _iso8583_to_field for element `bit` (abstract)"""

    def __init__(self, bit):
        self.bit = bit

    def truth(self, E):
        return z3.BoolVal(True)


class MsgDict:
    """result dict of the decoder while walking the bitmap: the concrete `base` entries plus, for every flagged element b with
    2 <= b < upto, the entries _iso8583_to_field returned for it - nothing else"""

    def __init__(self, base, upto):
        self.base = dict(base)
        self.upto = upto

    def truth(self, E):
        return z3.BoolVal(True)

    def update(self, E, ref, other):
        od = E.getf(other, 'val')
        if not isinstance(od, FieldRes):
            raise Unsupported('symbolic result dict: update with %r' % (od,))
        E.prove('result-dict/elements-added-in-bitmap-order', od.bit == self.upto, 'I', 'inv')
        E.setf(ref, 'val', MsgDict(self.base, z3.simplify(self.upto + 1)))
        return NONE

    def get(self, E, ref, key, strict, default):
        k = conc_str(key)
        if k in self.base:
            return self.base[k]
        raise Unsupported('symbolic result dict: lookup of %r' % (key,))

    def set(self, E, ref, key, val):
        k = conc_str(key)
        if k is None:
            raise Unsupported('symbolic result dict: symbolic key store')
        b = dict(self.base)
        b[k] = val
        E.setf(ref, 'val', MsgDict(b, self.upto))


# ---- abstract field configuration table (loop-level proofs hold for ANY configuration) -----------------------------
CONFIGURED = z3.Function('CFG_CONFIGURED', z3.IntSort(), z3.BoolSort())
CFGV = z3.DeclareSort('CfgValue')
CFGVAL = z3.Function('CFG_VALUE', z3.IntSort(), z3.IntSort(), CFGV)       # (bit, attribute id) -> value
CFGEQ = z3.Function('CFG_VALUE_EQ', CFGV, z3.IntSort(), z3.BoolSort())    # value == <literal #id>
_ATTR_IDS = {}


def _attr_id(name):
    return _ATTR_IDS.setdefault(name, len(_ATTR_IDS))


def key_bit(key):
    """bit term of a configuration key: '7' or str(t)"""
    if not isinstance(key, VSeq) or key.kind != 'str':
        return None
    cs = conc_str(key)
    if cs is not None:
        return z3.IntVal(int(cs)) if cs.isdigit() and str(int(cs)) == cs else None
    if key.tag and key.tag[0] == 'dec':
        return key.tag[1]
    return None


class CfgEntry:
    """bit_config[str(b)] of an arbitrary configuration: attribute values are uninterpreted"""

    def __init__(self, bit):
        self.bit = bit

    def truth(self, E):
        return z3.BoolVal(True)

    def get(self, E, ref, key, strict, default):
        k = conc_str(key)
        if k is None:
            raise Unsupported('abstract configuration entry: symbolic attribute name')
        return VOpaque('cfgval', CFGVAL(self.bit, _attr_id(k)))


class SymCfg:
    """an arbitrary field configuration table: which bits are configured is the uninterpreted predicate CONFIGURED"""

    def __init__(self, keys):
        self.keys = list(keys)

    def truth(self, E):
        return z3.BoolVal(True)

    def get(self, E, ref, key, strict, default):
        t = key_bit(key)
        if t is None:
            raise Unsupported('abstract configuration: lookup of %r' % (key,))
        if E.branch(CONFIGURED(t)):
            return E.new_cell({'__kind__': 'dict', 'val': CfgEntry(t)})
        if strict:
            _raise(E, KeyError, 'bit')
        return default

    def iter_keys(self, E):
        for k in self.keys:
            E.fact(CONFIGURED(z3.IntVal(int(k))))          # keys produced by iterating the table are its keys
        return [lift(k) for k in self.keys]

    def contains(self, E, item):
        t = key_bit(item)
        if t is None:
            raise Unsupported('abstract configuration: `in`')
        return CONFIGURED(t)


# ---- message dict holding an arbitrary NUMBER of PDSxxxx keys (for _pds_to_de over any sub-element count) ------------
class PdsMsg:
    """dict whose keys are m 'PDS'+4-digit tags in arbitrary insertion order; sorted(keys) is the ascending list G['sorted'];
    the value under the j-th smallest key is G['value'](j)"""

    def __init__(self, G):
        self.G = G

    def truth(self, E):
        return self.G['m'] > 0

    def iter_keys_seq(self, E):
        m = self.G['m']
        U = z3.Function('PDS_UNSORTED_KEY', z3.IntSort(), z3.IntSort(), z3.IntSort())

        def at(i):
            items = [80, 68, 83] + [U(I(i), k) for k in range(4)]
            for e in items[3:]:
                E.fact(z3.And(e >= 48, e <= 57))
            return seq_items('str', items)
        s = VSeq('list', m, at)
        s.tag = ('pdskeys', self.G)
        return s

    def get(self, E, ref, key, strict, default):
        if isinstance(key, VSeq) and key.tag and key.tag[0] == 'pdskey':
            return self.G['value'](key.tag[1])
        raise Unsupported('PDS message: lookup of %r' % (key,))
