"""Library models used by iso8583 / mciipm text handling: single-byte codecs (abstract and table-driven),
datetime / decimal / re as opaque values with round-trip axioms."""
import codecs
import z3

from .values import *      # noqa
from .models import model, method, MODELS, METHOD_MODELS, _raise, small_len_split

LATIN1_NAMES = {'latin_1', 'latin1', 'latin-1', 'iso-8859-1', 'iso8859-1', 'l1', '8859', 'cp819'}
TABLE_CODECS = {'cp037', 'cp500', 'cp1140', 'cp273', 'cp1252', 'iso8859_15', 'ascii', 'utf-8', 'utf8', 'utf_8'}


class Codec:
    """a text encoding as seen by the engine"""

    def __init__(self, name, kind):
        self.name = name
        self.kind = kind            # 'latin1' | 'table' | 'abstract'
        if kind == 'table':
            self._build_tables()
        if kind == 'abstract':
            self.ENC = z3.Function('ENC_' + name, z3.IntSort(), z3.IntSort())
            self.DEC = z3.Function('DEC_' + name, z3.IntSort(), z3.IntSort())
            self.ENCODABLE = z3.Function('ENCODABLE_' + name, z3.IntSort(), z3.BoolSort())
            self.DECODABLE = z3.Function('DECODABLE_' + name, z3.IntSort(), z3.BoolSort())

    def _build_tables(self):
        name = 'ascii' if self.name in ('utf-8', 'utf8', 'utf_8') else self.name   # multi-byte forms of utf-8 are out of scope
        self.dec_tab = {}
        for b in range(256):
            try:
                self.dec_tab[b] = ord(bytes([b]).decode(name))
            except UnicodeDecodeError:
                pass
        self.enc_tab = {c: b for b, c in self.dec_tab.items()}

    # element-level terms
    def dec_elem(self, e):
        """(decodable Bool, code point term) of byte element e"""
        c = conc_int(e)
        if self.kind == 'latin1':
            return z3.BoolVal(True), e
        if self.kind == 'table':
            if c is not None:
                return z3.BoolVal(c in self.dec_tab), self.dec_tab.get(c, 0xFFFD)
            bv = z3.is_expr(e) and z3.is_bv(e)
            if bv and all(self.dec_tab.get(b) == b for b in range(128)) and all(b not in self.dec_tab for b in range(128, 256)):
                return z3.ULT(e, 128), e
            if bv:
                raise Unsupported('table codec on bit-vector bytes')
            ok = z3.Or(*[z3.And(e >= lo, e <= hi) for lo, hi in _ranges(sorted(self.dec_tab))]) if len(self.dec_tab) < 256 else z3.BoolVal(True)
            val = z3.IntVal(0xFFFD)
            # piecewise-linear table: group runs with constant offset
            for lo, hi, off in _offset_runs(self.dec_tab):
                val = z3.If(z3.And(e >= lo, e <= hi), e + off, val)
            return ok, val
        return self.DECODABLE(I(e)), self.DEC(I(e))

    def enc_elem(self, E, ch):
        """(encodable Bool, byte term) of code point ch"""
        c = conc_int(ch)
        if self.kind == 'latin1':
            if c is not None:
                return z3.BoolVal(c < 256), ch
            if z3.is_expr(ch) and z3.is_bv(ch):
                return z3.BoolVal(True), ch
            return ch < 256, ch
        if self.kind == 'table':
            if c is not None:
                return z3.BoolVal(c in self.enc_tab), self.enc_tab.get(c, 0x3F)
            if z3.is_expr(ch) and z3.is_bv(ch):
                if all(self.enc_tab.get(b) == b for b in range(128)):
                    return z3.ULT(ch, 128), ch
                raise Unsupported('table codec on bit-vector characters')
            ok = z3.Or(*[z3.And(ch >= lo, ch <= hi) for lo, hi in _ranges(sorted(self.enc_tab))])
            val = z3.IntVal(0x3F)
            for lo, hi, off in _offset_runs(self.enc_tab):
                val = z3.If(z3.And(ch >= lo, ch <= hi), ch + off, val)
            return ok, val
        x = I(ch)
        b = self.ENC(x)
        ok = self.ENCODABLE(x)
        # axioms of a single-byte codec, instantiated at this character
        E.fact(z3.And(b >= 0, b <= 255))
        E.fact(z3.Implies(ok, z3.And(self.DECODABLE(b), self.DEC(b) == x)))
        # the characters the wire format itself is made of are encodable in every ASCII- or EBCDIC-family codec
        E.fact(z3.Implies(z3.Or(z3.And(x >= 48, x <= 57), x == 32, z3.And(x >= 97, x <= 102), z3.And(x >= 65, x <= 70)), ok))
        return ok, b

    def dec_facts(self, E, e):
        if self.kind == 'abstract':
            x = I(e)
            d = self.DEC(x)
            E.fact(z3.Implies(self.DECODABLE(x), z3.And(d >= 0, d <= 0x10FFFF)))
            if getattr(self, 'bijective', False):
                E.fact(z3.And(self.DECODABLE(x), self.ENCODABLE(d), self.ENC(d) == x))


def _ranges(xs):
    out = []
    for x in xs:
        if out and out[-1][1] == x - 1:
            out[-1][1] = x
        else:
            out.append([x, x])
    return out


def _offset_runs(tab):
    runs = []
    for k in sorted(tab):
        off = tab[k] - k
        if runs and runs[-1][1] == k - 1 and runs[-1][2] == off:
            runs[-1][1] = k
        else:
            runs.append([k, k, off])
    return runs


_CODECS = {}


def abstract_codec_name(E, label='E'):
    """a symbolic encoding name (non-empty str) standing for ANY single-byte codec satisfying the axioms"""
    s = seq_lit('str', '<codec:%s>' % label)
    s.tag = ('codec', label)
    return s


def codec_of(E, enc):
    if enc is None or enc is NONE:
        name = 'utf-8'
    else:
        if isinstance(enc, VSeq) and enc.tag and enc.tag[0] == 'codec':
            label = enc.tag[1]
            key = 'abstract:' + label
            if key not in _CODECS:
                _CODECS[key] = Codec(label, 'abstract')
            return _CODECS[key]
        name = conc_str(enc)
        if name is None:
            raise Unsupported('symbolic encoding name')
        if name.startswith('<codec:'):
            label = name[7:-1]
            key = 'abstract:' + label
            if key not in _CODECS:
                _CODECS[key] = Codec(label, 'abstract')
            return _CODECS[key]
    n = name.lower().replace('-', '_') if name.lower() not in ('utf-8',) else 'utf-8'
    if name.lower() in LATIN1_NAMES or n in LATIN1_NAMES:
        key = 'latin1'
        if key not in _CODECS:
            _CODECS[key] = Codec('latin1', 'latin1')
        return _CODECS[key]
    try:
        canon = codecs.lookup(name).name.replace('-', '_')
    except LookupError:
        raise Unsupported('unknown encoding %r (LookupError in CPython)' % name)
    if canon in ('iso8859_1',):
        return codec_of(E, lift('latin_1'))
    if canon in TABLE_CODECS or canon.replace('_', '-') in TABLE_CODECS:
        if canon not in _CODECS:
            _CODECS[canon] = Codec(canon, 'table')
        return _CODECS[canon]
    raise Unsupported('encoding %r has no model' % name)


def _enc_arg(a, kw):
    if len(a) > 1:
        return a[1]
    if 'encoding' in kw:
        return kw['encoding']
    return None


@method('bytes', 'decode')
def m_decode(E, a, kw):
    b = a[0]
    cd = codec_of(E, _enc_arg(a, kw))
    if len(a) > 2 or 'errors' in kw:
        raise Unsupported('decode(errors=...)')
    b = E.fix_len(b)
    c = b.clen()
    if c is not None:
        oks, outs = [], []
        for k in range(c):
            e = b.at(z3.IntVal(k))
            ok, d = cd.dec_elem(e)
            cd.dec_facts(E, e)
            oks.append(ok)
            outs.append(d)
        if not E.branch(z3.And(*oks) if oks else z3.BoolVal(True)):
            _raise(E, UnicodeDecodeError, 'codec cannot decode byte')
        return seq_items('str', outs)
    if cd.kind == 'latin1':
        return VSeq('str', b.n, b.at)
    # symbolic length: either every byte decodes (facts added lazily per accessed element) or some byte w does not
    if E.branch(E.fresh_bool('decode_ok')):
        def at(i, b=b, cd=cd):
            e = b.at(i)
            ok, d = cd.dec_elem(e)
            E.fact(ok)
            cd.dec_facts(E, e)
            return d
        return VSeq('str', b.n, at)
    w = E.fresh_int('undecodable_at')
    E.assume(w >= 0)
    E.assume(w < b.n)
    ok, _ = cd.dec_elem(b.at(w))
    E.assume(z3.Not(ok))
    if not E.feasible(z3.BoolVal(True)):
        raise PathEnd()
    _raise(E, UnicodeDecodeError, 'codec cannot decode byte')


@method('str', 'encode')
def m_encode(E, a, kw):
    s = a[0]
    cd = codec_of(E, _enc_arg(a, kw))
    if len(a) > 2 or 'errors' in kw:
        raise Unsupported('encode(errors=...)')
    s = E.fix_len(s)
    c = s.clen()
    if c is not None:
        oks, outs = [], []
        for k in range(c):
            ok, e = cd.enc_elem(E, s.at(z3.IntVal(k)))
            oks.append(ok)
            outs.append(e)
        if not E.branch(z3.And(*oks) if oks else z3.BoolVal(True)):
            _raise(E, UnicodeEncodeError, 'codec cannot encode character')
        return seq_items('bytes', outs)
    if E.branch(E.fresh_bool('encode_ok')):
        def at(i, s=s, cd=cd):
            ok, e = cd.enc_elem(E, s.at(i))
            E.fact(ok)
            return e
        return VSeq('bytes', s.n, at)
    w = E.fresh_int('unencodable_at')
    E.assume(w >= 0)
    E.assume(w < s.n)
    ok, _ = cd.enc_elem(E, s.at(w))
    E.assume(z3.Not(ok))
    if not E.feasible(z3.BoolVal(True)):
        raise PathEnd()
    _raise(E, UnicodeEncodeError, 'codec cannot encode character')
