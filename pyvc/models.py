"""Library models (DESIGN section 6): assumed contracts on everything that leaves cardutil.

Defined models give closed-form results; abstract models are uninterpreted functions constrained by axioms
instantiated at the elements actually accessed (never quantified).  Each model records its use in
engine.models_used; the list ends up in the evidence file under `assumptions`.
"""
import ast
import binascii
import struct as _struct
import z3

from .values import *      # noqa
from . import values as _v


def install(E):
    from . import models_bv, models_iso      # noqa: register their models
    E.models.update(MODELS)
    E.method_models.update(METHOD_MODELS)


MODELS = {}
METHOD_MODELS = {}


def model(name):
    def deco(f):
        MODELS[name] = f
        return f
    return deco


def method(kind, name):
    def deco(f):
        for k in (kind if isinstance(kind, tuple) else (kind,)):
            METHOD_MODELS[(k, name)] = f
        return f
    return deco


def _raise(E, cls, msg=''):
    from .engine import PyRaise
    raise PyRaise(E.make_exc(cls, [lift(msg)]))


# ------------------------------------------------------------------------------------------------
# helpers

def small_len_split(E, s, maxn=8):
    """make the length of a short sequence concrete by case splitting (lengths 0..maxn)"""
    c = s.clen()
    if c is not None:
        return s
    for k in range(maxn + 1):
        if E.branch(s.n == k):
            return seq_items(s.kind, [s.at(z3.IntVal(i)) for i in range(k)])
    raise Unsupported('sequence length not bounded by %d' % maxn)


def is_ascii_digit(e):
    if isinstance(e, int):
        return z3.BoolVal(48 <= e <= 57)
    if z3.is_bv(e):
        return z3.And(z3.UGE(e, 48), z3.ULE(e, 57))
    return z3.And(e >= 48, e <= 57)


POW10 = [10 ** k for k in range(40)]


def ndigits_term(x, maxd=19, E=None):
    """number of decimal digits of x >= 0 (closed form up to maxd digits, uninterpreted above)"""
    big = z3.Function('NDIG', z3.IntSort(), z3.IntSort())
    r = big(x)
    if E is not None:
        E.fact(r > maxd)
    for d in range(maxd, 0, -1):
        r = z3.If(x < POW10[d], d, r)
    return r


def dec_fixed(v, W):
    """W-digit zero padded decimal of 0 <= v < 10^W as element closure"""
    def at(i, v=v, W=W):
        c = conc_int(i)
        if c is not None:
            if 0 <= c < W:
                return z3.simplify(48 + (v / POW10[W - 1 - c]) % 10)
            return 0
        r = 48 + v % 10
        for k in range(W - 2, -1, -1):
            r = z3.If(I(i) == k, 48 + (v / POW10[W - 1 - k]) % 10, r)
        return r
    return at


def nested_division_lemmas(E, t, W):
    """(t div 10^(j+1)) = (t div 10^j) div 10 : identities of floor division the solver needs to relate the decimal digits of
    t to t itself.  Each instance is discharged here as its own obligation before it is used as a fact."""
    import time
    from .engine import Obligation
    for j in range(0, W - 1):
        f = (t / POW10[j + 1]) == (t / POW10[j]) / 10
        if not E.replaying():
            t0 = time.time()
            s = z3.Solver()
            s.set('timeout', 20000)
            s.add(t >= 0, z3.Not(f))
            r = s.check()
            ob = Obligation('arith-lemma/nested-division[10^%d]' % (j + 1), 'I', [t >= 0], f, None, 'lemma-app')
            ob.unit = E.unit_name
            ob.status = 'unsat' if r == z3.unsat else 'unknown'
            ob.time = time.time() - t0
            E.obligations.append(ob)
            if r != z3.unsat:
                continue
        E.fact(z3.Implies(t >= 0, f))


def str_of_int(E, v):
    """str(v) for an int value"""
    t = I(v)
    c = conc_int(t)
    if c is not None:
        return seq_lit('str', str(c))
    # try to bound: single digit?
    if not E.feasible(z3.Or(t < 0, t > 9)):
        s = seq_items('str', [z3.simplify(48 + t)])
        s.tag = ('dec', t)
        return s
    nonneg = E.decide(t >= 0)
    if nonneg is True:
        neg = z3.BoolVal(False)
        a = t
        nd = ndigits_term(a, E=E)
        n = nd
    else:
        neg = t < 0
        a = z3.If(neg, -t, t)
        nd = ndigits_term(a, E=E)
        n = z3.If(neg, nd + 1, nd)
    other = z3.Function('DECDIG', z3.IntSort(), z3.IntSort(), z3.IntSort())

    def at(i, a=a, nd=nd, neg=neg):
        ii = I(i)
        j = ii if z3.is_false(neg) else z3.If(neg, ii - 1, ii)        # digit position from the left
        # digit = (a div 10^(nd-1-j)) mod 10 ; closed form for nd<=19 via nested If on (nd-1-j)
        e = nd - 1 - j
        r = other(a, e)
        for k in range(18, -1, -1):
            r = z3.If(e == k, (a / POW10[k]) % 10, r)
        d = 48 + r
        if z3.is_false(neg):
            return d
        return z3.If(z3.And(neg, ii == 0), 45, d)
    s = VSeq('str', n, at, tag=('dec', t))
    return s


# ------------------------------------------------------------------------------------------------
# builtins

@model('len')
def m_len(E, a, kw):
    v = a[0]
    if isinstance(v, VRef):
        k = E.kind_of(v)
        if k == 'list':
            return VInt(E.getf(v, 'val').n)
        if k == 'dict':
            d = E.getf(v, 'val')
            if isinstance(d, dict):
                return VInt(len(d))
            return d.length(E)
        if k == 'iter':
            raise Unsupported('len of iterator')
    if isinstance(v, VSeq):
        return VInt(v.n)
    if isinstance(v, VTuple):
        return VInt(len(v.items))
    if v is NONE or isinstance(v, (VInt, VBool)):
        _raise(E, TypeError, 'object has no len()')
    raise Unsupported('len(%r)' % (v,))


@model('isinstance')
def m_isinstance(E, a, kw):
    v, t = a
    if isinstance(t, VTuple):
        return VBool(z3.Or(*[m_isinstance(E, [v, x], {}).t for x in t.items]))
    if isinstance(t, VFunc) and t.kind == 'model':
        nm = t.name
        if nm == 'bytes':
            return VBool(isinstance(v, VSeq) and v.kind == 'bytes')
        if nm == 'str':
            return VBool(isinstance(v, VSeq) and v.kind == 'str')
        if nm == 'int':
            return VBool(isinstance(v, (VInt, VBool, VBV)))
        if nm == 'bool':
            return VBool(isinstance(v, VBool))
        if nm == 'dict':
            return VBool(isinstance(v, VRef) and E.kind_of(v) == 'dict')
        if nm == 'list':
            return VBool(isinstance(v, VRef) and E.kind_of(v) == 'list')
        if nm == 'datetime.datetime':
            return VBool(isinstance(v, VOpaque) and v.sort_name == 'datetime')
    if isinstance(t, VClass):
        if isinstance(v, VRef) and isinstance(E.cell(v).get('__class__'), type(t.info)):
            return VBool(E.program.is_subclass(E.cell(v)['__class__'], t.info))
        return VBool(False)
    raise Unsupported('isinstance(_, %r)' % (t,))


@model('getattr')
def m_getattr(E, a, kw):
    v, name = a[0], a[1]
    nm = conc_str(name)
    if nm is None:
        raise Unsupported('getattr with a symbolic name')
    if len(a) > 2:
        if not bool_lit(m_hasattr(E, [v, name], {}).t):
            return a[2]
    return E.getattr_value(v, nm)


@model('setattr')
def m_setattr(E, a, kw):
    obj, name, val = a[0], a[1], a[2]
    nm = conc_str(name)
    if nm is None:
        raise Unsupported('setattr with a symbolic name')
    E.setattr_value(obj, nm, val)
    return NONE


@model('tuple')
def m_tuple(E, a, kw):
    if not a:
        return VTuple([])
    return VTuple(E.iter_items(a[0]))


@model('set')
def m_set(E, a, kw):
    """sets are only used for membership tests in cardutil-sized code: an immutable tuple of the distinct concrete members"""
    if not a:
        return VTuple([])
    items = E.iter_items(a[0])
    out, seen = [], set()
    for it in items:
        k = conc_str(it) if isinstance(it, VSeq) else (it.conc() if isinstance(it, VInt) else None)
        if k is None:
            raise Unsupported('set() of symbolic members')
        if k not in seen:
            seen.add(k)
            out.append(it)
    return VTuple(out)


MODELS['frozenset'] = m_set


@model('hasattr')
def m_hasattr(E, a, kw):
    v, name = a
    nm = conc_str(name)
    if isinstance(v, VRef) and E.kind_of(v) not in ('obj', 'exc'):
        k = E.kind_of(v)
        return VBool((k, nm) in METHOD_MODELS or nm in E.cell(v))
    if isinstance(v, VRef) and E.kind_of(v) in ('obj', 'exc'):
        c = E.cell(v)
        if nm in c:
            return VBool(True)
        ci = c['__class__']
        if E.program.find_method(ci, nm) is not None:
            return VBool(True)
        if E.program.find_class_attr(ci, nm)[1] is not None:
            return VBool(True)
        if E.program.find_method(ci, '__getattr__') is not None:
            return VBool(True)          # a catch-all __getattr__ answers every name (cardutil's return None for unknown ones)
        return VBool(False)
    raise Unsupported('hasattr on %r' % (v,))


@model('slice')
def m_slice(E, a, kw):
    a = list(a) + [NONE] * (3 - len(a))
    if len([x for x in a if x is not NONE]) == 1 and a[1] is NONE:
        return VSlice(NONE, a[0], NONE)
    return VSlice(a[0], a[1], a[2])


@model('bool')
def m_bool(E, a, kw):
    return VBool(E.truth(a[0])) if a else VBool(False)


@model('print')
def m_print(E, a, kw):
    E.stdout.append(list(a))
    return NONE


@model('range')
def m_range(E, a, kw):
    if len(a) == 1:
        lo, hi = z3.IntVal(0), E.as_int(a[0])
    elif len(a) == 2:
        lo, hi = E.as_int(a[0]), E.as_int(a[1])
    else:
        raise Unsupported('range with step')
    n = z3.simplify(z3.If(hi - lo < 0, 0, hi - lo))
    cl, cn = conc_int(lo), conc_int(n)
    if cl is not None and cn is not None and cn <= 4096:
        return seq_items('list', [VInt(cl + k) for k in range(cn)])
    return VSeq('list', n, lambda i, lo=lo: VInt(z3.simplify(lo + I(i))))


@model('enumerate')
def m_enumerate(E, a, kw):
    sq = E.list_val(a[0])
    st = a[1] if len(a) > 1 else kw.get('start', VInt(0))
    st = E.as_int(st)
    c = sq.clen()
    if c is not None:
        return seq_items('list', [VTuple([VInt(z3.simplify(st + k)), E.seq_elem_value(sq, z3.IntVal(k))]) for k in range(c)])
    return VSeq('list', sq.n, lambda i, sq=sq: VTuple([VInt(z3.simplify(st + I(i))), E.seq_elem_value(sq, i)]))


@model('reversed')
def m_reversed(E, a, kw):
    sq = E.list_val(a[0])
    if sq.kind != 'list':
        sq = VSeq('list', sq.n, lambda i, s=sq: E.seq_elem_value(s, i)) if sq.items is None else seq_items('list', [E.seq_elem_value(sq, z3.IntVal(k)) for k in range(len(sq.items))])
    return E.new_list(seq_reverse(sq))


@model('itertools.cycle')
def m_cycle(E, a, kw):
    sq = E.list_val(a[0])
    c = sq.clen()
    if c is None or c == 0:
        raise Unsupported('cycle of symbolic/empty sequence')
    return E.new_cell({'__kind__': 'cycle', 'seq': sq, 'period': c, 'pos': VInt(0)})


@model('zip')
def m_zip(E, a, kw):
    seqs = []
    n = None
    cycles = []
    for x in a:
        if isinstance(x, VRef) and E.kind_of(x) == 'cycle':
            seqs.append(('cycle', E.getf(x, 'seq'), (E.getf(x, 'period'), E.as_int(E.getf(x, 'pos')))))
            cycles.append(x)
        else:
            sq = E.list_val(x)
            seqs.append(('seq', sq, None))
            n = sq.n if n is None else z3.If(sq.n < n, sq.n, n)
    if n is None:
        raise Unsupported('zip of only infinite iterables')
    n = z3.simplify(n)

    def at(i, seqs=seqs):
        out = []
        for kind, sq, per in seqs:
            if kind == 'cycle':
                out.append(E.seq_elem_value(sq, z3.simplify((per[1] + I(i)) % per[0])))
            else:
                out.append(E.seq_elem_value(sq, i))
        return VTuple(out)
    # an iterator that zip() draws from is advanced (zip takes one extra item from iterators listed BEFORE the exhausted one;
    # cardutil lists the finite sequence first, so exactly n items are taken)
    for x in cycles:
        if a.index(x) != 0:
            E.setf(x, 'pos', VInt(z3.simplify(E.as_int(E.getf(x, 'pos')) + n)))
        else:
            E.setf(x, 'pos', VInt(z3.simplify(E.as_int(E.getf(x, 'pos')) + n + 1)))
    cn = conc_int(n)
    if cn is not None and cn <= 4096:
        return seq_items('list', [at(z3.IntVal(k)) for k in range(cn)])
    return VSeq('list', n, at)


SIGMA = z3.Function('SIGMA', z3.ArraySort(z3.IntSort(), z3.IntSort()), z3.IntSort(), z3.IntSort())


def sigma_of(E, f, n):
    """Σ_{i<n} f(i) as SIGMA(λi.f(i), n) ; f maps Int term -> Int term"""
    i = z3.Int('σi')
    body = f(i)
    lam = z3.Lambda([i], body)
    if E is not None:
        E.sigmas.append((lam, n, f))
    return SIGMA(lam, n)


def use_sigma_congruence(E, tier='I'):
    """lemma application (Σ-congruence, proved by induction in contracts/lemmas.py):
    for recorded sums Σ(f1,n1), Σ(f2,n2) with n1 = n2 and f1 = f2 on [0,n) conclude Σ(f1,n1) = Σ(f2,n2).
    The side conditions are checked right here; each successful application is recorded as a discharged
    obligation of kind 'lemma-app'."""
    import time
    from .engine import Obligation
    sg = list(E.sigmas)
    for a in range(len(sg)):
        for b in range(a + 1, len(sg)):
            l1, n1, f1 = sg[a]
            l2, n2, f2 = sg[b]
            if l1.eq(l2):
                continue
            t0 = time.time()
            if E.feasible(n1 != n2):
                continue
            k = z3.Int('σk')
            side = z3.And(k >= 0, k < n1, f1(k) != f2(k))
            if E.feasible(side):
                continue
            if not E.replaying():
                ob = Obligation('sigma-congruence#%d,%d' % (a, b), tier, list(E.pc),
                                z3.And(n1 == n2, z3.Not(side)), None, 'lemma-app')
                ob.unit = E.unit_name
                ob.status = 'unsat'
                ob.time = time.time() - t0
                E.obligations.append(ob)
            E.fact(SIGMA(l1, n1) == SIGMA(l2, n2))


def sigma_unfold_facts(f_arr, n):
    """defining equations of SIGMA instantiated at n (n >= 0):  Σ(f,0)=0, Σ(f,n+1)=Σ(f,n)+f[n]"""
    return [SIGMA(f_arr, 0) == 0, z3.Implies(n >= 0, SIGMA(f_arr, n + 1) == SIGMA(f_arr, n) + z3.Select(f_arr, n))]


@model('sum')
def m_sum(E, a, kw):
    sq = E.list_val(a[0])
    c = sq.clen()
    if c is not None:
        t = z3.IntVal(0)
        for k in range(c):
            t = t + E.as_int(sq.at(z3.IntVal(k)))
        return VInt(z3.simplify(t))
    return VInt(sigma_of(E, lambda i: E.as_int(sq.at(i)), sq.n))


@model('any')
def m_any(E, a, kw):
    items = E.iter_items(a[0])
    for x in items:
        if E.branch(E.truth(x)):
            return TRUE
    return FALSE


@model('all')
def m_all(E, a, kw):
    items = E.iter_items(a[0])
    for x in items:
        if not E.branch(E.truth(x)):
            return FALSE
    return TRUE


@model('chr')
def m_chr(E, a, kw):
    v = E.as_int(a[0])
    if E.branch(z3.Or(v < 0, v > 0x10FFFF)):
        _raise(E, ValueError, 'chr() arg not in range(0x110000)')
    return seq_items('str', [z3.simplify(v)])


@model('dict.fromkeys')
def m_dict_fromkeys(E, a, kw):
    keys = E.iter_items(a[0])
    val = a[1] if len(a) > 1 else NONE
    return E.new_dict({E.dict_key(k): val for k in keys})


@model('bytes.fromhex')
def m_bytes_fromhex(E, a, kw):
    cs = conc_str(a[0]) if isinstance(a[0], VSeq) else None
    if cs is None:
        raise Unsupported('bytes.fromhex of symbolic text')
    try:
        return lift(bytes.fromhex(cs))
    except ValueError:
        _raise(E, ValueError, 'non-hexadecimal number found in fromhex() arg')


@model('divmod')
def m_divmod(E, a, kw):
    x, y = E.as_int(a[0]), E.as_int(a[1])
    cy = conc_int(y)
    if cy is None or cy <= 0:
        raise Unsupported('divmod with non-constant / non-positive divisor')
    return VTuple([VInt(z3.simplify(x / y)), VInt(z3.simplify(x % y))])


@model('min')
def m_min(E, a, kw):
    if len(a) == 2:
        x, y = E.as_int(a[0]), E.as_int(a[1])
        return VInt(z3.simplify(z3.If(x <= y, x, y)))
    raise Unsupported('min')


@model('max')
def m_max(E, a, kw):
    if len(a) == 2:
        x, y = E.as_int(a[0]), E.as_int(a[1])
        return VInt(z3.simplify(z3.If(x >= y, x, y)))
    raise Unsupported('max')


@model('str')
def m_str(E, a, kw):
    if not a:
        return seq_lit('str', '')
    v = a[0]
    if isinstance(v, VSeq) and v.kind == 'str':
        return v
    if isinstance(v, VInt):
        return str_of_int(E, v.t)
    if isinstance(v, VBV):
        return format_value(E, v, lift(''))
    if isinstance(v, VBool):
        bl = bool_lit(v.t)
        if bl is None:
            raise Unsupported('str(symbolic bool)')
        return seq_lit('str', 'True' if bl else 'False')
    if v is NONE:
        return seq_lit('str', 'None')
    if isinstance(v, (VFunc, VClass, VModule)):
        return seq_lit('str', '<%s>' % type(v).__name__)
    if isinstance(v, VOpaque) and v.sort_name == 'datetime':
        from . import models_iso
        return models_iso.str_of_datetime(E, v)
    if isinstance(v, VRef) and E.kind_of(v) in ('exc', 'obj'):
        return VSeq('str', E.fresh_int('strlen'), lambda i: z3.Int('strch'))
    raise Unsupported('str(%r)' % (v,))


@model('bytes')
def m_bytes(E, a, kw):
    if not a:
        return seq_lit('bytes', b'')
    raise Unsupported('bytes(...)')


@model('list')
def m_list(E, a, kw):
    if not a:
        return E.new_list(seq_items('list', []))
    v = a[0]
    if isinstance(v, VRef) and E.kind_of(v) in ('obj',):
        raise Unsupported('list(iterator object)')
    if isinstance(v, VRef) and E.kind_of(v) == 'dict':
        return E.new_list(seq_items('list', E.iter_items(v)))
    sq = E.list_val(v)
    if sq.kind != 'list':
        sq = VSeq('list', sq.n, lambda i, sq=sq: E.seq_elem_value(sq, i), items=None)
    return E.new_list(sq)


@model('dict')
def m_dict(E, a, kw):
    if not a and not kw:
        return E.new_dict({})
    raise Unsupported('dict(...)')


class VUnknownElem(V):
    """element of an abstractly sorted list: any use is unsupported"""

    def __repr__(self):
        return '<element of sorted(symbolic list)>'


@model('sorted')
def m_sorted(E, a, kw):
    sq = E.list_val(a[0])
    c = sq.clen()
    if c is None and sq.tag and sq.tag[0] == 'pdskeys':
        return E.new_list(sq.tag[1]['sorted'])      # sorted() of the keys of a PdsMsg: its ascending key list (contract of sorted)
    if c is None:
        # some permutation of the input: same length, elements uninterpreted (sound for callers that only use it abstractly)
        perm = E.fresh_seq('list', 'sorted_perm')
        return E.new_list(VSeq('list', sq.n, lambda i: VUnknownElem()))
    items = [sq.at(z3.IntVal(k)) for k in range(c)]
    keys = []
    for it in items:
        if isinstance(it, VInt) and it.conc() is not None:
            keys.append(it.conc())
        elif isinstance(it, VSeq) and conc_str(it) is not None:
            keys.append(conc_str(it))
        else:
            raise Unsupported('sorted on symbolic elements')
    rev = False
    if 'reverse' in kw:
        rev = bool_lit(E.truth(kw['reverse']))
        if rev is None:
            raise Unsupported('sorted reverse symbolic')
    order = sorted(range(c), key=lambda k: keys[k], reverse=rev)
    return E.new_list(seq_items('list', [items[k] for k in order]))


@model('int')
def m_int(E, a, kw):
    if not a:
        return VInt(0)
    v = a[0]
    base = 10
    if len(a) > 1:
        base = conc_int(E.as_int(a[1]))
    if isinstance(v, VInt):
        return v
    if isinstance(v, VBV):
        return v
    if isinstance(v, VBool):
        return VInt(z3.If(v.t, 1, 0))
    if isinstance(v, VOpaque) and v.sort_name == 'decimal':
        raise Unsupported('int(Decimal)')
    if isinstance(v, VSeq) and v.kind in ('str', 'bytes'):
        return int_of_seq(E, v, base)
    if v is NONE:
        _raise(E, TypeError, 'int() argument must be a string')
    raise Unsupported('int(%r)' % (v,))


INTVAL = z3.Function('INTVAL', z3.ArraySort(z3.IntSort(), z3.IntSort()), z3.IntSort(), z3.IntSort())


def reify(s, n=None):
    """canonical z3 array of a sequence (zero outside [0,len)) for uninterpreted-function arguments"""
    i = z3.Int('ρi')
    n = s.n if n is None else n
    e = s.at(i)
    if isinstance(e, int):
        e = z3.IntVal(e)
    return z3.Lambda([i], z3.If(z3.And(i >= 0, i < n), e, 0))


def int_of_seq(E, v, base):
    if base == 10 and v.tag and v.tag[0] in ('dec', 'dec0') and v.kind == 'str':
        return VInt(v.tag[1])              # library identity: int(str(n)) = n, int(format(n, '0Wd')) = n
    cs = conc_str(v)
    if cs is not None:
        try:
            return VInt(int(cs, base))
        except ValueError:
            _raise(E, ValueError, 'invalid literal for int()')
    first = v.at(z3.IntVal(0)) if (v.clen() or 0) > 0 else None
    if first is not None and z3.is_expr(first) and z3.is_bv(first) or any(z3.is_expr(x) and z3.is_bv(x) for x in (v.items or [])):
        from . import models_bv
        return models_bv.int_of_hex(E, v, base)
    if base == 2 and v.clen() is not None and v.clen() > 0:
        els = [v.at(z3.IntVal(k)) for k in range(v.clen())]
        if not E.branch(z3.And(*[z3.Or(I(e) == 48, I(e) == 49) for e in els])):
            _raise(E, ValueError, 'invalid literal for int() with base 2')
        t = None
        for e in els:
            bit = z3.If(I(e) == 49, z3.BitVecVal(1, 1), z3.BitVecVal(0, 1))
            t = bit if t is None else z3.Concat(t, bit)
        return VBV(z3.simplify(t))
    if base != 10:
        raise Unsupported('int(symbolic, base %s) outside the bit-vector domain' % base)
    c = v.clen()
    if c is None:
        # bounded short strings are split, long ones are abstract
        if not E.feasible(v.n > 8):
            v = small_len_split(E, v, 8)
            c = v.clen()
    if c is not None:
        if c == 0:
            _raise(E, ValueError, 'invalid literal for int()')
        els = [v.at(z3.IntVal(k)) for k in range(c)]
        alld = z3.And(*[is_ascii_digit(e) for e in els])
        if E.branch(alld):
            t = z3.IntVal(0)
            for k, e in enumerate(els):
                t = t + (I(e) - 48) * POW10[c - 1 - k]
            return VInt(z3.simplify(t))
        # not plain ASCII digits: sign, whitespace, underscore, non-ASCII digits ... :
        # sound over-approximation = either ValueError or ANY integer of either sign
        if E.branch(E.fresh_bool('int_accepts_nondigit')):
            return VInt(E.fresh_int('int_nondigit'))
        _raise(E, ValueError, 'invalid literal for int()')
    # symbolic length: ValueError or an integer given by an uninterpreted function of the content
    if E.branch(E.fresh_bool('int_ok')):
        return VInt(INTVAL(reify(v), v.n))
    _raise(E, ValueError, 'invalid literal for int()')


# ---- format / f-strings ---------------------------------------------------------------------

def spec_parts(E, spec):
    """format spec as python str when concrete, else list of parts (str | ('dec', term))"""
    cs = conc_str(spec)
    if cs is not None:
        return cs
    raise Unsupported('symbolic format spec')


def parse_spec(cs):
    """minimal parser of the format-spec mini language: [[fill]align][0][width][type]"""
    fill, align, zero, width, typ = None, None, False, None, None
    s = cs
    if len(s) >= 2 and s[1] in '<>^=':
        fill, align, s = s[0], s[1], s[2:]
    elif len(s) >= 1 and s[0] in '<>^=':
        align, s = s[0], s[1:]
    if s.startswith('0'):
        zero = True
        s = s[1:]
    num = ''
    while s and s[0].isdigit():
        num += s[0]
        s = s[1:]
    if num:
        width = int(num)
    if s:
        typ = s
    return fill, align, zero, width, typ


def parse_spec_parts(parts):
    """format spec given as literal / decimal pieces, e.g. '<' + str(n)  or  '0' + str(n) + 'd' : width may be a term"""
    lits = ''.join(p[1] if p[0] == 'lit' else '\0' for p in parts)
    decs = [p[1] for p in parts if p[0] == 'dec']
    if len(decs) != 1:
        raise Unsupported('format spec with %d symbolic pieces' % len(decs))
    head, tail = lits.split('\0')
    fill, align, zero, width, typ = parse_spec(head + '1' + tail)     # parse with a placeholder width
    if head and head[-1].isdigit() and head[-1] != '0':
        raise Unsupported('format spec width with literal and symbolic digits')
    if tail and tail[0].isdigit():
        raise Unsupported('format spec width with literal and symbolic digits')
    return fill, align, zero, decs[0], typ


def format_value(E, v, spec):
    cs = conc_str(spec) if spec is not None else ''
    if cs == '' and isinstance(v, VSeq):
        return v
    if cs is None:
        parts = seq_parts(spec)
        if parts is None:
            raise Unsupported('symbolic format spec')
        fill, align, zero, width, typ = parse_spec_parts(parts)
        cw = conc_int(width)
        if cw is not None:
            width = cw
            cs = '%s%s%s%s%s' % (fill or '', align or '', '0' if zero else '', cw, typ or '')
        else:
            cs = '<symbolic width>'
    else:
        fill, align, zero, width, typ = parse_spec(cs)
    if isinstance(v, VOpaque) and v.sort_name == 'datetime':
        from . import models_iso
        return models_iso.format_datetime(E, v, cs)
    if isinstance(v, VOpaque) and v.sort_name == 'decimal':
        from . import models_iso
        return models_iso.format_decimal(E, v, cs)
    if isinstance(v, VBV):
        from . import models_bv
        return models_bv.format_bv(E, v, fill, align, zero, width, typ)
    if isinstance(v, VSeq) and v.kind == 'str':
        if typ not in (None, 's') or zero:
            if zero and typ in (None, 's') and align is None:
                fill, align = '0', '<'
            else:
                _raise(E, ValueError, 'Unknown format code for str')
        if width is None:
            return v
        fillc = ord(fill) if fill else 32
        al = align or '<'
        if al != '<':
            raise Unsupported('str alignment %s' % al)
        n = v.n
        if isinstance(width, int) and v.items is not None:
            items = list(v.items) + [fillc] * max(0, width - len(v.items))
            return seq_items('str', items)
        wt = I(width)
        tot = z3.simplify(dite(E.decide, n >= wt, n, wt))
        def at(i, v=v, n=n, fillc=fillc):
            c = I(i) < n
            d = bool_lit(c)
            if d is None:
                d = E.decide(c)
            if d is True:
                return v.at(i)
            if d is False:
                return fillc
            return ite(c, v.at(i), fillc)
        return VSeq('str', tot, at)
    if isinstance(v, (VInt, VBool)):
        t = E.as_int(v)
        c = conc_int(t)
        if typ in (None, 'd'):
            if c is not None:
                return seq_lit('str', format(c, cs))
            if align is not None or (fill is not None):
                raise Unsupported('int format with alignment')
            if width is None:
                return str_of_int(E, t)
            if not zero:
                raise Unsupported('space padded int format')
            if not isinstance(width, int):
                raise Unsupported('zero padded int format with symbolic width')
            W = width
            main = z3.And(t >= 0, t < POW10[W])
            nested_division_lemmas(E, t, W)
            if not E.feasible(z3.Not(main)):
                return VSeq('str', W, dec_fixed(t, W), tag=('dec0', t, W))
            # value does not fit / negative: longer than W or carrying a sign; content uninterpreted
            oth = E.fresh_seq('str', 'fmt_overflow')
            E.fact(z3.Implies(t >= POW10[W], oth.n > W))
            E.fact(z3.Implies(t < 0, oth.n >= W))
            E.fact(oth.n >= 1)
            fx = dec_fixed(t, W)
            return VSeq('str', z3.If(main, W, oth.n), lambda i, fx=fx, oth=oth, main=main: z3.If(main, fx(i), oth.at(i)),
                        tag=('dec0', t, W))
        if typ in ('x', 'X', 'b', 'o'):
            if c is not None:
                return seq_lit('str', format(c, cs))
            raise Unsupported('hex/binary format of unbounded symbolic int')
        raise Unsupported('int format %r' % cs)
    if isinstance(v, VSeq) and v.kind == 'bytes':
        _raise(E, TypeError, 'unsupported format string passed to bytes.__format__')
    if v is NONE:
        if cs == '':
            return seq_lit('str', 'None')
        _raise(E, TypeError, 'unsupported format string passed to NoneType.__format__')
    raise Unsupported('format(%r, %r)' % (v, cs))


@model('format')
def m_format(E, a, kw):
    v = a[0]
    spec = a[1] if len(a) > 1 else None
    if spec is not None and not (isinstance(spec, VSeq) and spec.kind == 'str'):
        _raise(E, TypeError, 'format() argument 2 must be str')
    return format_value(E, v, spec)


def joined_str(E, e, fr):
    out = seq_lit('str', '')
    for part in e.values:
        if isinstance(part, ast.Constant):
            out = seq_concat(out, lift(part.value))
        elif isinstance(part, ast.FormattedValue):
            v = E.eval(part.value, fr)
            if part.conversion not in (-1, 115):
                raise Unsupported('f-string conversion')
            spec = E.eval(part.format_spec, fr) if part.format_spec is not None else None
            if spec is None or conc_str(spec) == '':
                if isinstance(v, VSeq) and v.kind == 'str':
                    s = v
                else:
                    s = E.call_value(VFunc('model', MODELS['str'], name='str'), [v], {}) if not isinstance(v, (VBV,)) else format_value(E, v, lift(''))
            else:
                s = format_value(E, v, spec)
            out = seq_concat(out, s)
        else:
            raise Unsupported('f-string part')
    return out


@method('str', 'format')
def m_str_format(E, a, kw):
    """str.format for concrete templates with {}, {name}, {0} fields and (possibly nested) format specs"""
    import string
    tmpl = conc_str(a[0])
    if tmpl is None:
        raise Unsupported('str.format on a symbolic template')
    args = a[1:]
    auto = [0]

    def lookup(name):
        if name == '':
            v = args[auto[0]]
            auto[0] += 1
            return v
        if name.isdigit():
            return args[int(name)]
        if '.' in name or '[' in name:
            raise Unsupported('attribute/index lookup in format field')
        if name not in kw:
            _raise(E, KeyError, name)
        return kw[name]
    out = seq_lit('str', '')
    for lit, field, spec, conv in string.Formatter().parse(tmpl):
        if lit:
            out = seq_concat(out, seq_lit('str', lit))
        if field is None:
            continue
        if conv not in (None, 's'):
            raise Unsupported('format conversion')
        v = lookup(field)
        if spec and '{' in spec:
            sp = ''
            for l2, f2, s2, c2 in string.Formatter().parse(spec):
                sp += l2 or ''
                if f2 is not None:
                    inner = lookup(f2)
                    ci = conc_int(E.as_int(inner)) if isinstance(inner, (VInt, VBV)) else None
                    if ci is None:
                        cs = conc_str(inner) if isinstance(inner, VSeq) else None
                        if cs is None:
                            raise Unsupported('symbolic nested format spec')
                        sp += cs
                    else:
                        sp += str(ci)
            spec = sp
        if spec:
            piece = format_value(E, v, seq_lit('str', spec))
        elif isinstance(v, VSeq) and v.kind == 'str':
            piece = v
        else:
            piece = E.call_value(VFunc('model', MODELS['str'], name='str'), [v], {})
        out = seq_concat(out, piece)
    return out


# ---- comprehensions ---------------------------------------------------------------------------

def list_comp(E, e, fr, lazy=False):
    if len(e.generators) != 1:
        raise Unsupported('nested comprehension')
    g = e.generators[0]
    it = E.eval(g.iter, fr)
    if isinstance(it, VRef) and E.kind_of(it) == 'dict' and hasattr(E.getf(it, 'val'), 'iter_keys_seq'):
        sq = E.getf(it, 'val').iter_keys_seq(E)
        raw = True
    elif isinstance(it, VRef) and E.kind_of(it) in ('dict', 'iter') or isinstance(it, VTuple):
        items = E.iter_items(it)
        sq = seq_items('list', items)
        raw = True
    elif isinstance(it, VRef) and E.kind_of(it) == 'obj':
        # iterator object (reader): materialise by bounded unrolling
        from .engine import PyRaise, MAX_UNROLL
        items = []
        while True:
            if len(items) > MAX_UNROLL:
                raise Unsupported('comprehension over unbounded iterator')
            try:
                items.append(E.call_value(E.getattr_value(it, '__next__', fr), [], {}))
            except PyRaise as pr:
                if E.exc_is(pr.exc, StopIteration):
                    break
                raise
        sq = seq_items('list', items)
        raw = True
    else:
        sq = E.list_val(it)
        raw = False
    saved = dict(fr.locals)

    def elem(i):
        return sq.at(i) if (raw or sq.kind == 'list') else E.seq_elem_value(sq, i)

    c = sq.clen()
    if c is not None:
        out = []          # (selector Bool | True, element)
        symbolic = False
        for k in range(c):
            E.assign(g.target, elem(z3.IntVal(k)), fr)
            sel = z3.BoolVal(True)
            for cond in g.ifs:
                sel = z3.simplify(z3.And(sel, E.truth(E.eval(cond, fr))))
            d = bool_lit(sel)
            if d is False:
                continue
            if d is True:
                out.append((True, E.eval(e.elt, fr)))
                continue
            # undecided filter: keep the selector symbolic instead of forking 2^n paths
            symbolic = True
            pc_saved = list(E.pc), set(E._pc_ids), E.no_fork
            E.fact(sel)
            E.no_fork = True
            try:
                v = E.eval(e.elt, fr)
            finally:
                E.pc, E._pc_ids, E.no_fork = pc_saved
            out.append((sel, v))
        _restore(fr, saved)
        if not symbolic:
            return E.new_list(seq_items('list', [v for _, v in out]))
        return E.new_list(filtered_seq(out))
    # symbolic length: pure map; a filter is accepted only if it is valid at a generic index
    k = E.fresh_int('ci')
    pc_saved = list(E.pc), set(E._pc_ids)
    E.fact(k >= 0)
    E.fact(k < sq.n)
    E.assign(g.target, elem(k), fr)
    for cond in g.ifs:
        t = E.truth(E.eval(cond, fr))
        if E.feasible(z3.Not(t)):
            E.pc, E._pc_ids = pc_saved
            _restore(fr, saved)
            return abstract_filtered_comp(E, e, g, fr, sq, elem, saved)
    E.pc, E._pc_ids = pc_saved
    locs_at = dict(fr.locals)
    _restore(fr, saved)

    def at(i, g=g, e=e):
        sv = dict(fr.locals)
        E.assign(g.target, elem(i), fr)
        try:
            return E.eval(e.elt, fr)
        finally:
            _restore(fr, sv)
    res = VSeq('list', sq.n, at)
    if isinstance(e.elt, ast.Name) and isinstance(g.target, ast.Name) and e.elt.id == g.target.id:
        res.tag = sq.tag            # identity comprehension keeps the provenance of the sequence
    return E.new_list(res)


def abstract_filtered_comp(E, e, g, fr, sq, elem, saved):
    """[elt for x in seq if cond] over a sequence of ANY length with a filter that is not always true: the result is the
    subsequence selected by a strictly increasing index function SEL (uninterpreted) of some length m <= len(seq):
        result[j] = elt(seq[SEL(j)]),  cond(seq[SEL(j)]),  0 <= SEL(j) < len(seq),  SEL(j) < SEL(j+1)
    Such SEL, m exist for every concrete sequence (the positions the filter accepts), and only instances of these facts are
    used, so this is a sound abstraction; that SEL hits EVERY accepted position is stated through the skolem function RANK
    (rank_facts, instantiated by the unit at its generic index).  The view is exposed in E.ghost['filtered']"""
    m = E.fresh_int('nsel')
    SEL = z3.Function(E.fresh_name('SEL'), z3.IntSort(), z3.IntSort())
    E.fact(z3.And(m >= 0, m <= sq.n))

    def sel_facts(j):
        j = I(j)
        i = SEL(j)
        fs = [z3.Implies(z3.And(j >= 0, j < m), z3.And(i >= 0, i < sq.n)), z3.Implies(z3.And(j >= 0, j + 1 < m), SEL(j) < SEL(j + 1))]
        sv = dict(fr.locals)
        E.assign(g.target, elem(i), fr)
        saved_fork = E.no_fork
        E.no_fork = True
        try:
            for cond in g.ifs:
                fs.append(z3.Implies(z3.And(j >= 0, j < m), E.truth(E.eval(cond, fr))))
        finally:
            E.no_fork = saved_fork
            _restore(fr, sv)
        return fs

    def at(j, g=g, e=e):
        for f in sel_facts(j):
            E.fact(f)
        sv = dict(fr.locals)
        E.assign(g.target, elem(SEL(I(j))), fr)
        # the element expression is evaluated for an index inside the selection (outside it the term is never used)
        pc_saved = list(E.pc), set(E._pc_ids), E.no_fork
        E.fact(z3.And(I(j) >= 0, I(j) < m))
        E.no_fork = True
        try:
            return E.eval(e.elt, fr)
        finally:
            E.pc, E._pc_ids, E.no_fork = pc_saved
            _restore(fr, sv)
    # completeness of the selection (Python evaluates the filter at EVERY position, in order): an accepted position i is
    # the SEL-image of its rank.  RANK is the skolem function of "exists j. SEL(j) = i"; instantiated on request only.
    RANK = z3.Function(E.fresh_name('RANK'), z3.IntSort(), z3.IntSort())

    def rank_facts(i):
        i = I(i)
        sv = dict(fr.locals)
        E.assign(g.target, elem(i), fr)
        saved_fork = E.no_fork
        E.no_fork = True
        try:
            acc = [E.truth(E.eval(cond, fr)) for cond in g.ifs]
        finally:
            E.no_fork = saved_fork
            _restore(fr, sv)
        r = RANK(i)
        return [z3.Implies(z3.And(i >= 0, i < sq.n, *acc), z3.And(r >= 0, r < m, SEL(r) == i))]
    E.ghost['filtered'] = {'m': m, 'SEL': SEL, 'source': sq, 'RANK': RANK, 'sel_facts': sel_facts, 'rank_facts': rank_facts}
    return E.new_list(VSeq('list', m, at))


def filtered_seq(cands):
    """list of the selected candidates, in order: cands = [(selector Bool | True, value)]"""
    sels = [z3.BoolVal(True) if s is True else s for s, _ in cands]
    ranks = []
    acc = z3.IntVal(0)
    for sl in sels:
        ranks.append(acc)
        acc = z3.simplify(acc + z3.If(sl, 1, 0))
    n = acc
    vals = [v for _, v in cands]

    def at(j, sels=sels, ranks=ranks, vals=vals):
        r = vals[-1]
        for k in range(len(vals) - 2, -1, -1):
            r = merge_values(z3.And(sels[k], ranks[k] == I(j)), vals[k], r)
        return r
    return VSeq('list', n, at)


def _restore(fr, saved):
    fr.locals.clear()
    fr.locals.update(saved)


def dict_comp(E, e, fr):
    if len(e.generators) != 1:
        raise Unsupported('nested comprehension')
    g = e.generators[0]
    it = E.eval(g.iter, fr)
    items = E.iter_items(it)
    saved = dict(fr.locals)
    d = {}
    for x in items:
        E.assign(g.target, x, fr)
        ok = True
        for cond in g.ifs:
            if not E.branch(E.truth(E.eval(cond, fr))):
                ok = False
                break
        if ok:
            kv = E.eval(e.key, fr)
            d[E.dict_key(kv)] = E.eval(e.value, fr)
    _restore(fr, saved)
    return E.new_dict(d)


# ---- str / bytes methods -------------------------------------------------------------------------

@method(('str', 'bytes'), 'startswith')
def m_startswith(E, a, kw):
    s, p = a[0], a[1]
    cp = p.clen()
    if cp is None:
        raise Unsupported('startswith symbolic prefix')
    conj = [s.n >= cp] + [elem_eq(s.at(z3.IntVal(k)), p.at(z3.IntVal(k))) for k in range(cp)]
    return VBool(z3.simplify(z3.And(*conj)))


@method(('str', 'bytes'), 'partition')
def m_partition(E, a, kw):
    """s.partition(c) for a one-element concrete-length separator: (s[:p], s[p:p+1] or empty, s[p+1:]) where p is the first
    position holding c, or len(s) if there is none.  `first` is stated per accessed index of the head (no quantifier):
    reading head[i] records s[i] != c."""
    s, sp = a[0], a[1]
    if not (isinstance(sp, VSeq) and sp.kind == s.kind and sp.clen() == 1):
        raise Unsupported('partition with a separator that is not one element')
    c = sp.at(z3.IntVal(0))
    n = s.n
    p = E.fresh_int('part_pos')
    E.fact(z3.And(p >= 0, p <= n))
    E.fact(z3.Implies(p < n, elem_eq(s.at(p), c)))

    def head_at(i, s=s, p=p, c=c):
        E.fact(z3.Implies(z3.And(I(i) >= 0, I(i) < p), z3.Not(elem_eq(s.at(I(i)), c))))
        return s.at(i)
    head = VSeq(s.kind, p, head_at)
    mid = VSeq(s.kind, z3.If(p < n, z3.IntVal(1), z3.IntVal(0)), lambda i, c=c: c)
    tail = VSeq(s.kind, z3.If(p < n, n - p - 1, z3.IntVal(0)), lambda i, s=s, p=p: s.at(z3.simplify(p + 1 + I(i))))
    return VTuple([head, mid, tail])


@method(('str', 'bytes'), 'endswith')
def m_endswith(E, a, kw):
    s, p = a[0], a[1]
    cp = p.clen()
    if cp is None:
        raise Unsupported('endswith symbolic suffix')
    conj = [s.n >= cp] + [elem_eq(s.at(z3.simplify(s.n - cp + k)), p.at(z3.IntVal(k))) for k in range(cp)]
    return VBool(z3.simplify(z3.And(*conj)))


def _char_class(E, s, pred_name, table):
    """str predicate true iff non-empty and every char satisfies the table (code points < 256 exact)"""
    s = small_len_split(E, s, 40) if s.clen() is None else s
    c = s.clen()
    if c == 0:
        return VBool(False)
    conj = []
    for k in range(c):
        e = s.at(z3.IntVal(k))
        ce = conc_int(e)
        if ce is not None:
            conj.append(z3.BoolVal(table(chr(ce))))
            continue
        if z3.is_bv(e):
            alts = [e == z3.BitVecVal(x, e.size()) for x in range(256) if table(chr(x))]
            conj.append(z3.Or(*alts) if alts else z3.BoolVal(False))
            continue
        ranges = _ranges([x for x in range(256) if table(chr(x))])
        alts = [z3.And(e >= lo, e <= hi) for lo, hi in ranges]
        hi_unknown = z3.Function('CHARCLASS_' + pred_name, z3.IntSort(), z3.BoolSort())
        alts.append(z3.And(e >= 256, hi_unknown(e)))
        conj.append(z3.Or(*alts))
    return VBool(z3.simplify(z3.And(*conj)))


def _ranges(xs):
    out = []
    for x in xs:
        if out and out[-1][1] == x - 1:
            out[-1][1] = x
        else:
            out.append([x, x])
    return out


@method('str', 'isdigit')
def m_isdigit(E, a, kw):
    return _char_class(E, a[0], 'isdigit', str.isdigit)


@method('str', 'isnumeric')
def m_isnumeric(E, a, kw):
    return _char_class(E, a[0], 'isnumeric', str.isnumeric)


@method('str', 'isalpha')
def m_isalpha(E, a, kw):
    return _char_class(E, a[0], 'isalpha', str.isalpha)


@method(('str', 'bytes'), 'upper')
def m_upper(E, a, kw):
    s = a[0]

    def up(e):
        c = conc_int(e)
        if c is not None:
            return ord(chr(c).upper()) if (c < 128 or s.kind == 'str') and len(chr(c).upper()) == 1 else c
        if z3.is_bv(e):
            return z3.If(z3.And(z3.UGE(e, 97), z3.ULE(e, 122)), e - 32, e)
        if s.kind == 'bytes':
            return z3.If(z3.And(e >= 97, e <= 122), e - 32, e)
        hi = z3.Function('UPPER_HI', z3.IntSort(), z3.IntSort())
        return z3.If(z3.And(e >= 97, e <= 122), e - 32, z3.If(e < 128, e, hi(e)))
    return seq_map(s, up)


@method('str', 'rstrip')
def m_rstrip(E, a, kw):
    s = a[0]
    cs = conc_str(s)
    if cs is not None and len(a) == 1:
        return seq_lit('str', cs.rstrip())
    from . import models_iso
    return models_iso._abstract_rstrip(E, s)


@method(('str', 'bytes'), 'ljust')
def m_ljust(E, a, kw):
    s = a[0]
    w = E.as_int(a[1])
    if len(a) > 2:
        f = a[2]
        if not (isinstance(f, VSeq) and f.kind == s.kind and f.clen() == 1):
            raise Unsupported('ljust fill character')
        fillc = f.at(z3.IntVal(0))
    else:
        fillc = 32
    n = s.n
    tot = z3.simplify(dite(E.decide, n >= w, n, w))

    def at(i, s=s, n=n, fillc=fillc):
        c = I(i) < n
        d = bool_lit(c)
        if d is None:
            d = E.decide(c)
        if d is True:
            return s.at(i)
        if d is False:
            return fillc
        return ite(c, s.at(i), fillc)
    return VSeq(s.kind, tot, at)


def _abstract_strip(E, s, left, right):
    """strip / lstrip / rstrip: some s[a:b] (which a, b is uninterpreted: a sound over-approximation)"""
    a = E.fresh_int('strip_lo') if left else z3.IntVal(0)
    b = E.fresh_int('strip_hi') if right else s.n
    E.fact(z3.And(a >= 0, a <= b, b <= s.n))
    return VSeq(s.kind, z3.simplify(b - a), lambda i, s=s, a=a: s.at(z3.simplify(a + I(i))))


def _concrete_strip(a, name):
    """exact result when the operand (and the optional character set) are concrete"""
    cs = conc_str(a[0])
    if cs is None:
        return None
    if len(a) == 1 or a[1] is NONE:
        return lift(getattr(cs, name)())
    cc = conc_str(a[1]) if isinstance(a[1], VSeq) else None
    if cc is None:
        return None
    return lift(getattr(cs, name)(cc))


@method(('str', 'bytes'), 'strip')
def m_strip(E, a, kw):
    r = _concrete_strip(a, 'strip')
    return r if r is not None else _abstract_strip(E, a[0], True, True)


@method(('str', 'bytes'), 'lstrip')
def m_lstrip(E, a, kw):
    r = _concrete_strip(a, 'lstrip')
    return r if r is not None else _abstract_strip(E, a[0], True, False)


@method('bytes', 'rstrip')
def m_brstrip(E, a, kw):
    r = _concrete_strip(a, 'rstrip')
    return r if r is not None else _abstract_strip(E, a[0], False, True)


@model('id')
def m_id(E, a, kw):
    v = a[0]
    if isinstance(v, VRef):
        return VInt(1000000 + v.oid)
    raise Unsupported('id() of an immutable value')


@method(('str', 'bytes'), 'join')
def m_join(E, a, kw):
    sep, it = a[0], a[1]
    items = E.iter_items(it)
    out = seq_lit(sep.kind, '' if sep.kind == 'str' else b'')
    for k, x in enumerate(items):
        if not (isinstance(x, VSeq) and x.kind == sep.kind):
            _raise(E, TypeError, 'sequence item: expected %s instance' % sep.kind)
        if k:
            out = seq_concat(out, sep)
        out = seq_concat(out, x)
    return out


# ---- list methods -------------------------------------------------------------------------------

@method('list', 'append')
def m_append(E, a, kw):
    ref, v = a
    sq = E.getf(ref, 'val')
    E.setf(ref, 'val', seq_concat(sq, seq_items('list', [v])))
    return NONE


@method('list', 'extend')
def m_extend(E, a, kw):
    ref, v = a
    other = E.list_val(v)
    if other.kind != 'list':
        other = VSeq('list', other.n, lambda i, o=other: E.seq_elem_value(o, i))
    E.setf(ref, 'val', seq_concat(E.getf(ref, 'val'), other))
    return NONE


@method('list', 'pop')
def m_pop(E, a, kw):
    ref = a[0]
    sq = E.getf(ref, 'val')
    if len(a) > 1:
        raise Unsupported('list.pop(i)')
    if E.branch(sq.n == 0):
        _raise(E, IndexError, 'pop from empty list')
    v = sq.at(z3.simplify(sq.n - 1))
    E.setf(ref, 'val', seq_slice(sq, None, z3.simplify(sq.n - 1), E.decide))
    return v


# ---- dict methods (concrete key set; symbolic dicts delegate) ------------------------------------

@method('dict', 'get')
def m_dict_get(E, a, kw):
    ref, key = a[0], a[1]
    default = a[2] if len(a) > 2 else NONE
    return E.dict_get(ref, key, strict=False, default=default)


@method('dict', 'update')
def m_dict_update(E, a, kw):
    ref, other = a
    d = E.getf(ref, 'val')
    od = E.getf(other, 'val')
    if isinstance(d, dict) and isinstance(od, dict):
        d2 = dict(d)
        d2.update(od)
        E.setf(ref, 'val', d2)
        return NONE
    from .models_iso import FieldRes, MsgDict
    if isinstance(od, FieldRes) and isinstance(d, dict):
        d = MsgDict(d, od.bit)           # first element result: nothing flagged before it was added (checked by the loop invariant)
        E.setf(ref, 'val', d)
    if isinstance(d, dict):
        from .models_iso import AssocDict
        d = AssocDict.from_concrete(d)
        E.setf(ref, 'val', d)
    return d.update(E, ref, other)


@method('dict', 'items')
def m_dict_items(E, a, kw):
    d = E.getf(a[0], 'val')
    if isinstance(d, dict):
        return E.new_cell({'__kind__': 'iter', 'items': [VTuple([lift(k), v]) for k, v in d.items()]})
    return d.items(E, a[0])


@method('dict', 'keys')
def m_dict_keys(E, a, kw):
    d = E.getf(a[0], 'val')
    if isinstance(d, dict):
        return E.new_cell({'__kind__': 'iter', 'items': [lift(k) for k in d]})
    return d.keys(E, a[0])


@method('dict', 'values')
def m_dict_values(E, a, kw):
    d = E.getf(a[0], 'val')
    if isinstance(d, dict):
        return E.new_cell({'__kind__': 'iter', 'items': list(d.values())})
    raise Unsupported('values of symbolic dict')


@method('dict', 'pop')
def m_dict_pop(E, a, kw):
    ref, key = a[0], a[1]
    d = E.getf(ref, 'val')
    if not isinstance(d, dict):
        raise Unsupported('pop on symbolic dict')
    k = E.dict_key(key)
    if k in d:
        d2 = dict(d)
        v = d2.pop(k)
        E.setf(ref, 'val', d2)
        return v
    if len(a) > 2:
        return a[2]
    _raise(E, KeyError, 'key')


@method('dict', 'setdefault')
def m_dict_setdefault(E, a, kw):
    ref, key = a[0], a[1]
    default = a[2] if len(a) > 2 else NONE
    d = E.getf(ref, 'val')
    if not isinstance(d, dict):
        raise Unsupported('setdefault on symbolic dict')
    k = E.dict_key(key)
    if k in d:
        return d[k]
    d2 = dict(d)
    d2[k] = default
    E.setf(ref, 'val', d2)
    return default


@method('dict', 'copy')
def m_dict_copy(E, a, kw):
    d = E.getf(a[0], 'val')
    if not isinstance(d, dict):
        raise Unsupported('copy of symbolic dict')
    return E.new_dict(dict(d))


# ---- struct / binascii ---------------------------------------------------------------------------

def be_int(bs, n):
    t = z3.IntVal(0)
    for k in range(n):
        t = t * 256 + I(bs.at(z3.IntVal(k)))
    return z3.simplify(t)


@model('struct.pack')
def m_struct_pack(E, a, kw):
    fmt = conc_str(a[0])
    if fmt == '>I':
        v = E.as_int(a[1])
        if E.branch(z3.Or(v < 0, v >= 2 ** 32)):
            _raise(E, _struct.error, "'I' format requires 0 <= number <= 4294967295")
        return seq_items('bytes', [z3.simplify((v / 256 ** (3 - k)) % 256) for k in range(4)])
    if fmt == '>B':
        v = E.as_int(a[1])
        if E.branch(z3.Or(v < 0, v >= 256)):
            _raise(E, _struct.error, 'ubyte format requires 0 <= number <= 255')
        return seq_items('bytes', [v])
    raise Unsupported('struct.pack(%r)' % fmt)


def parse_struct_fmt(E, f):
    """formats used by cardutil: '>I', '>B', '4s16s<N>s', '4s32s<N>s' with N possibly symbolic"""
    cs = conc_str(f)
    if cs is not None:
        return cs, None
    parts = getattr(f, 'parts', None)
    raise Unsupported('symbolic struct format')


@model('struct.unpack')
def m_struct_unpack(E, a, kw):
    fmt, data = a[0], a[1]
    if not (isinstance(data, VSeq) and data.kind == 'bytes'):
        _raise(E, TypeError, 'a bytes-like object is required')
    cs = conc_str(fmt)
    if cs == '>I':
        if E.branch(data.n != 4):
            _raise(E, _struct.error, 'unpack requires a buffer of 4 bytes')
        return VTuple([VInt(be_int(data, 4))])
    if cs == '>B':
        if E.branch(data.n != 1):
            _raise(E, _struct.error, 'unpack requires a buffer of 1 bytes')
        return VTuple([VInt(I(data.at(z3.IntVal(0))))])
    # '4s16sNs' / '4s32sNs' with N = str(symbolic int): recognise the concatenation structure
    segs = None
    parts = seq_parts(fmt) if cs is None else None
    if parts is not None and len(parts) == 3 and parts[0][0] == 'lit' and parts[1][0] == 'dec' and parts[2] == ('lit', 's') \
            and parts[0][1] in ('4s16s', '4s32s'):
        segs = (4, 16 if parts[0][1] == '4s16s' else 32, parts[1][1])
    if cs is not None:
        import re
        m = re.fullmatch(r'4s(16|32)s(-?\d+)s', cs)
        if m:
            segs = (4, int(m.group(1)), z3.IntVal(int(m.group(2))))
    if segs is not None:
        n1, n2, nt = segs
        if E.branch(nt < 0):
            _raise(E, _struct.error, 'bad char in struct format')
        if E.branch(data.n != n1 + n2 + nt):
            _raise(E, _struct.error, 'unpack requires a buffer of N bytes')
        return VTuple([seq_slice(data, 0, n1, E.decide), seq_slice(data, n1, n1 + n2, E.decide), seq_slice(data, n1 + n2, None, E.decide)])
    raise Unsupported('struct.unpack(%r)' % (cs,))


HEXCHARS = b'0123456789abcdef'


def hexlify_seq(E, b, kind='bytes'):
    def at(i, b=b):
        ii = I(i)
        byte = b.at(z3.simplify(ii / 2))
        if z3.is_expr(byte) and z3.is_bv(byte):
            nib = z3.If(ii % 2 == 0, z3.LShR(byte, 4), byte & 15)
            return z3.If(z3.ULT(nib, 10), nib + 48, nib + 87)
        byte = I(byte)
        nib = z3.If(ii % 2 == 0, byte / 16, byte % 16)
        return z3.simplify(z3.If(nib < 10, nib + 48, nib + 87))
    c = b.clen()
    if c is not None:
        return seq_items(kind, [at(z3.IntVal(k)) for k in range(2 * c)])
    return VSeq(kind, z3.simplify(2 * b.n), at)


@model('binascii.hexlify')
def m_hexlify(E, a, kw):
    b = a[0]
    if not (isinstance(b, VSeq) and b.kind == 'bytes'):
        _raise(E, TypeError, 'a bytes-like object is required')
    return hexlify_seq(E, b)


MODELS['binascii.b2a_hex'] = m_hexlify


def hexval(e):
    """(is_hex_digit Bool, value term) for a character / byte element"""
    if isinstance(e, int):
        ch = chr(e)
        ok = ch in '0123456789abcdefABCDEF'
        return z3.BoolVal(ok), (int(ch, 16) if ok else 0)
    if z3.is_bv(e):
        w = e.size()
        isd = z3.And(z3.UGE(e, 48), z3.ULE(e, 57))
        isl = z3.And(z3.UGE(e, 97), z3.ULE(e, 102))
        isu = z3.And(z3.UGE(e, 65), z3.ULE(e, 70))
        val = z3.If(isd, e - 48, z3.If(isl, e - 87, e - 55))
        return z3.Or(isd, isl, isu), z3.Extract(3, 0, val)
    isd = z3.And(e >= 48, e <= 57)
    isl = z3.And(e >= 97, e <= 102)
    isu = z3.And(e >= 65, e <= 70)
    return z3.Or(isd, isl, isu), z3.If(isd, e - 48, z3.If(isl, e - 87, e - 55))


@model('binascii.unhexlify')
def m_unhexlify(E, a, kw):
    s = a[0]
    if not isinstance(s, VSeq) or s.kind == 'list':
        _raise(E, TypeError, 'argument should be bytes or ASCII string')
    c = s.clen()
    if c is None:
        s = small_len_split(E, s, 64)
        c = s.clen()
    if c % 2:
        _raise(E, binascii.Error, 'Odd-length string')
    oks, vals = [], []
    for k in range(c):
        ok, v = hexval(s.at(z3.IntVal(k)))
        oks.append(ok)
        vals.append(v)
    if not E.branch(z3.And(*oks) if oks else z3.BoolVal(True)):
        _raise(E, binascii.Error, 'Non-hexadecimal digit found')
    out = []
    for k in range(c // 2):
        hi, lo = vals[2 * k], vals[2 * k + 1]
        if (z3.is_expr(hi) and z3.is_bv(hi)) or (z3.is_expr(lo) and z3.is_bv(lo)):
            hi = hi if z3.is_expr(hi) else z3.BitVecVal(hi, 4)
            lo = lo if z3.is_expr(lo) else z3.BitVecVal(lo, 4)
            out.append(z3.Concat(hi, lo))
        else:
            out.append(z3.simplify(I(hi) * 16 + I(lo)))
    return seq_items('bytes', out)


MODELS['binascii.a2b_hex'] = m_unhexlify


# ---- file objects (io.BytesIO and binary files) ---------------------------------------------------

def new_file(E, content, pos=0):
    return E.new_cell({'__kind__': 'file', 'content': content, 'pos': VInt(pos), 'closed': FALSE})


@model('io.BytesIO')
def m_bytesio(E, a, kw):
    content = a[0] if a else seq_lit('bytes', b'')
    return new_file(E, content, 0)


@method('file', 'write')
def m_file_write(E, a, kw):
    f, b = a
    if not (isinstance(b, VSeq) and b.kind == 'bytes'):
        _raise(E, TypeError, 'a bytes-like object is required')
    content = E.getf(f, 'content')
    pos = E.as_int(E.getf(f, 'pos'))
    # content' = content[:pos] ++ b ++ content[pos+len b:]   (pos <= len assumed by the file model: no holes)
    if bool_lit(pos == content.n) is True:
        newc = seq_concat(content, b)
    else:
        newc = seq_concat(seq_concat(seq_slice(content, None, pos, E.decide), b), seq_slice(content, z3.simplify(pos + b.n), None, E.decide))
    E.setf(f, 'content', newc)
    E.setf(f, 'pos', VInt(z3.simplify(pos + b.n)))
    return VInt(b.n)


@method('file', 'read')
def m_file_read(E, a, kw):
    f = a[0]
    content = E.getf(f, 'content')
    pos = E.as_int(E.getf(f, 'pos'))
    if len(a) > 1 and a[1] is not NONE:
        k = E.as_int(a[1])
        if E.branch(k < 0):
            out = seq_slice(content, pos, None, E.decide)
        else:
            out = seq_slice(content, pos, z3.simplify(pos + k), E.decide)
    else:
        out = seq_slice(content, pos, None, E.decide)
    E.setf(f, 'pos', VInt(z3.simplify(pos + out.n)))
    return out


@method('file', 'seek')
def m_file_seek(E, a, kw):
    f, p = a[0], a[1]
    E.setf(f, 'pos', VInt(E.as_int(p)))
    return VInt(E.as_int(p))


@method('file', 'tell')
def m_file_tell(E, a, kw):
    return E.getf(a[0], 'pos')


@method('file', 'close')
def m_file_close(E, a, kw):
    E.setf(a[0], 'closed', TRUE)
    return NONE


@method('file', 'getvalue')
def m_file_getvalue(E, a, kw):
    return E.getf(a[0], 'content')


@method('file', '__enter__')
def m_file_enter(E, a, kw):
    return a[0]


@method('file', '__exit__')
def m_file_exit(E, a, kw):
    E.setf(a[0], 'closed', TRUE)
    return NONE


# ---- misc ------------------------------------------------------------------------------------------

@model('logging.getLogger')
def m_getlogger(E, a, kw):
    return VOpaque('logger', z3.Int('logger'))


@method('logger', 'isEnabledFor')
def m_logger_enabled(E, a, kw):
    # whether a level is enabled is configuration of the run: either answer is possible
    return VBool(E.fresh_bool('log_level_enabled'))


def _logger_noop(E, a, kw):
    return NONE


for _lvl in ('debug', 'info', 'warning', 'error', 'critical', 'exception', 'log', 'setLevel'):
    method('logger', _lvl)(_logger_noop)


@model('cardutil.vendor.hexdump.hexdump')
def m_hexdump(E, a, kw):
    return NONE


@model('typing.BinaryIO')
def m_binaryio(E, a, kw):
    return NONE


@model('array.array')
def m_array(E, a, kw):
    tc = conc_str(a[0])
    if tc != 'B':
        raise Unsupported('array typecode')
    b = a[1]
    return E.new_cell({'__kind__': 'list', 'val': VSeq('list', b.n, lambda i, b=b: E.seq_elem_value(b, i), items=None)
                       if b.items is None else seq_items('list', [VInt(x) if isinstance(x, int) else (VInt(x) if not z3.is_bv(x) else VBV(x)) for x in b.items]),
                       '__array__': TRUE})


@method('list', 'tobytes')
def m_array_tobytes(E, a, kw):
    sq = E.getf(a[0], 'val')
    c = sq.clen()
    if c is None:
        return VSeq('bytes', sq.n, lambda i, sq=sq: _elem_of(sq.at(i)))
    return seq_items('bytes', [_elem_of(sq.at(z3.IntVal(k))) for k in range(c)])


def _elem_of(v):
    if isinstance(v, VInt):
        c = v.conc()
        return c if c is not None else v.t
    if isinstance(v, VBV):
        return v.t
    raise Unsupported('array element %r' % (v,))


@method('int', 'to_bytes')
def m_to_bytes(E, a, kw):
    from . import models_bv
    return models_bv.to_bytes(E, a, kw)


@model('int.from_bytes')
def m_from_bytes(E, a, kw):
    from . import models_bv
    return models_bv.from_bytes(E, a, kw)


# ---- copy.deepcopy, open(), csv (plumbing of the command-line tools) ------------------------------------
def _deepcopy(E, v, memo):
    if isinstance(v, VRef):
        if v.oid in memo:
            return memo[v.oid]
        k = E.kind_of(v)
        if k == 'dict':
            d = E.getf(v, 'val')
            if not isinstance(d, dict):
                raise Unsupported('deepcopy of a dict with symbolic keys')
            r = E.new_dict({})
            memo[v.oid] = r
            E.setf(r, 'val', {kk: _deepcopy(E, vv, memo) for kk, vv in d.items()})
            return r
        if k == 'list':
            sq = E.fix_len(E.getf(v, 'val'))
            if sq.clen() is None:
                raise Unsupported('deepcopy of a symbolic-length list')
            r = E.new_list(seq_items('list', [_deepcopy(E, sq.at(z3.IntVal(i)), memo) for i in range(sq.clen())]))
            memo[v.oid] = r
            return r
        raise Unsupported('deepcopy of %s' % k)
    if isinstance(v, VTuple):
        return VTuple([_deepcopy(E, x, memo) for x in v.items])
    return v          # immutable values


@model('copy.deepcopy')
def m_deepcopy(E, a, kw):
    return _deepcopy(E, a[0], {})


@model('open')
def m_open(E, a, kw):
    """a named file: one File cell per name for the duration of the path (ghost file system E.ghost['fs'])"""
    name = a[0]
    mode = conc_str(a[1]) if len(a) > 1 else conc_str(kw.get('mode', lift('r')))
    key = conc_str(name)
    if key is None:
        key = ('sym', id(name))
    fs = E.ghost.setdefault('fs', {})
    if key not in fs:
        binary = 'b' in mode
        fs[key] = E.new_file(E.fresh_seq('bytes', 'file') if 'r' in mode else seq_lit('bytes', b''), 0)
        E.setf(fs[key], 'mode', lift(mode))
        E.setf(fs[key], 'name', name)
        if 'encoding' in kw:
            E.setf(fs[key], 'encoding', kw['encoding'])
    E.ghost.setdefault('opened', []).append((key, mode))
    return fs[key]


@model('csv.DictReader')
def m_dictreader(E, a, kw):
    """rows of a CSV file as dicts of strings: the rows are whatever the ghost `csv_rows` of the file object says
    (the csv module's parsing of quotes / commas is an assumed text round trip)"""
    if kw or len(a) != 1:
        # dialect options (skipinitialspace, delimiter, quoting ...) change how cells are read: outside the assumed text round trip
        raise Unsupported('csv.DictReader with options %s (the assumed contract is for DictReader(file))' % sorted(kw))
    f = a[0]
    rows = E.cell(f).get('_g_csv_rows')
    if rows is None:
        raise Unsupported('DictReader over a file without ghost rows')
    return E.new_cell({'__kind__': 'iter', 'items': list(rows)})


@model('csv.DictWriter')
def m_dictwriter(E, a, kw):
    f = a[0]
    fn = kw.get('fieldnames', a[1] if len(a) > 1 else None)
    return E.new_cell({'__kind__': 'dictwriter', 'file': f, 'fieldnames': fn, 'extrasaction': kw.get('extrasaction', lift('raise')),
                       'lineterminator': kw.get('lineterminator', lift('\r\n')), 'rows': VTuple([]), 'header': FALSE})


@method('dictwriter', 'writeheader')
def m_dw_header(E, a, kw):
    E.setf(a[0], 'header', TRUE)
    return NONE


@method('dictwriter', 'writerow')
def m_dw_row(E, a, kw):
    w, row = a
    d = E.getf(row, 'val')
    if not isinstance(d, dict):
        raise Unsupported('writerow of a dict with symbolic keys')
    names = [conc_str(x) for x in E.iter_items(E.getf(w, 'fieldnames'))]
    extra = [k for k in d if k not in names]
    if extra and conc_str(E.getf(w, 'extrasaction')) != 'ignore':
        _raise(E, ValueError, 'dict contains fields not in fieldnames')
    E.setf(w, 'rows', VTuple(E.getf(w, 'rows').items + [row]))
    return NONE


@method('dictwriter', 'writerows')
def m_dw_rows(E, a, kw):
    raise Unsupported('DictWriter.writerows')


@model('collections.Counter')
def m_counter(E, a, kw):
    raise Unsupported('collections.Counter')


@model('logging.basicConfig')
def m_basicconfig(E, a, kw):
    return NONE
