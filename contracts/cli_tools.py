"""Conversion and CSV tools (C19, C20): the tool functions are executed against the contracts of the readers / writers
they drive (per-record behaviour: IpmReader.__next__, IpmWriter.write, VbsReader.__next__, VbsWriter.write are proved
elsewhere); what is verified here is the plumbing - which encoding, blocking and configuration each side gets, that every
record read is written once, in order, and that the output is finalised - plus the per-record conversion lemmas.
argparse and the operating system's files are NOT verified; cli_run is verified as plumbing against an `open` model
(one file object per name) with the tool function replaced by a recorder."""
import z3
from pyvc.runner import unit
from pyvc.values import *
from pyvc.engine import PyRaise
from pyvc import models_iso as MI
from pyvc.models import POW10
from .iso_field import Q, cfg_dict, result_parts, dict_entries, encodable_text

M = 'cardutil.mciipm.'
CLI = 'cardutil.cli.'


def stub_ipm_layer(E, msgs):
    """IpmReader yields the ghost messages then stops; IpmWriter.write records what it is given; close is counted"""
    log = {'written': [], 'closed': 0, 'reader': None, 'writer': None}

    def rd_next(E, args, kw):
        self = args[0]
        log['reader'] = self
        i = E.cell(self).get('_g_i', 0)
        if i < len(msgs):
            E.setf(self, '_g_i', i + 1)
            return msgs[i]
        raise PyRaise(E.make_exc(StopIteration, []))

    def wr_write(E, args, kw):
        log['writer'] = args[0]
        log['written'].append(args[1])
        return NONE

    def wr_close(E, args, kw):
        log['writer'] = args[0]
        log['closed'] += 1
        return NONE
    E.contracts[M + 'IpmReader.__next__'] = rd_next
    E.contracts[M + 'IpmWriter.write'] = wr_write
    E.contracts[M + 'VbsWriter.close'] = wr_close
    return log


def is_blocked_reader(E, rd):
    src = E.getf(rd, 'vbs_data')
    return E.kind_of(src) == 'obj' and E.cell(src)['__class__'].qualname == M + 'Unblock1014'


def is_blocked_writer(E, w):
    sink = E.getf(w, 'out_file')
    return E.kind_of(sink) == 'obj' and E.cell(sink)['__class__'].qualname == M + 'Block1014'


def plain(E, v):
    """python view of a concrete nested config value"""
    if isinstance(v, VRef) and E.kind_of(v) == 'dict':
        return {k: plain(E, x) for k, x in E.getf(v, 'val').items()}
    if isinstance(v, VSeq):
        return conc_str(v)
    if isinstance(v, VInt):
        return v.conc()
    if v is NONE:
        return None
    return repr(v)


@unit('mci_ipm_encode.get_config/post', props=['C19'], functions=[CLI + 'mci_ipm_encode.get_config'])
def u_get_config(E):
    """the packaged table with every PDS processor removed and nothing else changed; the packaged table itself untouched"""
    pkg = E.lookup_global('config', E.program.modules['cardutil.config'])
    before = plain(E, E.dict_get(pkg, lift('bit_config'), strict=True))
    out = plain(E, E.call(CLI + 'mci_ipm_encode.get_config'))
    after = plain(E, E.dict_get(pkg, lift('bit_config'), strict=True))
    want = {k: {kk: vv for kk, vv in c.items() if not (kk == 'field_processor' and vv == 'PDS')} for k, c in before.items()}
    E.prove('get_config/packaged-table-minus-PDS-processors', z3.BoolVal(out == want), 'P')
    E.prove('get_config/ICC-and-other-processors-kept', z3.BoolVal(all(out[k].get('field_processor') == before[k].get('field_processor') for k in before if before[k].get('field_processor') != 'PDS')), 'P')
    E.prove('get_config/packaged-configuration-not-mutated', z3.BoolVal(after == before), 'P')
    E.prove('get_config/some-PDS-processor-existed', z3.BoolVal(any(c.get('field_processor') == 'PDS' for c in before.values())), 'I')


def mk_encode(in_fmt, out_fmt):
    @unit('mci_ipm_encode[%s->%s]' % (in_fmt, out_fmt), props=['C19'], functions=[CLI + 'mci_ipm_encode.mci_ipm_encode', CLI + 'mci_ipm_encode.get_config',
                                                                                 M + 'IpmWriter.write_many', M + 'IpmReader.__init__', M + 'IpmWriter.__init__'])
    def u(E):
        msgs = [E.new_dict({'MTI': lift('1144')}), E.new_dict({'MTI': lift('1240')}), E.new_dict({'MTI': lift('1644')})]
        log = stub_ipm_layer(E, msgs)
        fin = E.new_file(E.fresh_seq('bytes', 'in'), 0)
        fout = E.new_file(seq_lit('bytes', b''), 0)
        encA = E.fresh_seq('str', 'encA')
        encB = E.fresh_seq('str', 'encB')
        E.assume(encA.n >= 1)
        E.assume(encB.n >= 1)
        tag = 'mci_ipm_encode[%s->%s]' % (in_fmt, out_fmt)
        E.call(CLI + 'mci_ipm_encode.mci_ipm_encode', fin, out_file=fout, in_encoding=encA, out_encoding=encB, in_format=lift(in_fmt), out_format=lift(out_fmt),
               in_filename=lift('x'), debug=FALSE)
        rd, w = log['reader'], log['writer']
        E.prove(tag + '/every-record-written-once-in-order', z3.BoolVal(len(log['written']) == 3 and all(a is b or (isinstance(a, VRef) and a.oid == b.oid) for a, b in zip(log['written'], msgs))), 'P')
        E.prove(tag + '/output-finalised-exactly-once', z3.BoolVal(log['closed'] == 1), 'P')
        if rd is None or w is None:
            E.prove(tag + '/reader-and-writer-used', False, 'P')
            return
        E.prove(tag + '/reader-decodes-with-input-encoding', z3.BoolVal(E.getf(rd, 'encoding') is encA), 'P')
        E.prove(tag + '/writer-encodes-with-output-encoding', z3.BoolVal(E.getf(w, 'encoding') is encB), 'P')
        E.prove(tag + '/reader-blocking=input-format', z3.BoolVal(is_blocked_reader(E, rd) == (in_fmt == '1014')), 'P')
        E.prove(tag + '/writer-blocking=output-format', z3.BoolVal(is_blocked_writer(E, w) == (out_fmt == '1014')), 'P')
        E.prove(tag + '/reader-reads-the-input-file', z3.BoolVal((E.getf(E.getf(rd, 'vbs_data'), 'file_obj') if is_blocked_reader(E, rd) else E.getf(rd, 'vbs_data')).oid == fin.oid), 'P')
        E.prove(tag + '/writer-writes-the-output-file', z3.BoolVal((E.getf(E.getf(w, 'out_file'), 'file_obj') if is_blocked_writer(E, w) else E.getf(w, 'out_file')).oid == fout.oid), 'P')
        rc = plain(E, E.getf(rd, 'iso_config')) if isinstance(E.getf(rd, 'iso_config'), VRef) else None
        E.prove(tag + '/reader-keeps-PDS-carriers-as-plain-elements', z3.BoolVal(rc is not None and all(c.get('field_processor') != 'PDS' for c in rc.values())
                                                                                 and any(c.get('field_processor') == 'ICC' for c in rc.values())), 'P')
        E.prove(tag + '/writer-uses-packaged-table', z3.BoolVal(E.getf(w, 'iso_config') is NONE), 'I')
    return u


for _i in ('vbs', '1014'):
    for _o in ('vbs', '1014'):
        mk_encode(_i, _o)


def mk_mideu_convert(source, blocked):
    @unit('mideu.convert[%s,%s]' % (source, '1014' if blocked else 'vbs'), props=['C19'], functions=[CLI + 'mideu.convert', M + 'IpmWriter.write_many'])
    def u(E):
        msgs = [E.new_dict({'MTI': lift('1144')}), E.new_dict({'MTI': lift('1240')})]
        log = stub_ipm_layer(E, msgs)
        tag = 'mideu.convert[%s,%s]' % (source, '1014' if blocked else 'vbs')
        E.call(CLI + 'mideu.convert', config=E.new_dict({}), input=lift('in.ipm'), sourceformat=lift(source), no1014blocking=VBool(not blocked))
        rd, w = log['reader'], log['writer']
        E.prove(tag + '/every-record-written-once-in-order', z3.BoolVal(len(log['written']) == 2 and all(a.oid == b.oid for a, b in zip(log['written'], msgs))), 'P')
        E.prove(tag + '/output-finalised-exactly-once', z3.BoolVal(log['closed'] == 1), 'P')
        if rd is None or w is None:
            E.prove(tag + '/reader-and-writer-used', False, 'P')
            return
        a, b = ('cp500', 'latin1') if source == 'ebcdic' else ('latin1', 'cp500')
        E.prove(tag + '/encodings', z3.BoolVal(conc_str(E.getf(rd, 'encoding')) == a and conc_str(E.getf(w, 'encoding')) == b), 'P')
        E.prove(tag + '/same-blocking-both-sides', z3.BoolVal(is_blocked_reader(E, rd) == blocked and is_blocked_writer(E, w) == blocked), 'P')
        opened = E.ghost.get('opened', [])
        E.prove(tag + '/reads-input-writes-input.out', z3.BoolVal(('in.ipm', 'rb') in opened and ('in.ipm.out', 'wb') in opened), 'P')
        E.prove(tag + '/default-table-on-both-sides', z3.BoolVal(E.getf(rd, 'iso_config') is NONE and E.getf(w, 'iso_config') is NONE), 'I')
    return u


for _s in ('ebcdic', 'ascii'):
    for _b in (True, False):
        mk_mideu_convert(_s, _b)


# ---------------------------------------------------------------- parameter file conversion
def stub_vbs_layer(E, recs):
    log = {'written': [], 'closed': 0, 'reader': None, 'writer': None}

    def rd_next(E, args, kw):
        self = args[0]
        log['reader'] = self
        i = E.cell(self).get('_g_i', 0)
        if i < len(recs):
            E.setf(self, '_g_i', i + 1)
            return recs[i]
        raise PyRaise(E.make_exc(StopIteration, []))

    def wr_write(E, args, kw):
        log['writer'] = args[0]
        log['written'].append(args[1])
        return NONE

    def wr_close(E, args, kw):
        log['closed'] += 1
        return NONE
    E.contracts[M + 'VbsReader.__next__'] = rd_next
    E.contracts[M + 'VbsWriter.write'] = wr_write
    E.contracts[M + 'VbsWriter.close'] = wr_close
    return log


def mk_param(tool, in_fmt, out_fmt):
    qn = CLI + ('mci_ipm_param_encode.mci_ipm_param_encode' if tool == 'mci_ipm_param_encode' else 'paramconv.mci_ipm_param_encode')

    @unit('%s[%s->%s]' % (tool, in_fmt, out_fmt), props=['C19'], functions=[qn, M + 'VbsWriter.write_many'])
    def u(E):
        encA = MI.abstract_codec_name(E, 'A')
        encB = MI.abstract_codec_name(E, 'B')
        cA, cB = MI.codec_of(E, encA), MI.codec_of(E, encB)
        recs = [E.fresh_seq('bytes', 'rec%d' % i) for i in range(2)]
        log = stub_vbs_layer(E, recs)
        fin = E.new_file(E.fresh_seq('bytes', 'in'), 0)
        fout = E.new_file(seq_lit('bytes', b''), 0)
        tag = '%s[%s->%s]' % (tool, in_fmt, out_fmt)
        try:
            if tool == 'mci_ipm_param_encode':
                E.call(qn, fin, fout, in_encoding=encA, out_encoding=encB, in_format=lift(in_fmt), out_format=lift(out_fmt))
            else:
                E.call(qn, fin, fout, encA, encB, VBool(in_fmt == '1014'))
        except PyRaise as pr:
            if E.exc_is(pr.exc, UnicodeError):
                return                       # a record the codecs cannot carry: outside the property
            E.prove(tag + '/no-exception(%s)' % E.exc_name(pr.exc), False, 'P')
            return
        E.prove(tag + '/record-count-and-order-kept', z3.BoolVal(len(log['written']) == 2), 'P')
        E.prove(tag + '/output-finalised-exactly-once', z3.BoolVal(log['closed'] == 1), 'P')
        for i, (r, o) in enumerate(zip(recs, log['written'])):
            if not (isinstance(o, VSeq) and o.kind == 'bytes'):
                E.prove(tag + '/record-%d-is-bytes' % i, False, 'P')
                continue
            E.prove(tag + '/record-%d-same-length' % i, o.n == r.n, 'P')
            k = E.fresh_int('k')
            E.prove(tag + '/record-%d-decoded-under-B=input-decoded-under-A' % i,
                    z3.Implies(z3.And(k >= 0, k < r.n), cB.DEC(I(o.at(k))) == cA.DEC(I(r.at(k)))), 'P')
        rd, w = log['reader'], log['writer']
        if rd is not None and w is not None:
            E.prove(tag + '/reader-blocking=input-format', z3.BoolVal(is_blocked_reader(E, rd) == (in_fmt == '1014')), 'P')
            E.prove(tag + '/writer-blocking=output-format', z3.BoolVal(is_blocked_writer(E, w) == (out_fmt == '1014')), 'P')
    return u


for _i in ('vbs', '1014'):
    for _o in ('vbs', '1014'):
        mk_param('mci_ipm_param_encode', _i, _o)
mk_param('paramconv', 'vbs', 'vbs')
mk_param('paramconv', '1014', '1014')


# ---------------------------------------------------------------- per-record conversion lemmas (codec bijection on the characters used)
@unit('convert-there-and-back/lemma', props=['C19'], functions=[])
def u_there_back(E):
    """a library-written byte x = ENC_A(c) converted A->B->A is x again, whenever c is encodable in both codecs
    (total for the single-byte ASCII / EBCDIC code pages: checked exhaustively for latin_1, cp500, cp037 by the native stand-in)"""
    cA = MI.codec_of(E, MI.abstract_codec_name(E, 'A'))
    cB = MI.codec_of(E, MI.abstract_codec_name(E, 'B'))
    c = E.fresh_int('c')
    E.assume(cA.ENCODABLE(c))
    E.assume(cB.ENCODABLE(c))
    ok, x = cA.enc_elem(E, c)
    _, d1 = cA.dec_elem(x)
    ok2, y = cB.enc_elem(E, d1)
    _, d2 = cB.dec_elem(y)
    ok3, z = cA.enc_elem(E, d2)
    E.prove('there-and-back/decoded-under-B=decoded-under-A', d2 == c, 'P', 'lemma')
    E.prove('there-and-back/byte-for-byte', z == x, 'P', 'lemma')


def mk_convert_field(shape_name, ftype, W, ptype, proc):
    @unit('convert-element[%s]/lemma' % shape_name, props=['C19'], functions=[Q + '_iso8583_to_field', Q + '_field_to_iso8583'])
    def u(E):
        """an element decoded under A and re-encoded under B decodes under B to the same value; binary data byte-identical"""
        encA = MI.abstract_codec_name(E, 'A')
        encB = MI.abstract_codec_name(E, 'B')
        cA, cB = MI.codec_of(E, encA), MI.codec_of(E, encB)
        cfg = cfg_dict(E, ftype, W, ptype=ptype, proc=proc)
        tag = 'convert-element[%s]' % shape_name
        from .iso_field import LS
        ls = LS[ftype]
        if proc == 'ICC':
            v = E.fresh_seq('bytes', 'v')
            E.assume(v.n <= 999)
            E.assume(v.n >= 1)
            E.loop_specs[(Q + '_icc_to_dict', 0)] = __import__('contracts.iso_pds', fromlist=['IccWalkAny']).IccWalkAny()
        elif ptype:
            t = E.fresh_int('v')
            E.assume(t >= 0)
            E.assume(t < POW10[W])
            v = VInt(t)
        else:
            v = E.fresh_seq('str', 'v', elem_fact=lambda e, i: z3.And(cA.ENCODABLE(e), cB.ENCODABLE(e)))
            E.assume(v.n >= 1)
            E.assume(v.n <= POW10[ls] - 1 if ls else v.n == W)
        try:
            rawA = E.call(Q + '_field_to_iso8583', cfg, v, encoding=encA)            # written by the library under A
            d1, _ = result_parts(E, E.call(Q + '_iso8583_to_field', VInt(2), cfg, rawA, encA))
            val1 = dict_entries(E, d1)['DE2']
            rawB = E.call(Q + '_field_to_iso8583', cfg, val1, encoding=encB)         # the converter's output
            d2, inc = result_parts(E, E.call(Q + '_iso8583_to_field', VInt(2), cfg, rawB, encB))
            val2 = dict_entries(E, d2)['DE2']
        except PyRaise as pr:
            if proc == 'ICC' and E.exc_is(pr.exc, Q + 'Iso8583DataError'):
                return
            E.prove(tag + '/no-exception(%s)' % E.exc_name(pr.exc), False, 'P', 'lemma')
            return
        E.prove(tag + '/whole-element-consumed', inc == rawB.n, 'P', 'lemma')
        if isinstance(v, VInt):
            E.prove(tag + '/same-value', z3.BoolVal(isinstance(val2, VInt)) if not isinstance(val2, VInt) else val2.t == v.t, 'P', 'lemma')
        else:
            E.prove_value_eq(tag + '/same-value', val2, v, 'P', 'lemma')
        if proc == 'ICC':
            E.prove_value_eq(tag + '/binary-data-byte-identical', seq_slice(rawB, ls, None, E.decide), v, 'P', 'lemma')
    return u


mk_convert_field('LLVAR,text', 'LLVAR', 0, None, None)
mk_convert_field('FIXED,text', 'FIXED', 8, None, None)
mk_convert_field('FIXED,long', 'FIXED', 12, 'long', None)
mk_convert_field('LLLVAR,ICC', 'LLLVAR', 255, None, 'ICC')


# ---------------------------------------------------------------- C20: CSV -> IPM -> CSV plumbing
def mk_csv_to_ipm(no1014):
    @unit('mci_csv_to_ipm[%s]' % ('vbs' if no1014 else '1014'), props=['C20'], functions=[CLI + 'mci_csv_to_ipm.mci_csv_to_ipm', M + 'IpmWriter.__init__', M + 'VbsWriter.__exit__'])
    def u(E):
        log = stub_ipm_layer(E, [])
        cells = {}
        rows = []
        for r in range(2):
            d = {}
            for col in ('MTI', 'DE2', 'PDS0023'):
                v = E.fresh_seq('str', 'cell_%d_%s' % (r, col))
                if col == 'MTI':
                    E.assume(v.n == 4)
                cells[(r, col)] = v
                d[col] = v
            rows.append(E.new_dict(d))
        fcsv = E.new_file(seq_lit('bytes', b''), 0)
        E.setf(fcsv, '_g_csv_rows', rows)
        fout = E.new_file(seq_lit('bytes', b''), 0)
        bitcfg = E.new_dict({'2': E.new_dict({'field_type': lift('LLVAR'), 'field_length': VInt(0)})})
        cfg = E.new_dict({'bit_config': bitcfg, 'output_data_elements': E.new_list(seq_items('list', [lift('MTI'), lift('DE2')]))})
        enc = E.fresh_seq('str', 'enc')
        tag = 'mci_csv_to_ipm[%s]' % ('vbs' if no1014 else '1014')
        E.call(CLI + 'mci_csv_to_ipm.mci_csv_to_ipm', in_csv=fcsv, out_ipm=fout, config=cfg, out_encoding=enc, no1014blocking=VBool(no1014), in_filename=lift('x.csv'))
        w = log['writer']
        E.prove(tag + '/one-message-per-row-in-order', z3.BoolVal(len(log['written']) == 2), 'P')
        E.prove(tag + '/output-finalised-exactly-once', z3.BoolVal(log['closed'] == 1), 'P')
        for r, m in enumerate(log['written'][:2]):
            dv = E.getf(m, 'val')
            for col in ('MTI', 'DE2', 'PDS0023'):
                v = cells[(r, col)]
                # empty cells mean absent; non-empty cells are passed on unchanged under the column name
                present = col in dv
                E.prove('%s/row-%d/%s-present-iff-cell-non-empty' % (tag, r, col), (v.n > 0) == z3.BoolVal(present), 'P')
                if present:
                    E.prove('%s/row-%d/%s-value-unchanged' % (tag, r, col), z3.BoolVal(dv[col] is v), 'P')
            E.prove('%s/row-%d/no-other-keys' % (tag, r), z3.BoolVal(set(dv) <= {'MTI', 'DE2', 'PDS0023'}), 'P')
        if w is not None:
            E.prove(tag + '/blocking', z3.BoolVal(is_blocked_writer(E, w) == (not no1014)), 'P')
            E.prove(tag + '/encoding', z3.BoolVal(E.getf(w, 'encoding') is enc), 'P')
            E.prove(tag + '/configuration', z3.BoolVal(isinstance(E.getf(w, 'iso_config'), VRef) and E.getf(w, 'iso_config').oid == bitcfg.oid), 'P')
    return u


mk_csv_to_ipm(False)
mk_csv_to_ipm(True)


def mk_ipm_to_csv(no1014):
    @unit('mci_ipm_to_csv[%s]' % ('vbs' if no1014 else '1014'), props=['C20'], functions=[CLI + 'mci_ipm_to_csv.mci_ipm_to_csv', CLI + 'mci_ipm_to_csv.dicts_to_csv', M + 'IpmReader.__init__'])
    def u(E):
        vals = {}
        msgs = []
        for r in range(2):
            d = {'MTI': E.fresh_seq('str', 'mti%d' % r), 'DE2': E.fresh_seq('str', 'de2_%d' % r), 'DE48': E.fresh_seq('str', 'de48_%d' % r), 'DE4': VInt(E.fresh_int('de4_%d' % r))}
            if r == 1:
                del d['DE2']
            vals[r] = d
            msgs.append(E.new_dict(dict(d)))
        log = stub_ipm_layer(E, msgs)
        fin = E.new_file(E.fresh_seq('bytes', 'in'), 0)
        fcsv = E.new_file(seq_lit('bytes', b''), 0)
        bitcfg = E.new_dict({})
        fields = ['MTI', 'DE2', 'DE4', 'PDS0023']
        cfg = E.new_dict({'bit_config': bitcfg, 'output_data_elements': E.new_list(seq_items('list', [lift(x) for x in fields]))})
        enc = E.fresh_seq('str', 'enc')
        tag = 'mci_ipm_to_csv[%s]' % ('vbs' if no1014 else '1014')
        E.call(CLI + 'mci_ipm_to_csv.mci_ipm_to_csv', in_ipm=fin, out_csv=fcsv, config=cfg, in_encoding=enc, no1014blocking=VBool(no1014), in_filename=lift('x'))
        writers = [ref for ref in [VRef(o) for o in E.heap] if E.kind_of(ref) == 'dictwriter']
        E.prove(tag + '/one-csv-writer', z3.BoolVal(len(writers) == 1), 'P')
        if len(writers) != 1:
            return
        w = writers[0]
        E.prove(tag + '/header-written', E.truth(E.getf(w, 'header')), 'P')
        E.prove(tag + '/columns=configured-output-list', z3.BoolVal([conc_str(x) for x in E.iter_items(E.getf(w, 'fieldnames'))] == fields), 'P')
        rows = E.getf(w, 'rows').items
        E.prove(tag + '/one-row-per-record-in-order', z3.BoolVal(len(rows) == 2), 'P')
        for r, row in enumerate(rows[:2]):
            dv = E.getf(row, 'val')
            want = {k: v for k, v in vals[r].items() if k in fields}
            E.prove('%s/row-%d/cells=configured-columns-present-in-the-record' % (tag, r), z3.BoolVal(set(dv) == set(want)), 'P')
            for k in want:
                if k in dv:
                    E.prove('%s/row-%d/%s-value-unchanged' % (tag, r, k), z3.BoolVal(dv[k] is want[k]), 'P')
        rd = log['reader']
        if rd is not None:
            E.prove(tag + '/blocking', z3.BoolVal(is_blocked_reader(E, rd) == (not no1014)), 'P')
            E.prove(tag + '/encoding', z3.BoolVal(E.getf(rd, 'encoding') is enc), 'P')
            E.prove(tag + '/configuration', z3.BoolVal(isinstance(E.getf(rd, 'iso_config'), VRef) and E.getf(rd, 'iso_config').oid == bitcfg.oid), 'P')
    return u


mk_ipm_to_csv(False)
mk_ipm_to_csv(True)


@unit('csv-cell-text-round-trip/lemmas', props=['C20'], functions=[Q + '_pytype_to_string', Q + '_string_to_pytype'])
def u_csv_cells(E):
    """a plain-decimal cell of a numeric column: int(cell) formatted to the field width and parsed back is int(cell);
    str() of it is the cell again when the cell has no leading zeros (csv writes str(value))"""
    from pyvc.models import str_of_int
    W = 12
    v = E.fresh_int('v')
    E.assume(v >= 0)
    E.assume(v < POW10[W])
    cfg = cfg_dict(E, 'FIXED', W, ptype='long')
    s = E.call(Q + '_pytype_to_string', VInt(v), cfg)
    back = E.call(Q + '_string_to_pytype', s, cfg)
    E.prove('csv-cell/number-through-the-field-format', z3.BoolVal(isinstance(back, VInt)) if not isinstance(back, VInt) else back.t == v, 'P', 'lemma')
    # numeric cell given as text, as DictReader delivers it
    cell = str_of_int(E, v)
    s2 = E.call(Q + '_pytype_to_string', cell, cfg)
    E.prove_value_eq('csv-cell/text-cell-accepted-as-number', s2, s, 'P', 'lemma')


@unit('csv-cell-date-round-trip/lemma', props=['C20'], functions=[Q + '_pytype_to_string', Q + '_get_date_from_string'])
def u_csv_date_cell(E):
    """a date-time cell in ISO form, as the extraction writes it (str(datetime)): parsed by _get_date_from_string (dateutil's
    parse(text), assumed: parse(str(dt)) = dt for second-precision date-times) and rendered in the field's format it is the
    same field text as the date-time itself gives -- so the cell comes back as it was written"""
    from pyvc import models_iso as MI
    dt = z3.Const('cell_dt', MI.DT)
    v = VOpaque('datetime', dt)
    cell = MI.str_of_datetime(E, v)                     # what csv writes for the decoded value
    cfg = cfg_dict(E, 'FIXED', 12, ptype='datetime', datefmt='%y%m%d%H%M%S')
    direct = E.call(Q + '_pytype_to_string', v, cfg)
    try:
        via_text = E.call(Q + '_pytype_to_string', cell, cfg)
    except PyRaise as pr:
        E.prove('csv-cell/iso-date-cell-accepted(%s)' % E.exc_name(pr.exc), False, 'P', 'lemma')
        return
    E.prove_value_eq('csv-cell/iso-date-cell-gives-the-same-field-text-as-the-date-itself', via_text, direct, 'P', 'lemma')


# ---------------------------------------------------------------- C07: the tools stop with a diagnostic, not a traceback
def stub_failing_reader(E, msgs, fail_after):
    """IpmReader that delivers `fail_after` records and then raises the library's data error for record fail_after+1"""
    log = {'n': 0}

    def rd_next(E, args, kw):
        self = args[0]
        i = E.cell(self).get('_g_i', 0)
        if i < fail_after:
            E.setf(self, '_g_i', i + 1)
            return msgs[i]
        ci = E.program.classes[M + 'MciIpmDataError']
        raise PyRaise(E.instantiate(ci, [lift('Error while processing ISO8583 record')],
                                    {'record_number': VInt(fail_after + 1), 'binary_context_data': seq_lit('bytes', b'\x00\x00\x00\x04abcd')}))
    E.contracts[M + 'IpmReader.__next__'] = rd_next
    E.contracts[CLI + 'get_config'] = lambda E, args, kw: E.lookup_global('config', E.program.modules['cardutil.config'])
    E.contracts[M + 'ipm_info'] = lambda E, args, kw: E.new_dict({'isValidIPM': TRUE, 'isBlocked': TRUE, 'encoding': lift('latin1')})
    return log


def stdout_has(E, text):
    for line in E.stdout:
        if len(line) == 1 and isinstance(line[0], VSeq) and conc_str(line[0]) == text:
            return True
    return False


@unit('mci_ipm_to_csv.cli_run/bad-file-gives-diagnostic', props=['C07', 'C10'], functions=[CLI + 'mci_ipm_to_csv.cli_run', CLI + 'mci_ipm_to_csv.mci_ipm_to_csv', CLI + 'mci_ipm_to_csv.dicts_to_csv',
                                                                                           CLI + 'print_exception_details', CLI + 'print_banner', CLI + 'mci_ipm_to_csv.print_check_details'])
def u_cli_ipm_to_csv(E):
    """given that reading raises only the library's data error (proved for IpmReader.__next__), the tool catches it, prints the
    operator message naming the record, and returns -1: no traceback"""
    msgs = [E.new_dict({'MTI': lift('1144'), 'DE2': lift('4444')})]
    stub_failing_reader(E, msgs, 1)
    try:
        rc = E.call(CLI + 'mci_ipm_to_csv.cli_run', in_filename=lift('bad.ipm'), out_filename=NONE, in_encoding=NONE, out_encoding=NONE,
                    no1014blocking=FALSE, config_file=NONE, debug=FALSE)
    except PyRaise as pr:
        E.prove('mci_ipm_to_csv.cli_run/no-traceback(%s)' % E.exc_name(pr.exc), False, 'P')
        return
    E.prove('mci_ipm_to_csv.cli_run/returns-error-status', z3.BoolVal(isinstance(rc, VInt) and rc.conc() == -1), 'P')
    E.prove('mci_ipm_to_csv.cli_run/prints-stop-banner', z3.BoolVal(stdout_has(E, '*** ERROR - processing has stopped ***')), 'P')
    E.prove('mci_ipm_to_csv.cli_run/names-the-bad-record', z3.BoolVal(stdout_has(E, 'Error detected in record 2')), 'P')
    E.prove('mci_ipm_to_csv.cli_run/output-file-is-input.csv', z3.BoolVal(('bad.ipm.csv', 'w') in E.ghost.get('opened', [])), 'I')


@unit('mideu.cli_run/bad-file-gives-diagnostic', props=['C07'], functions=[CLI + 'mideu.cli_run', CLI + 'mideu.extract', CLI + 'mideu.dicts_to_csv', CLI + 'print_exception_details', CLI + 'print_banner'])
def u_cli_mideu(E):
    msgs = [E.new_dict({'MTI': lift('1144')})]
    stub_failing_reader(E, msgs, 1)
    extract = E.lookup_global('extract', E.program.modules['cardutil.cli.mideu'])
    try:
        rc = E.call(CLI + 'mideu.cli_run', func=extract, input=lift('bad.ipm'), sourceformat=lift('ebcdic'), no1014blocking=FALSE, loglevel=VInt(30), csvoutputfile=NONE)
    except PyRaise as pr:
        E.prove('mideu.cli_run/no-traceback(%s)' % E.exc_name(pr.exc), False, 'P')
        return
    E.prove('mideu.cli_run/returns-error-status', z3.BoolVal(isinstance(rc, VInt) and rc.conc() == -1), 'P')
    E.prove('mideu.cli_run/prints-stop-banner', z3.BoolVal(stdout_has(E, '*** ERROR - processing has stopped ***')), 'P')
    E.prove('mideu.cli_run/names-the-bad-record', z3.BoolVal(stdout_has(E, 'Error detected in record 2')), 'P')


# ---------------------------------------------------------------- command entry points: cli_run hands the options to the tool function
def cli_plumbing(E, mod, inner, in_param, out_param, in_mode, out_mode, suffix, props_tag, passthrough, vbs_override):
    """cli_run(**options) opens the named input and output (default name: input + suffix), calls the tool function once with
    those two files and with every option as the caller gave it (the 1014 option in particular), and returns its outcome"""
    fi = E.get_function(CLI + mod + '.' + inner)
    calls = []

    def rec(E2, args, kw):
        calls.append(E.bind_args(fi, list(args), dict(kw)))
        return NONE
    E.contracts[CLI + mod + '.' + inner] = rec
    cfg = E.lookup_global('config', E.program.modules['cardutil.config'])
    E.contracts[CLI + 'get_config'] = lambda E2, args, kw: cfg
    E.contracts[M + 'ipm_info'] = lambda E2, args, kw: E.new_dict({'isValidIPM': TRUE, 'isBlocked': VBool(E.fresh_bool('looks_blocked')), 'encoding': lift('latin1')})
    no1014 = TRUE if E.choose(2, 'no1014blocking') == 1 else FALSE
    enc_in, enc_out = E.fresh_seq('str', 'in_encoding'), E.fresh_seq('str', 'out_encoding')
    E.assume(enc_in.n >= 1)
    E.assume(enc_out.n >= 1)
    given_out = E.choose(2, 'out_filename_given') == 1
    opts = {'in_filename': lift('input.dat'), 'out_filename': lift('result.dat') if given_out else NONE, 'in_encoding': enc_in, 'out_encoding': enc_out,
            'no1014blocking': no1014, 'debug': FALSE}
    if 'config_file' in passthrough or mod in ('mci_ipm_to_csv', 'mci_csv_to_ipm'):
        opts['config_file'] = NONE
    if vbs_override:
        opts['in_format'] = lift('1014')
        opts['out_format'] = lift('1014')
    tag = '%s.cli_run/plumbing' % mod
    try:
        E.call(CLI + mod + '.cli_run', **opts)
    except PyRaise as pr:
        E.prove('%s/no-exception(%s)' % (tag, E.exc_name(pr.exc)), False, 'P')
        return
    E.prove(tag + '/tool-function-called-once', z3.BoolVal(len(calls) == 1), 'P')
    if len(calls) != 1:
        return
    a = calls[0]
    extra = a.get('_')
    extra = E.getf(extra, 'val') if isinstance(extra, VRef) else {}
    getopt = lambda k: a.get(k) if k in a else (extra.get(k) if isinstance(extra, dict) else None)
    fs = E.ghost.get('fs', {})
    opened = E.ghost.get('opened', [])
    out_name = 'result.dat' if given_out else 'input.dat' + suffix
    E.prove(tag + '/reads-the-named-input', z3.BoolVal(isinstance(a.get(in_param), VRef) and fs.get('input.dat') is not None and a[in_param].oid == fs['input.dat'].oid
                                                     and ('input.dat', in_mode) in opened), 'P')
    E.prove(tag + '/writes-the-named-output-or-input+%s' % suffix, z3.BoolVal(isinstance(a.get(out_param), VRef) and fs.get(out_name) is not None and a[out_param].oid == fs[out_name].oid
                                                                            and (out_name, out_mode) in opened), 'P')
    for k in passthrough:
        v = getopt(k)
        want = opts[k]
        if k == 'no1014blocking':
            E.prove(tag + '/1014-option-as-the-caller-gave-it', z3.BoolVal(isinstance(v, VBool)) if not isinstance(v, VBool) else v.t == no1014.t, 'P')
        else:
            if isinstance(v, VSeq) and isinstance(want, VSeq):
                E.prove_value_eq('%s/option-%s-as-the-caller-gave-it' % (tag, k), v, want, 'P')
            else:
                E.prove('%s/option-%s-as-the-caller-gave-it' % (tag, k), z3.BoolVal(v is want), 'P')
    if vbs_override:
        for k in ('in_format', 'out_format'):
            v = getopt(k)
            ok = isinstance(v, VSeq) and conc_str(v) is not None
            E.prove('%s/%s-is-vbs-exactly-when-1014-blocking-is-switched-off' % (tag, k),
                    z3.BoolVal(False) if not ok else (no1014.t == z3.BoolVal(conc_str(v) == 'vbs')) if conc_str(v) in ('vbs', '1014') else z3.BoolVal(False), 'P')
    if 'config' in a:
        E.prove(tag + '/configuration-from-get_config', z3.BoolVal(isinstance(a['config'], VRef) and a['config'].oid == cfg.oid), 'P')


for _mod, _inner, _ip, _op, _im, _om, _sfx, _props, _pt, _vbs in (
        ('mci_ipm_to_csv', 'mci_ipm_to_csv', 'in_ipm', 'out_csv', 'rb', 'w', '.csv', ['C20'], ['in_encoding', 'no1014blocking'], False),
        ('mci_csv_to_ipm', 'mci_csv_to_ipm', 'in_csv', 'out_ipm', 'r', 'wb', '.ipm', ['C20'], ['out_encoding', 'no1014blocking'], False),
        ('mci_ipm_encode', 'mci_ipm_encode', 'in_file', 'out_file', 'rb', 'wb', '.out', ['C19'], ['in_encoding', 'out_encoding'], True),
        ('mci_ipm_param_encode', 'mci_ipm_param_encode', 'in_file', 'out_file', 'rb', 'wb', '.out', ['C19'], ['in_encoding', 'out_encoding'], True)):
    def _mk3(mod=_mod, inner=_inner, ip=_ip, op=_op, im=_im, om=_om, sfx=_sfx, props=_props, pt=_pt, vbs=_vbs):
        def u(E):
            cli_plumbing(E, mod, inner, ip, op, im, om, sfx, props, pt, vbs)
        return u
    unit('%s.cli_run/plumbing' % _mod, props=_props, functions=[CLI + _mod + '.cli_run'])(_mk3())
