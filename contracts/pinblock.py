"""Contracts for cardutil/pinblock.py and cardutil/key.py (C13, C14).  Bit-vector domain: every length is made
concrete by a complete finite case split; every digit / key nibble / random bit is symbolic."""
import z3
from pyvc.runner import unit
from pyvc.values import *
from pyvc.engine import PyRaise
from pyvc import models_bv as BV

P = 'cardutil.pinblock.'
K = 'cardutil.key.'

PIN_LENS = list(range(4, 13))
PAN_LENS = list(range(13, 20))


def digits(E, name, n):
    """n symbolic ASCII digit characters (8-bit vectors)"""
    els = []
    for k in range(n):
        c = z3.BitVec('%s_%d' % (name, k), 8)
        E.fact(z3.And(z3.UGE(c, 48), z3.ULE(c, 57)))
        els.append(c)
    return seq_items('str', els)


def hexdigits(E, name, n):
    """n symbolic hex digit characters 0-9a-f"""
    els = []
    for k in range(n):
        c = z3.BitVec('%s_%d' % (name, k), 8)
        E.fact(z3.Or(z3.And(z3.UGE(c, 48), z3.ULE(c, 57)), z3.And(z3.UGE(c, 97), z3.ULE(c, 102))))
        els.append(c)
    return seq_items('str', els)


def nib(c):
    """nibble value of a decimal digit character (BV8 -> BV4)"""
    return z3.Extract(3, 0, c - 48) if not isinstance(c, int) else z3.BitVecVal(c - 48, 4)


def hexnib(c):
    return z3.If(z3.ULE(c, 57), z3.Extract(3, 0, c - 48), z3.Extract(3, 0, c - 87))


def cat(nibs):
    t = nibs[0]
    for x in nibs[1:]:
        t = z3.Concat(t, x)
    return t


def N(v):
    return z3.BitVecVal(v, 4)


# ---- ISO 9564 spec, written from the standard's layout -----------------------------------------
def spec_iso0(pin, pan):
    """(0, L, PIN, F fill) XOR (0000, 12 rightmost PAN digits excluding the check digit) as a 64-bit vector"""
    L = len(pin)
    p1 = [N(0), N(L)] + [nib(c) for c in pin] + [N(15)] * (14 - L)
    acct = pan[len(pan) - 13:len(pan) - 1]
    p2 = [N(0)] * 4 + [nib(c) for c in acct]
    return cat(p1) ^ cat(p2)


def spec_iso4(pin, rnd64):
    """(4, L, PIN, A fill to 16 digits) followed by 64 random bits as a 128-bit vector"""
    L = len(pin)
    p1 = [N(4), N(L)] + [nib(c) for c in pin] + [N(10)] * (14 - L)
    return z3.Concat(cat(p1), rnd64)


def expect_bytes(E, name, got, bv, tier='P'):
    n = bv.size() // 8
    if not (isinstance(got, VSeq) and got.kind == 'bytes'):
        E.prove(name + '/returns-bytes', False, tier)
        return
    got = E.fix_len(got)
    if got.clen() != n:
        E.prove(name + '/length', got.n == n, tier)
        return
    E.prove(name, BV.bytes_to_bv(got) == bv, tier)


def expect_str(E, name, got, chars, tier='P'):
    if not (isinstance(got, VSeq) and got.kind == 'str'):
        E.prove(name + '/returns-str', False, tier)
        return
    got = E.fix_len(got)
    if got.clen() != len(chars):
        E.prove(name + '/length', got.n == len(chars), tier)
        return
    conj = [elem_eq(got.at(z3.IntVal(k)), chars[k]) for k in range(len(chars))]
    E.prove(name, z3.And(*conj) if conj else z3.BoolVal(True), tier)


def get_pin(E, obj):
    return E.getattr_value(obj, 'pin')


# ---- C13 units -----------------------------------------------------------------------------------
def mk_iso0_unit(L):
    @unit('Iso0PinBlock[pin=%d]' % L, props=['C13'],
          functions=[P + 'Iso0PinBlock.__init__', P + 'Iso0PinBlock.to_bytes', P + 'Iso0PinBlock.from_bytes', P + 'AbstractPinBlock.__init__', P + 'AbstractPinBlock.pin'])
    def u(E):
        for PL in PAN_LENS:
            pin = digits(E, 'pin', L)
            pan = digits(E, 'pan', PL)
            E.native_input({'kind': 'iso0', 'pin': pin, 'pan': pan})
            cls = E.program.classes[P + 'Iso0PinBlock']
            pb = E.instantiate(cls, [pin], {'card_number': pan})
            out = E.method(pb, 'to_bytes')
            spec = spec_iso0(pin.items, pan.items)
            expect_bytes(E, 'Iso0.to_bytes=ISO9564-format0[pin=%d,pan=%d]' % (L, PL), out, spec)
            # rebuilding from a block built per the standard returns the PIN (independent of to_bytes)
            pb2 = E.call_value(E.getattr_value(VClass(cls), 'from_bytes'), [BV.bv_to_bytes(spec)], {'card_number': pan})
            expect_str(E, 'Iso0.from_bytes(block).pin=pin[pin=%d,pan=%d]' % (L, PL), get_pin(E, pb2), pin.items)
            E.cover('iso0/%d/%d' % (L, PL))
    return u


def mk_iso4_unit(L):
    @unit('Iso4PinBlock[pin=%d]' % L, props=['C13'],
          functions=[P + 'Iso4PinBlock.__init__', P + 'Iso4PinBlock.to_bytes', P + 'Iso4PinBlock.from_bytes'])
    def u(E):
        pin = digits(E, 'pin', L)
        cls = E.program.classes[P + 'Iso4PinBlock']
        # random fill supplied (1 .. 2^64-1)
        rnd = z3.BitVec('rnd', 64)
        E.fact(rnd != 0)
        E.native_input({'kind': 'iso4', 'pin': pin, 'rnd': VBV(rnd)})
        pb = E.instantiate(cls, [pin], {'random_value': VBV(rnd)})
        E.prove('Iso4/supplied-random-draws-nothing[pin=%d]' % L, z3.BoolVal(E.ghost.get('randbits_calls', 0) == 0), 'P')
        expect_bytes(E, 'Iso4.to_bytes=ISO9564-format4[pin=%d,supplied]' % L, E.method(pb, 'to_bytes'), spec_iso4(pin.items, rnd))
        # the random value is the constructor's second parameter: supplied positionally it is carried just the same
        pbp = E.instantiate(cls, [pin, VBV(rnd)], {})
        E.prove('Iso4/positional-random-draws-nothing[pin=%d]' % L, z3.BoolVal(E.ghost.get('randbits_calls', 0) == 0), 'P')
        expect_bytes(E, 'Iso4.to_bytes=ISO9564-format4[pin=%d,supplied positionally]' % L, E.method(pbp, 'to_bytes'), spec_iso4(pin.items, rnd))
        # none supplied: exactly one fresh 64-bit draw per block, and it is what the block carries
        pa = E.instantiate(cls, [pin], {})
        pb_ = E.instantiate(cls, [pin], {})
        E.prove('Iso4/one-fresh-draw-per-block[pin=%d]' % L, z3.BoolVal(E.ghost.get('randbits_calls', 0) == 2), 'P')
        ra, rb = E.getf(pa, 'random_value'), E.getf(pb_, 'random_value')
        ok = isinstance(ra, VBV) and isinstance(rb, VBV) and ra.w == 64 and not ra.t.eq(rb.t)
        E.prove('Iso4/draws-are-independent-64-bit-values[pin=%d]' % L, z3.BoolVal(ok), 'P')
        if ok:
            expect_bytes(E, 'Iso4.to_bytes=ISO9564-format4[pin=%d,fresh]' % L, E.method(pa, 'to_bytes'), spec_iso4(pin.items, ra.t))
        spec = spec_iso4(pin.items, rnd)
        pb2 = E.call_value(E.getattr_value(VClass(cls), 'from_bytes'), [BV.bv_to_bytes(spec)], {})
        expect_str(E, 'Iso4.from_bytes(block).pin=pin[pin=%d]' % L, get_pin(E, pb2), pin.items)
    return u


for _L in PIN_LENS:
    mk_iso0_unit(_L)
    mk_iso4_unit(_L)


def key_bv(keyhex):
    return cat([hexnib(c) for c in keyhex])


def mk_enc_unit(alg, keychars):
    cname = 'Iso0TDESPinBlockWithVisaPVV' if alg == 'TripleDES' else 'Iso4AESPinBlockWithVisaPVV'
    mixin = 'TdesEncryptedPinBlockMixin' if alg == 'TripleDES' else 'AESEncryptedPinBlockMixin'

    @unit('%s.to_enc_bytes/from_enc_bytes[key=%d hex]' % (cname, keychars), props=['C13'],
          functions=[P + mixin + '.to_enc_bytes', P + mixin + '.from_enc_bytes', P + mixin + '.encrypt', P + mixin + '.decrypt'])
    def u(E):
        cls = E.program.classes[P + cname]
        for L in (4, 12):
            pin = digits(E, 'pin', L)
            pan = digits(E, 'pan', 16)
            key = hexdigits(E, 'key', keychars)
            kt = BV.norm_key(alg, key_bv(key.items))
            Efn = BV.cipher_fn(alg, 'E', kt.size())
            if alg == 'TripleDES':
                pb = E.instantiate(cls, [pin], {'card_number': pan})
                clear = spec_iso0(pin.items, pan.items)
                want = Efn(kt, clear)
                extra = {'card_number': pan}
            else:
                rnd = z3.BitVec('rnd', 64)
                E.fact(rnd != 0)
                pb = E.instantiate(cls, [pin], {'random_value': VBV(rnd)})
                clear = spec_iso4(pin.items, rnd)
                want = Efn(kt, clear)
                extra = {}
            E.native_input({'kind': 'enc', 'alg': alg, 'pin': pin, 'pan': pan, 'key': key})
            out = E.method(pb, 'to_enc_bytes', key)
            expect_bytes(E, '%s.to_enc_bytes=E_%s(key, clear block)[pin=%d]' % (cname, alg, L), out, want)
            # decrypting a block encrypted per the standard under the same key returns the PIN
            E.fact(BV.cipher_fn(alg, 'D', kt.size())(kt, want) == clear)       # D(k, E(k, x)) = x at this block
            pb2 = E.call_value(E.getattr_value(VClass(cls), 'from_enc_bytes'), [BV.bv_to_bytes(want), key], extra)
            expect_str(E, '%s.from_enc_bytes(E(block)).pin=pin[pin=%d]' % (cname, L), get_pin(E, pb2), pin.items)
    return u


for _n in (32, 48):
    mk_enc_unit('TripleDES', _n)
for _n in (32, 48, 64):
    mk_enc_unit('AES', _n)


# ---- C14: PVV --------------------------------------------------------------------------------------
def spec_tsp(pin, pan, idx):
    """11 rightmost PAN digits excluding the check digit, key index, leftmost 4 PIN digits (16 characters)"""
    return list(pan[len(pan) - 12:len(pan) - 1]) + [48 + idx] + list(pin[:4])


@unit('_get_tsp/post', props=['C14'], functions=[P + '_get_tsp'])
def u_tsp(E):
    for L in PIN_LENS:
        for PL in PAN_LENS:
            pin = digits(E, 'pin', L)
            pan = digits(E, 'pan', PL)
            for idx in (0, 5, 9) if (L, PL) != (4, 16) else range(10):
                out = E.call(P + '_get_tsp', pan, VInt(idx), pin)
                expect_str(E, '_get_tsp=pan11+idx+pin4[pin=%d,pan=%d,idx=%d]' % (L, PL, idx), out, spec_tsp(pin.items, pan.items, idx))


def spec_pvv(ct_nibs):
    """Visa PVV decimalisation: scan 1 keeps decimal nibbles; scan 2 maps A-F to 0-5; first four digits.
    Returned as four 8-bit character terms (built as an independent selection network)."""
    def sel(cands, j):
        # cands: [(selected Bool, char term)] ; the element of rank j among the selected ones
        r = z3.BitVecVal(0, 8)
        rank = z3.IntVal(0)
        ranks = []
        for s, _ in cands:
            ranks.append(rank)
            rank = rank + z3.If(s, 1, 0)
        for k in range(len(cands) - 1, -1, -1):
            r = z3.If(z3.And(cands[k][0], ranks[k] == j), cands[k][1], r)
        return r, rank
    first = [(z3.ULT(nb, 10), z3.ZeroExt(4, nb) + 48) for nb in ct_nibs]
    second = [(z3.UGE(nb, 10), z3.ZeroExt(4, nb - 10) + 48) for nb in ct_nibs]
    _, d = sel(first, 0)
    out = []
    for j in range(4):
        a, _ = sel(first, j)
        b, _ = sel(second, j - d)
        out.append(z3.If(j < d, a, b))
    return out


def mk_pvv_unit(keychars, L, PL, idx, thorough_only):
    @unit('calculate_pvv[key=%d hex,pin=%d,pan=%d,idx=%d]' % (keychars, L, PL, idx), props=['C14'], functions=[P + 'calculate_pvv', P + '_get_tsp'],
          thorough_only=thorough_only)
    def u(E):
        key = hexdigits(E, 'key', keychars)
        kt = BV.norm_key('TripleDES', key_bv(key.items))
        Efn = BV.cipher_fn('TripleDES', 'E', kt.size())
        pin = digits(E, 'pin', L)
        pan = digits(E, 'pan', PL)
        tsp = spec_tsp(pin.items, pan.items, idx)
        tsp_bv = cat([nib(c) if not isinstance(c, int) else N(c - 48) for c in tsp])
        ct = Efn(kt, tsp_bv)
        nibs = [z3.Extract(63 - 4 * k, 60 - 4 * k, ct) for k in range(16)]
        E.native_input({'kind': 'pvv', 'pin': pin, 'pan': pan, 'idx': idx, 'key': key})
        try:
            out = E.call(P + 'calculate_pvv', pin, key, VInt(idx), pan)
        except PyRaise as pr:
            E.prove('calculate_pvv/no-exception(%s)[pin=%d,pan=%d]' % (E.exc_name(pr.exc), L, PL), False, 'P')
            return
        want = spec_pvv(nibs)
        expect_str(E, 'calculate_pvv=VisaPVV(E_k(TSP))[pin=%d,pan=%d,idx=%d]' % (L, PL, idx), out, want)
        if isinstance(out, VSeq):
            o = E.fix_len(out)
            if o.clen() == 4:
                E.prove('calculate_pvv/always-four-decimal-digits[pin=%d]' % L,
                        z3.And(*[z3.And(z3.UGE(o.at(z3.IntVal(k)), 48), z3.ULE(o.at(z3.IntVal(k)), 57)) for k in range(4)]), 'P')
    return u


for _i, _n in enumerate((16, 32, 48)):
    for _j, (_L, _PL, _idx) in enumerate(((4, 16, 1), (12, 13, 0), (7, 19, 9))):
        mk_pvv_unit(_n, _L, _PL, _idx, thorough_only=(_i != _j))     # quick tier: one shape per key length


@unit('VisaPVVPinBlockMixin.to_pvv/delegates', props=['C14'], functions=[P + 'VisaPVVPinBlockMixin.to_pvv'])
def u_to_pvv(E):
    seen = {}

    def fake_pvv(E, args, kw):
        # normalise to the positional order (pin, pvv_key, key_index, card_number) whatever way the caller passes them
        names = ['pin', 'pvv_key', 'key_index', 'card_number']
        vals = list(args) + [None] * (4 - len(args))
        for k2, v2 in kw.items():
            if k2 in names:
                vals[names.index(k2)] = v2
        seen['args'] = vals
        return lift('1234')
    E.contracts[P + 'calculate_pvv'] = fake_pvv
    pin = digits(E, 'pin', 6)
    pan = digits(E, 'pan', 16)
    key = hexdigits(E, 'key', 32)
    pb = E.instantiate(E.program.classes[P + 'Iso0TDESPinBlockWithVisaPVV'], [pin], {'card_number': pan})
    out = E.method(pb, 'to_pvv', key, key_index=VInt(3))
    a = seen.get('args')
    ok = a is not None and len(a) == 4 and all(x is not None for x in a)
    E.prove('to_pvv/calls-calculate_pvv-with-pin-key-index-and-card-number', z3.BoolVal(ok), 'P')
    if ok:
        E.prove('to_pvv/passes-pin', z3.BoolVal(a[0] is pin or (isinstance(a[0], VSeq) and a[0].items == pin.items)), 'P')
        E.prove('to_pvv/passes-key', z3.BoolVal(a[1] is key), 'P')
        E.prove('to_pvv/passes-index', z3.BoolVal(isinstance(a[2], VInt)) if not isinstance(a[2], VInt) else a[2].t == 3, 'P')
        E.prove('to_pvv/passes-own-card-number', z3.BoolVal(a[3] is pan), 'P')
    # every legal key index 0..9 is passed on as given (keyword and positional), 0 included; without one, index 1 is used
    idx = E.fresh_int('key_index')
    E.assume(z3.And(idx >= 0, idx <= 9))
    for how in ('keyword', 'positional'):
        seen.clear()
        if how == 'keyword':
            E.method(pb, 'to_pvv', key, key_index=VInt(idx))
        else:
            E.method(pb, 'to_pvv', key, VInt(idx))
        a = seen.get('args') or [None] * 4
        E.prove('to_pvv/any-key-index-0..9-passed-as-given[%s]' % how, z3.BoolVal(isinstance(a[2], VInt)) if not isinstance(a[2], VInt) else a[2].t == idx, 'P')
    seen.clear()
    E.method(pb, 'to_pvv', key)
    a = seen.get('args') or [None] * 4
    E.prove('to_pvv/default-key-index-is-1', z3.BoolVal(isinstance(a[2], VInt)) if not isinstance(a[2], VInt) else a[2].t == 1, 'P')
    # format 4 block has no card number of its own: the parameter is used, and required
    pb4 = E.instantiate(E.program.classes[P + 'Iso4AESPinBlockWithVisaPVV'], [pin], {'random_value': VBV(z3.BitVecVal(5, 64))})
    E.method(pb4, 'to_pvv', key, card_number=pan)
    E.prove('to_pvv/format4-uses-parameter', z3.BoolVal(len(seen.get('args') or []) == 4 and seen['args'][3] is pan), 'P')
    try:
        E.method(pb4, 'to_pvv', key)
        E.prove('to_pvv/format4-requires-card-number', False, 'I')
    except PyRaise as pr:
        E.prove('to_pvv/format4-requires-card-number', z3.BoolVal(E.exc_is(pr.exc, ValueError)), 'I')


# ---- C14: key check value, key parts ---------------------------------------------------------------
def kcv_chars(kt, n=6):
    """leading hex digits of E_k(0^8) (first 3DES block of the all-zero input)"""
    Efn = BV.cipher_fn('TripleDES', 'E', kt.size())
    ct = Efn(kt, z3.BitVecVal(0, 64))
    return [BV.nibble_char(z3.Extract(63 - 4 * k, 60 - 4 * k, ct)) for k in range(n)]


@unit('calculate_kcv/post', props=['C14'], functions=[K + 'calculate_kcv'])
def u_kcv(E):
    for nbytes in (8, 16, 24):
        keyb = seq_items('bytes', [z3.BitVec('kb_%d' % k, 8) for k in range(nbytes)])
        kt = BV.norm_key('TripleDES', BV.bytes_to_bv(keyb))
        out = E.call(K + 'calculate_kcv', keyb)
        expect_str(E, 'calculate_kcv=first-6-hex-of-E_k(zeros)[key=%d bytes]' % nbytes, out, kcv_chars(kt, 6))
        for n in (1, 3, 4, 5, 7, 8, 16):
            outn = E.call(K + 'calculate_kcv', keyb, VInt(n))
            expect_str(E, 'calculate_kcv(len=%d)[key=%d bytes]' % (n, nbytes), outn, kcv_chars(kt, n))


def mk_zmk_unit(m):
    @unit('get_zone_master_key[%d parts]' % m, props=['C14'], functions=[K + 'get_zone_master_key', K + 'calculate_kcv'])
    def u(E):
        parts = [hexdigits(E, 'part%d' % j, 32) for j in range(m)]
        x = z3.BitVecVal(0, 128)
        for p in parts:
            x = x ^ key_bv(p.items)
        E.native_input({'kind': 'zmk', 'parts': parts})
        out = E.call(K + 'get_zone_master_key', *parts)
        ok = isinstance(out, VTuple) and len(out.items) == 2
        E.prove('get_zone_master_key/returns-pair[%d]' % m, z3.BoolVal(ok), 'P')
        if not ok:
            return
        want = [BV.nibble_char(z3.Extract(127 - 4 * k, 124 - 4 * k, x)) for k in range(32)]
        expect_str(E, 'get_zone_master_key/key=XOR-of-components[%d]' % m, out.items[0], want)
        expect_str(E, 'get_zone_master_key/kcv-of-combined-key[%d]' % m, out.items[1], kcv_chars(BV.norm_key('TripleDES', x), 6))
    return u


for _m in (1, 2, 3, 4):
    mk_zmk_unit(_m)


# any number of components: loop invariant over the real `for key_part in key_parts` loop
KPART = z3.Function('KEYPART_CHAR', z3.IntSort(), z3.IntSort(), z3.BitVecSort(8))
XFOLD = z3.Function('XOR_OF_FIRST', z3.IntSort(), z3.BitVecSort(128))


def key_part(E, j):
    """component j: 32 hex digits (upper or lower case)"""
    els = [KPART(j, z3.IntVal(k)) for k in range(32)]
    for c in els:
        E.fact(z3.Or(z3.And(z3.UGE(c, 48), z3.ULE(c, 57)), z3.And(z3.UGE(c, 97), z3.ULE(c, 102)), z3.And(z3.UGE(c, 65), z3.ULE(c, 70))))
    return seq_items('str', els)


def hexnib_any(c):
    """value of a hex digit character of either case"""
    return z3.If(z3.ULE(c, 57), z3.Extract(3, 0, c - 48), z3.If(z3.ULE(c, 70), z3.Extract(3, 0, c - 55), z3.Extract(3, 0, c - 87)))


def hex32(x):
    return seq_items('str', [BV.nibble_char(z3.Extract(127 - 4 * k, 124 - 4 * k, x)) for k in range(32)])


class KeyPartsLoop:
    """after i components p1 is the 32 lowercase hex digits of XOR_OF_FIRST(i), where
    XOR_OF_FIRST(0) = 0 and XOR_OF_FIRST(i+1) = XOR_OF_FIRST(i) xor component i"""
    ghosts = []

    def entry(self, ctx):
        return {}

    def step(self, ctx, g):
        return {}

    def side(self, ctx, g):
        return []

    def facts(self, ctx, g):
        i = g['i']
        part = key_part(ctx.E, i)
        return [XFOLD(0) == z3.BitVecVal(0, 128), XFOLD(i + 1) == XFOLD(i) ^ cat([hexnib_any(c) for c in part.items])]

    def state(self, ctx, g):
        return {'p1': hex32(XFOLD(g['i']))}


@unit('get_zone_master_key/any-number-of-components', props=['C14'], functions=[K + 'get_zone_master_key', K + 'calculate_kcv'])
def u_zmk_any(E):
    n = E.fresh_int('n_parts')
    E.assume(n >= 0)
    E.fact(XFOLD(0) == z3.BitVecVal(0, 128))
    parts = VSeq('list', n, lambda j: key_part(E, I(j)))   # *key_parts: immutable, iterated once (list-kind functional sequence)
    E.loop_specs[(K + 'get_zone_master_key', 0)] = KeyPartsLoop()
    out = E.call(K + 'get_zone_master_key', __varargs__=parts)
    ok = isinstance(out, VTuple) and len(out.items) == 2
    E.prove('get_zone_master_key/returns-pair[any number]', z3.BoolVal(ok), 'P')
    if not ok:
        return
    x = XFOLD(n)
    expect_str(E, 'get_zone_master_key/key=XOR-of-all-components[any number]', out.items[0], hex32(x).items)
    expect_str(E, 'get_zone_master_key/kcv-of-combined-key[any number]', out.items[1], kcv_chars(BV.norm_key('TripleDES', x), 6))


@unit('get_enc_zone_master_key+encrypt_key/post', props=['C14'], functions=[K + 'get_enc_zone_master_key', K + 'encrypt_key', K + 'get_zone_master_key'])
def u_enc_zmk(E):
    for mk_chars in (32, 48):
        mk = hexdigits(E, 'mk', mk_chars)
        parts = [hexdigits(E, 'part%d' % j, 32) for j in range(2)]
        x = key_bv(parts[0].items) ^ key_bv(parts[1].items)
        mkt = BV.norm_key('TripleDES', key_bv(mk.items))
        Efn = BV.cipher_fn('TripleDES', 'E', mkt.size())
        enc = z3.Concat(Efn(mkt, z3.Extract(127, 64, x)), Efn(mkt, z3.Extract(63, 0, x)))
        out = E.call(K + 'get_enc_zone_master_key', mk, *parts)
        ok = isinstance(out, VTuple) and len(out.items) == 2
        E.prove('get_enc_zone_master_key/returns-pair[mk=%d]' % mk_chars, z3.BoolVal(ok), 'P')
        if ok:
            want = [BV.nibble_char(z3.Extract(127 - 4 * k, 124 - 4 * k, enc)) for k in range(32)]
            expect_str(E, 'get_enc_zone_master_key=3DES-ECB(master, XOR of components)[mk=%d]' % mk_chars, out.items[0], want)
            expect_str(E, 'get_enc_zone_master_key/kcv[mk=%d]' % mk_chars, out.items[1], kcv_chars(BV.norm_key('TripleDES', x), 6))
        raw = E.call(K + 'encrypt_key', parts[0], mk)
        x0 = key_bv(parts[0].items)
        expect_bytes(E, 'encrypt_key=3DES-ECB(master, key)[mk=%d]' % mk_chars, raw,
                     z3.Concat(Efn(mkt, z3.Extract(127, 64, x0)), Efn(mkt, z3.Extract(63, 0, x0))))


@unit('key-component-XOR/lemmas', props=['C14'], functions=[])
def u_xor_lemmas(E):
    """order independence and cancellation of the XOR combination (over the spec the units above prove the code equal to)"""
    a, b, c = z3.BitVec('ka', 128), z3.BitVec('kb', 128), z3.BitVec('kc', 128)
    E.prove('xor/swap-adjacent-components', (a ^ b) ^ c == (a ^ c) ^ b, 'P', 'lemma')
    E.prove('xor/swap-first-two', (a ^ b) ^ c == (b ^ a) ^ c, 'P', 'lemma')
    E.prove('xor/component-given-twice-cancels', (a ^ b) ^ b == a, 'P', 'lemma')
    E.prove('xor/zero-start', z3.BitVecVal(0, 128) ^ a == a, 'P', 'lemma')
