"""PDS and ICC sub-element walkers of cardutil/iso8583.py: _pds_to_dict, _icc_to_dict, _pds_to_de (C07, C12, C01, C02)."""
import z3
from pyvc.runner import unit
from pyvc.values import *
from pyvc.engine import PyRaise
from pyvc import models_iso as MI
from pyvc.models import POW10
from .iso_field import Q, ERR, expect_lib_error

OFF = z3.Function('PDS_OFF', z3.IntSort(), z3.IntSort())          # offset of item j in the carrier
VLEN = z3.Function('PDS_VLEN', z3.IntSort(), z3.IntSort())        # value length of item j
TAGC = z3.Function('PDS_TAGC', z3.IntSort(), z3.IntSort(), z3.IntSort())   # tag character k of item j
VALC = z3.Function('PDS_VALC', z3.IntSort(), z3.IntSort(), z3.IntSort())   # value character k of item j


def fresh_dict(E, name):
    ents = E.fresh_seq('list', name)
    ents2 = VSeq('list', ents.n, lambda i: VTuple([VOpaque('key', z3.Int('k')), VOpaque('val', z3.Int('v'))]))
    return E.new_cell({'__kind__': 'dict', 'val': MI.AssocDict(ents2)})


# ------------------------------------------------------------------ arbitrary input: termination + exception set (C07)
class PdsWalkAny:
    ghosts = ['p']
    havoc_keys = ['return_values']
    variant_tier = 'P'

    def __init__(self, fd=None):
        self.fd = fd

    def entry(self, ctx):
        return {'p': z3.IntVal(0)}

    def step(self, ctx, g):
        return {'p': ctx.E.as_int(ctx.now('field_pointer'))}

    def side(self, ctx, g):
        return [g['p'] >= 0]

    def state(self, ctx, g):
        return {'field_pointer': VInt(g['p'])}

    def havoc(self, ctx, g):
        return {'return_values': fresh_dict(ctx.E, 'pds_entries')}

    def variant(self, ctx, g):
        return ctx.entry('field_data').n - g['p']


@unit('_pds_to_dict/any-input', props=['C07'], functions=[Q + '_pds_to_dict'])
def u_pds_any(E):
    """for EVERY string: terminates (variant: characters left) and raises nothing but the library error"""
    fd = E.fresh_seq('str', 'fd')
    E.loop_specs[(Q + '_pds_to_dict', 0)] = PdsWalkAny(fd)
    E.native_input({'kind': 'pds-field', 'fd': fd})
    E.cover('_pds_to_dict/pre')
    try:
        E.call(Q + '_pds_to_dict', fd)
    except PyRaise as pr:
        expect_lib_error(E, '_pds_to_dict[any]', pr)
        return
    E.cover('_pds_to_dict/returns')


# ------------------------------------------------------------------ carrier = concatenation of items: exact recovery (C12, C01)
def tiled_carrier(E, m):
    """a string that is item(0) ++ ... ++ item(m-1), item j = tag(4 digits) len(3 digits, = VLEN(j)) value; the
    universally quantified item facts are instantiated at every accessed position for the items in `E.ghost['pds_inst']`"""
    E.ghost.setdefault('pds_inst', [])

    def elem_fact(e, p):
        fs = []
        for j in E.ghost['pds_inst']:
            o = OFF(j)
            in_item = z3.And(j >= 0, j < m, p >= o, p < OFF(j + 1))
            k = p - o
            vl = VLEN(j)
            lenc = z3.If(k == 4, 48 + (vl / 100) % 10, z3.If(k == 5, 48 + (vl / 10) % 10, 48 + vl % 10))
            fs.append(z3.Implies(in_item, e == z3.If(k < 4, TAGC(j, k), z3.If(k < 7, lenc, VALC(j, k - 7)))))
        return z3.And(*fs) if fs else z3.BoolVal(True)
    fd = E.fresh_seq('str', 'carrier', elem_fact=elem_fact)
    return fd


def item_facts(j, m):
    return [z3.Implies(z3.And(j >= 0, j < m), z3.And(VLEN(j) >= 0, VLEN(j) <= 999, OFF(j + 1) == OFF(j) + 7 + VLEN(j), OFF(j + 1) <= OFF(m),
                                                   *[z3.And(TAGC(j, k) >= 48, TAGC(j, k) <= 57) for k in range(4)]))]


def item_key(j):
    return seq_items('str', [80, 68, 83] + [TAGC(j, k) for k in range(4)])


def item_val(j):
    return VSeq('str', VLEN(j), lambda k, j=j: VALC(j, I(k)))


class PdsWalkTiled:
    """ghost j = items parsed: field_pointer = OFF(j), return_values = entries of items 0..j-1"""
    ghosts = ['j']
    variant_tier = 'P'

    def __init__(self, G):
        self.G = G

    def entry(self, ctx):
        return {'j': z3.IntVal(0)}

    def step(self, ctx, g):
        return {'j': g['j'] + 1}

    def side(self, ctx, g):
        j, m = g['j'], self.G['m']
        return [j >= 0, j <= m, OFF(j) >= 0, OFF(j) <= OFF(m)]

    def facts(self, ctx, g):
        j, m = g['j'], self.G['m']
        ctx.E.ghost['pds_inst'] = [j]
        return item_facts(j, m)

    def state(self, ctx, g):
        E = ctx.E
        j = g['j']
        ents = VSeq('list', j, lambda i: VTuple([item_key(I(i)), item_val(I(i))]))
        d = E.new_cell({'__kind__': 'dict', 'val': MI.AssocDict(ents)})
        return {'field_pointer': VInt(OFF(j)), 'return_values': d}

    def variant(self, ctx, g):
        return self.G['fd'].n - OFF(g['j'])


@unit('_pds_to_dict/item-tiled-carrier', props=['C12', 'C01', 'C02'], functions=[Q + '_pds_to_dict'])
def u_pds_tiled(E):
    """a carrier that is a concatenation of tag(4) len(3) value items decodes to exactly those entries, any number of items,
    any value lengths 0..999 (zero-length and digit-only values included)"""
    m = E.fresh_int('m')
    E.assume(m >= 0)
    fd = tiled_carrier(E, m)
    E.assume(OFF(0) == 0)
    E.assume(fd.n == OFF(m))
    E.loop_specs[(Q + '_pds_to_dict', 0)] = PdsWalkTiled({'m': m, 'fd': fd})
    E.native_input({'kind': 'pds-count', 'm': VInt(m)})
    try:
        out = E.call(Q + '_pds_to_dict', fd)
    except PyRaise as pr:
        E.prove('_pds_to_dict[tiled]/no-exception(%s)' % E.exc_name(pr.exc), False, 'P')
        return
    dv = E.getf(out, 'val')
    ents = MI.AssocDict.from_concrete(dv).entries if isinstance(dv, dict) else dv.entries
    E.prove('_pds_to_dict[tiled]/one-entry-per-item', ents.n == m, 'P')
    k = E.fresh_int('k')
    E.assume(k >= 0)
    E.assume(k < m)
    E.assume(k < ents.n)
    e = ents.at(k)
    E.prove_value_eq('_pds_to_dict[tiled]/key=PDS+tag', e.items[0], item_key(k), 'P')
    E.prove_value_eq('_pds_to_dict[tiled]/value-unchanged', e.items[1], item_val(k), 'P')


# ------------------------------------------------------------------ ICC TLV walker
class IccWalkAny:
    ghosts = ['p']
    havoc_keys = ['return_values']
    variant_tier = 'P'

    def __init__(self, fd=None):
        self.fd = fd

    def entry(self, ctx):
        return {'p': z3.IntVal(0)}

    def step(self, ctx, g):
        return {'p': ctx.E.as_int(ctx.now('field_pointer'))}

    def side(self, ctx, g):
        return [g['p'] >= 0]

    def state(self, ctx, g):
        return {'field_pointer': VInt(g['p'])}

    def havoc(self, ctx, g):
        return {'return_values': fresh_dict(ctx.E, 'icc_entries')}

    def variant(self, ctx, g):
        return ctx.entry('field_data').n - g['p']


@unit('_icc_to_dict/any-input', props=['C07'], functions=[Q + '_icc_to_dict'])
def u_icc_any(E):
    """for EVERY byte string: terminates; only struct.error can escape (translated by the caller, see the DE55 field unit)"""
    fd = E.fresh_seq('bytes', 'icc')
    E.loop_specs[(Q + '_icc_to_dict', 0)] = IccWalkAny(fd)
    E.native_input({'kind': 'icc-field', 'fd': fd})
    try:
        out = E.call(Q + '_icc_to_dict', fd)
    except PyRaise as pr:
        import struct
        E.prove('_icc_to_dict[any]/only-struct.error-escapes(%s)' % E.exc_name(pr.exc), z3.BoolVal(E.exc_is(pr.exc, struct.error)), 'P', 'xpost')
        return
    dv = E.getf(out, 'val')
    E.cover('_icc_to_dict/returns')


def install_walker_specs(E):
    """loop specs of the two sub-element walkers for arbitrary input (used when they run inside _iso8583_to_field)"""
    E.loop_specs[(Q + '_pds_to_dict', 0)] = PdsWalkAny()
    E.loop_specs[(Q + '_icc_to_dict', 0)] = IccWalkAny()
