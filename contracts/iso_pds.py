"""PDS and ICC sub-element walkers of cardutil/iso8583.py: _pds_to_dict, _icc_to_dict, _pds_to_de (C07, C12, C01, C02)."""
import z3
from pyvc.runner import unit
from pyvc.values import *
from pyvc.engine import PyRaise
from pyvc import models_iso as MI
from pyvc.models import POW10
from .iso_field import Q, ERR, expect_lib_error

OFF = z3.Function('PDS_OFF', z3.IntSort(), z3.IntSort())          # offset of item j in the carrier
VLEN = z3.Function('PDS_VLEN', z3.IntSort(), z3.IntSort())        # value length of item j
TAGC = z3.Function('PDS_TAGC', z3.IntSort(), z3.IntSort(), z3.IntSort())   # tag character k of item j
VALC = z3.Function('PDS_VALC', z3.IntSort(), z3.IntSort(), z3.IntSort())   # value character k of item j


def fresh_dict(E, name):
    ents = E.fresh_seq('list', name)
    ents2 = VSeq('list', ents.n, lambda i: VTuple([VOpaque('key', z3.Int('k')), VOpaque('val', z3.Int('v'))]))
    return E.new_cell({'__kind__': 'dict', 'val': MI.AssocDict(ents2)})


# ------------------------------------------------------------------ arbitrary input: termination + exception set (C07)
class PdsWalkAny:
    ghosts = ['p']
    havoc_keys = ['return_values']
    variant_tier = 'P'

    def __init__(self, fd=None):
        self.fd = fd

    def entry(self, ctx):
        return {'p': z3.IntVal(0)}

    def step(self, ctx, g):
        return {'p': ctx.E.as_int(ctx.now('field_pointer'))}

    def side(self, ctx, g):
        return [g['p'] >= 0]

    def state(self, ctx, g):
        return {'field_pointer': VInt(g['p'])}

    def havoc(self, ctx, g):
        return {'return_values': fresh_dict(ctx.E, 'pds_entries')}

    def variant(self, ctx, g):
        return ctx.entry('field_data').n - g['p']


@unit('_pds_to_dict/any-input', props=['C07'], functions=[Q + '_pds_to_dict'])
def u_pds_any(E):
    """for EVERY string: terminates (variant: characters left) and raises nothing but the library error"""
    fd = E.fresh_seq('str', 'fd')
    E.loop_specs[(Q + '_pds_to_dict', 0)] = PdsWalkAny(fd)
    E.native_input({'kind': 'pds-field', 'fd': fd})
    E.cover('_pds_to_dict/pre')
    try:
        E.call(Q + '_pds_to_dict', fd)
    except PyRaise as pr:
        expect_lib_error(E, '_pds_to_dict[any]', pr)
        return
    E.cover('_pds_to_dict/returns')


# ------------------------------------------------------------------ carrier = concatenation of items: exact recovery (C12, C01)
def tiled_carrier(E, m):
    """a string that is item(0) ++ ... ++ item(m-1), item j = tag(4 digits) len(3 digits, = VLEN(j)) value; the
    universally quantified item facts are instantiated at every accessed position for the items in `E.ghost['pds_inst']`"""
    E.ghost.setdefault('pds_inst', [])

    def elem_fact(e, p):
        fs = []
        for j in E.ghost['pds_inst']:
            o = OFF(j)
            in_item = z3.And(j >= 0, j < m, p >= o, p < OFF(j + 1))
            k = p - o
            vl = VLEN(j)
            lenc = z3.If(k == 4, 48 + (vl / 100) % 10, z3.If(k == 5, 48 + (vl / 10) % 10, 48 + vl % 10))
            fs.append(z3.Implies(in_item, e == z3.If(k < 4, TAGC(j, k), z3.If(k < 7, lenc, VALC(j, k - 7)))))
        return z3.And(*fs) if fs else z3.BoolVal(True)
    fd = E.fresh_seq('str', 'carrier', elem_fact=elem_fact)
    return fd


def item_facts(j, m):
    return [z3.Implies(z3.And(j >= 0, j < m), z3.And(VLEN(j) >= 0, VLEN(j) <= 999, OFF(j + 1) == OFF(j) + 7 + VLEN(j), OFF(j + 1) <= OFF(m),
                                                   *[z3.And(TAGC(j, k) >= 48, TAGC(j, k) <= 57) for k in range(4)]))]


def item_key(j):
    return seq_items('str', [80, 68, 83] + [TAGC(j, k) for k in range(4)])


def item_val(j):
    return VSeq('str', VLEN(j), lambda k, j=j: VALC(j, I(k)))


class PdsWalkTiled:
    """ghost j = items parsed: field_pointer = OFF(j), return_values = entries of items 0..j-1"""
    ghosts = ['j']
    variant_tier = 'P'

    def __init__(self, G):
        self.G = G

    def entry(self, ctx):
        return {'j': z3.IntVal(0)}

    def step(self, ctx, g):
        return {'j': g['j'] + 1}

    def side(self, ctx, g):
        j, m = g['j'], self.G['m']
        return [j >= 0, j <= m, OFF(j) >= 0, OFF(j) <= OFF(m)]

    def facts(self, ctx, g):
        j, m = g['j'], self.G['m']
        ctx.E.ghost['pds_inst'] = [j]
        return item_facts(j, m)

    def state(self, ctx, g):
        E = ctx.E
        j = g['j']
        ents = VSeq('list', j, lambda i: VTuple([item_key(I(i)), item_val(I(i))]))
        d = E.new_cell({'__kind__': 'dict', 'val': MI.AssocDict(ents)})
        return {'field_pointer': VInt(OFF(j)), 'return_values': d}

    def variant(self, ctx, g):
        return self.G['fd'].n - OFF(g['j'])


@unit('_pds_to_dict/item-tiled-carrier', props=['C12', 'C01', 'C02'], functions=[Q + '_pds_to_dict'])
def u_pds_tiled(E):
    """a carrier that is a concatenation of tag(4) len(3) value items decodes to exactly those entries, any number of items,
    any value lengths 0..999 (zero-length and digit-only values included)"""
    m = E.fresh_int('m')
    E.assume(m >= 0)
    fd = tiled_carrier(E, m)
    E.assume(OFF(0) == 0)
    E.assume(fd.n == OFF(m))
    E.loop_specs[(Q + '_pds_to_dict', 0)] = PdsWalkTiled({'m': m, 'fd': fd})
    E.native_input({'kind': 'pds-count', 'm': VInt(m)})
    try:
        out = E.call(Q + '_pds_to_dict', fd)
    except PyRaise as pr:
        E.prove('_pds_to_dict[tiled]/no-exception(%s)' % E.exc_name(pr.exc), False, 'P')
        return
    dv = E.getf(out, 'val')
    ents = MI.AssocDict.from_concrete(dv).entries if isinstance(dv, dict) else dv.entries
    E.prove('_pds_to_dict[tiled]/one-entry-per-item', ents.n == m, 'P')
    k = E.fresh_int('k')
    E.assume(k >= 0)
    E.assume(k < m)
    E.assume(k < ents.n)
    e = ents.at(k)
    E.prove_value_eq('_pds_to_dict[tiled]/key=PDS+tag', e.items[0], item_key(k), 'P')
    E.prove_value_eq('_pds_to_dict[tiled]/value-unchanged', e.items[1], item_val(k), 'P')


# ------------------------------------------------------------------ ICC TLV walker
class IccWalkAny:
    ghosts = ['p']
    havoc_keys = ['return_values']
    variant_tier = 'P'

    def __init__(self, fd=None):
        self.fd = fd

    def entry(self, ctx):
        return {'p': z3.IntVal(0)}

    def step(self, ctx, g):
        return {'p': ctx.E.as_int(ctx.now('field_pointer'))}

    def side(self, ctx, g):
        return [g['p'] >= 0]

    def state(self, ctx, g):
        return {'field_pointer': VInt(g['p'])}

    def havoc(self, ctx, g):
        return {'return_values': fresh_dict(ctx.E, 'icc_entries')}

    def variant(self, ctx, g):
        return ctx.entry('field_data').n - g['p']


@unit('_icc_to_dict/any-input', props=['C07'], functions=[Q + '_icc_to_dict'])
def u_icc_any(E):
    """for EVERY byte string: terminates; only struct.error can escape (translated by the caller, see the DE55 field unit)"""
    fd = E.fresh_seq('bytes', 'icc')
    E.loop_specs[(Q + '_icc_to_dict', 0)] = IccWalkAny(fd)
    E.native_input({'kind': 'icc-field', 'fd': fd})
    try:
        out = E.call(Q + '_icc_to_dict', fd)
    except PyRaise as pr:
        import struct
        E.prove('_icc_to_dict[any]/only-struct.error-escapes(%s)' % E.exc_name(pr.exc), z3.BoolVal(E.exc_is(pr.exc, struct.error)), 'P', 'xpost')
        return
    dv = E.getf(out, 'val')
    E.cover('_icc_to_dict/returns')


def install_walker_specs(E):
    """loop specs of the two sub-element walkers for arbitrary input (used when they run inside _iso8583_to_field)"""
    E.loop_specs[(Q + '_pds_to_dict', 0)] = PdsWalkAny()
    E.loop_specs[(Q + '_icc_to_dict', 0)] = IccWalkAny()


# ------------------------------------------------------------------ _pds_to_de over ANY number of sub-elements (C12)
TAGV = z3.Function('PDS_TAGV', z3.IntSort(), z3.IntSort())          # tag of the j-th smallest key (0..9999, strictly ascending)
IOFF = z3.Function('PDS_IOFF', z3.IntSort(), z3.IntSort())          # offset of item j in the concatenation of all items
IVLEN = z3.Function('PDS_IVLEN', z3.IntSort(), z3.IntSort())        # value length of item j
IVALC = z3.Function('PDS_IVALC', z3.IntSort(), z3.IntSort(), z3.IntSort())
CUTS = z3.ArraySort(z3.IntSort(), z3.IntSort())


def item_hyp(j, m):
    """hypotheses about item j of the input set (instantiated where needed)"""
    return z3.Implies(z3.And(j >= 0, j < m),
                      z3.And(TAGV(j) >= 0, TAGV(j) <= 9999, IVLEN(j) >= 0, IVLEN(j) <= 992, IOFF(j + 1) == IOFF(j) + 7 + IVLEN(j), IOFF(j) >= 0,
                             IOFF(j + 1) <= IOFF(m)))


def all_items(E, m):
    """ALL = item(0) ++ item(1) ++ ... : tag(4 digits) len(3 digits) value, facts instantiated at E.ghost['pack_inst']"""
    E.ghost.setdefault('pack_inst', [])

    def elem_fact(e, p):
        fs = []
        for j in E.ghost['pack_inst']:
            k = p - IOFF(j)
            t, vl = TAGV(j), IVLEN(j)
            hdr = z3.If(k == 0, 48 + (t / 1000) % 10, z3.If(k == 1, 48 + (t / 100) % 10, z3.If(k == 2, 48 + (t / 10) % 10, z3.If(k == 3, 48 + t % 10,
                  z3.If(k == 4, 48 + (vl / 100) % 10, z3.If(k == 5, 48 + (vl / 10) % 10, 48 + vl % 10))))))
            fs.append(z3.Implies(z3.And(j >= 0, j < m, p >= IOFF(j), p < IOFF(j + 1)), e == z3.If(k < 7, hdr, IVALC(j, k - 7))))
        return z3.And(*fs) if fs else z3.BoolVal(True)
    return E.fresh_seq('str', 'ALLITEMS', elem_fact=elem_fact)


class PdsPackLoop:
    """`for key in keys` of _pds_to_de.  ghosts: q = carriers closed so far, s = first item of the open carrier, CUT[c] = first item
    of carrier c; c* (self.G['cstar']) is an arbitrary closed carrier (skolem for the per-carrier clauses)"""
    ghosts = ['q', 's', 'CUT']
    ghost_sorts = {'CUT': CUTS}

    def __init__(self, G):
        self.G = G

    def entry(self, ctx):
        return {'q': z3.IntVal(0), 's': z3.IntVal(0), 'CUT': z3.K(z3.IntSort(), z3.IntVal(0))}

    def step(self, ctx, g):
        E = ctx.E
        i = g['i']
        nq = E.list_val(ctx.now('outputs')).n
        flushed = nq == g['q'] + 1
        return {'q': nq, 's': z3.If(flushed, i, g['s']), 'CUT': z3.If(flushed, z3.Store(g['CUT'], g['q'] + 1, i), g['CUT'])}

    def side(self, ctx, g):
        i, q, s, CUT = g['i'], g['q'], g['s'], g['CUT']
        c = self.G['cstar']
        per_carrier = z3.Implies(z3.And(c >= 0, c < q),
                                 z3.And(CUT[c] >= 0, CUT[c] < CUT[c + 1], CUT[c + 1] <= s, CUT[c + 1] < self.G['m'],
                                        IOFF(CUT[c + 1]) - IOFF(CUT[c]) <= 999,                       # carrier holds at most 999 characters
                                        IOFF(CUT[c + 1] + 1) - IOFF(CUT[c]) > 999))                   # greedy: the next item did not fit
        return [q >= 0, s >= 0, s <= i, CUT[0] == 0, CUT[q] == s, z3.Implies(q == 0, s == 0), IOFF(i) - IOFF(s) <= 999,
                z3.Implies(q > 0, s > CUT[q - 1]), z3.Implies(s < i, IOFF(i) > IOFF(s)), per_carrier]

    def facts(self, ctx, g):
        i, m = g['i'], self.G['m']
        ctx.E.ghost['pack_inst'] = [i]
        c = self.G['cstar']
        CUT = g['CUT']
        return [item_hyp(i, m), item_hyp(g['s'], m), item_hyp(i - 1, m), z3.Implies(i > 0, IOFF(i) == IOFF(i - 1) + 7 + IVLEN(i - 1)),
                item_hyp(CUT[c + 1], m), item_hyp(CUT[c], m)]

    def state(self, ctx, g):
        E = ctx.E
        i, q, s, CUT = g['i'], g['q'], g['s'], g['CUT']
        ALL = self.G['ALL']
        outs = VSeq('list', q, lambda c, CUT=CUT: seq_slice(ALL, IOFF(CUT[I(c)]), IOFF(CUT[I(c) + 1]), E.decide))
        return {'output': seq_slice(ALL, IOFF(s), IOFF(i), E.decide), 'outputs': outs}


@unit('_pds_to_de/any-number-of-sub-elements', props=['C12', 'C01', 'C02'], functions=[Q + '_pds_to_de'])
def u_pack_any(E):
    """ANY set of sub-elements (distinct 4-digit tags, values of 0..992 characters): the carriers are the greedy partition of the
    items in ascending tag order - each at most 999 characters, closed only when the next item does not fit, no item split,
    none empty, concatenated = all items"""
    m = E.fresh_int('m')
    E.assume(m >= 1)
    ALL = all_items(E, m)
    E.assume(IOFF(0) == 0)
    E.assume(ALL.n == IOFF(m))
    cstar = E.fresh_int('cstar')

    def sorted_key(j):
        items = [80, 68, 83] + [48 + (TAGV(j) / 1000) % 10, 48 + (TAGV(j) / 100) % 10, 48 + (TAGV(j) / 10) % 10, 48 + TAGV(j) % 10]
        k = seq_items('str', items)
        k.tag = ('pdskey', j)
        return k

    def value(j):
        E.fact(z3.And(IVLEN(j) >= 0, IVLEN(j) <= 992))
        return VSeq('str', IVLEN(j), lambda k, j=j: IVALC(j, I(k)))
    G = {'m': m, 'ALL': ALL, 'cstar': cstar, 'value': value}
    G['sorted'] = VSeq('list', m, lambda j: sorted_key(I(j)))
    msg = E.new_cell({'__kind__': 'dict', 'val': MI.PdsMsg(G)})
    E.loop_specs[(Q + '_pds_to_de', 0)] = PdsPackLoop(G)
    E.native_input({'kind': 'pds', 'lens': [VInt(IVLEN(z3.IntVal(0))), VInt(IVLEN(z3.IntVal(1)))]})
    E.fact(item_hyp(m - 1, m))
    E.fact(item_hyp(z3.IntVal(0), m))
    out = E.list_val(E.call(Q + '_pds_to_de', msg))
    tag = '_pds_to_de[any number]'
    g = E.ghost.get('loop_ghosts', {}).get('iso8583._pds_to_de#loop0')
    if g is None:
        E.prove(tag + '/loop-exit-reached', False, 'I')
        return
    q, s, CUT = g['q'], g['s'], g['CUT']
    E.prove(tag + '/all-items-consumed', g['i'] == m, 'I')
    E.prove(tag + '/carrier-count', out.n == q + z3.If(s < m, 1, 0), 'P')
    c = cstar                                   # an arbitrary closed carrier
    E.assume(z3.And(c >= 0, c < q))
    E.assume(c < out.n)
    E.fact(item_hyp(CUT[c], m))
    E.fact(item_hyp(CUT[c + 1], m))
    car = out.at(c)
    lo, hi = IOFF(CUT[c]), IOFF(CUT[c + 1])
    E.prove_value_eq(tag + '/carrier-c-holds-whole-items-CUT[c]..CUT[c+1]-1-in-order', car, seq_slice(ALL, lo, hi, E.decide), 'P')
    E.prove(tag + '/carrier-c-at-most-999', car.n <= 999, 'P')
    E.prove(tag + '/carrier-c-not-empty', car.n > 0, 'P')
    E.prove(tag + '/carrier-c-closed-only-when-the-next-item-does-not-fit', car.n + (7 + IVLEN(CUT[c + 1])) > 999, 'P')
    E.prove(tag + '/carriers-are-consecutive-runs-of-items', z3.And(CUT[0] == 0, CUT[c] < CUT[c + 1], CUT[c + 1] <= s, CUT[q] == s), 'P')
    # the last (open) carrier
    if E.branch(s < m):
        last = out.at(q)
        E.prove_value_eq(tag + '/last-carrier-holds-items-s..m-1', last, seq_slice(ALL, IOFF(s), IOFF(m), E.decide), 'P')
        E.prove(tag + '/last-carrier-at-most-999', last.n <= 999, 'P')
        E.prove(tag + '/last-carrier-not-empty', last.n > 0, 'P')
    else:
        E.prove(tag + '/nothing-left-over', s == m, 'P')
