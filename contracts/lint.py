"""Frame lint: the per-call contracts of every property assume that a function's result depends on its arguments and on the
instance it is called on -- not on what earlier calls or other instances left behind.  This module checks the syntactic side
of that assumption on the real source, per repository module: no store to a class object or module global, no mutation of a
module-level or class-level container (also through `self`), no `global`/`nonlocal`, no stateful default argument.

The obligations are frame ASSUMPTIONS of the proofs, not the properties themselves (a correct cache also shares state), so
they are I-tier: when one fails the property is reported UNDECIDED and the bounded native stand-in (which replays call
histories: two readers, two messages, configuration changed between calls, repeated calls) decides."""
import ast
import z3
from pyvc.runner import unit

ISO = ['C01', 'C02', 'C06', 'C07', 'C08', 'C12', 'C16', 'C19', 'C20']
VBS = ['C03', 'C04', 'C05', 'C06', 'C07', 'C09', 'C10', 'C11', 'C17', 'C18', 'C19', 'C20']
MODULES = {
    'cardutil.iso8583': ISO,
    'cardutil.BitArray': ISO + ['C17'],
    'cardutil.mciipm': VBS,
    'cardutil': ISO + VBS,
    'cardutil.card': ['C15', 'C16'],
    'cardutil.pinblock': ['C13', 'C14'],
    'cardutil.key': ['C14'],
}
MUTATORS = ('append', 'extend', 'insert', 'update', 'setdefault', 'pop', 'popitem', 'clear', 'add', 'remove', 'discard', 'sort', 'reverse', 'write')
STATEFUL_CALLS = ('list', 'dict', 'set', 'bytearray', 'iter', 'cycle', 'count', 'zip', 'map', 'filter', 'enumerate', 'reversed', 'open',
                  'defaultdict', 'OrderedDict', 'deque', 'Counter', 'BytesIO', 'StringIO', 'chain', 'islice')


def is_mutable_literal(d):
    if isinstance(d, (ast.List, ast.Dict, ast.Set, ast.ListComp, ast.DictComp, ast.SetComp, ast.GeneratorExp)):
        return True
    if isinstance(d, ast.Call):
        f = d.func
        name = f.id if isinstance(f, ast.Name) else (f.attr if isinstance(f, ast.Attribute) else None)
        return name in STATEFUL_CALLS
    return False


def lint_function(fi, mod, program):
    class_names = set(mod.classes) | {'cls'}
    global_names = set(mod.assigns)
    params = {a.arg for a in fi.node.args.args + fi.node.args.kwonlyargs}
    locals_assigned = {t.id for s in ast.walk(fi.node) if isinstance(s, (ast.Assign, ast.AugAssign, ast.AnnAssign, ast.For, ast.With))
                       for t in ast.walk(s) if isinstance(t, ast.Name) and isinstance(t.ctx, ast.Store)}
    # class-level mutable containers of the enclosing class and its bases (shared by all instances unless rebound on self)
    shared_attrs = set()
    owner = getattr(fi, 'cls', None)
    seen = set()
    while owner is not None and id(owner) not in seen:
        seen.add(id(owner))
        rebound = set()
        for st in ast.walk(owner.node):
            if isinstance(st, ast.Attribute) and isinstance(st.ctx, ast.Store) and isinstance(st.value, ast.Name) and st.value.id == 'self':
                rebound.add(st.attr)
        for st in owner.node.body:
            if isinstance(st, (ast.Assign, ast.AnnAssign)) and st.value is not None and is_mutable_literal(st.value):
                for t in (st.targets if isinstance(st, ast.Assign) else [st.target]):
                    if isinstance(t, ast.Name) and t.id not in rebound:
                        shared_attrs.add(t.id)
        base = None
        for b in owner.node.bases:
            nm = b.id if isinstance(b, ast.Name) else None
            for ci in program.classes.values():
                if ci.node.name == nm:
                    base = ci
        owner = base
    # configuration dictionaries are read-only inputs: a function that writes into one leaves state behind for later calls
    config_params = {p for p in params if p in ('bit_config', 'iso_config', 'param_config', 'config', 'field_config')}
    bad = []
    for n in ast.walk(fi.node):
        if isinstance(n, (ast.Global, ast.Nonlocal)):
            bad.append('global/nonlocal at line %d' % n.lineno)
        if isinstance(n, ast.Attribute) and isinstance(n.ctx, (ast.Store, ast.Del)):
            root = n.value
            if isinstance(root, ast.Name) and root.id in class_names and root.id not in locals_assigned and root.id not in params - {'cls'}:
                bad.append('store to class attribute %s.%s at line %d' % (root.id, n.attr, n.lineno))
            if isinstance(root, ast.Attribute) and root.attr == '__class__':
                bad.append('store through __class__ at line %d' % n.lineno)
            if isinstance(root, ast.Call) and isinstance(root.func, ast.Name) and root.func.id == 'type':
                bad.append('store through type(self) at line %d' % n.lineno)
        target = None
        if isinstance(n, ast.Subscript) and isinstance(n.ctx, (ast.Store, ast.Del)):
            target = n.value
        if isinstance(n, ast.AugAssign) and isinstance(n.target, ast.Subscript):
            target = n.target.value
        if isinstance(n, ast.Call) and isinstance(n.func, ast.Attribute) and n.func.attr in MUTATORS:
            target = n.func.value
        if target is not None:
            # first attribute after the root, when the chain is self.<attr>...
            chain = target
            attr_after_root = None
            while isinstance(chain, (ast.Subscript, ast.Attribute)):
                if isinstance(chain, ast.Attribute) and isinstance(chain.value, ast.Name):
                    attr_after_root = chain.attr
                chain = chain.value
            rid = chain.id if isinstance(chain, ast.Name) else None
            if rid is not None:
                if rid in class_names and rid not in locals_assigned and rid not in params - {'cls'}:
                    bad.append('mutation of class-level container %s.%s at line %d' % (rid, attr_after_root, n.lineno))
                elif rid in global_names and rid not in locals_assigned and rid not in params:
                    bad.append('mutation of module-level container %s at line %d' % (rid, n.lineno))
                elif rid == 'self' and attr_after_root in shared_attrs:
                    bad.append('mutation through self of the class-level container %s at line %d' % (attr_after_root, n.lineno))
                elif rid in config_params and rid not in locals_assigned:
                    bad.append('store into the caller-owned configuration argument %s at line %d' % (rid, n.lineno))
    for d in fi.node.args.defaults + [d for d in fi.node.args.kw_defaults if d is not None]:
        if is_mutable_literal(d):
            bad.append('stateful default argument (evaluated once, shared by all calls) at line %d' % d.lineno)
    return bad


def mk(modname, props):
    @unit('lint/%s/no-state-shared-between-calls' % modname, props=props, functions=[])
    def u(E):
        mod = E.program.modules[modname]
        for fi in [f for f in E.program.functions.values() if f.module is mod]:
            bad = lint_function(fi, mod, E.program)
            E.prove('lint/%s/frame: result depends on arguments and instance only%s' % (fi.qualname, (' (' + '; '.join(bad) + ')') if bad else ''),
                    z3.BoolVal(not bad), 'I', 'lint')
    return u


for _m, _p in MODULES.items():
    mk(_m, sorted(set(_p)))
