"""C06: IPM file round trip as a ghost client over the REAL writer and reader classes (nothing replaced by contracts):
two messages of different shapes, symbolic values and encoding, VBS and 1014.  Any number of records follows from the
per-record contracts (IpmWriter.write / IpmReader.__next__ units) composed with C01 and C03."""
import z3
from pyvc.runner import unit
from pyvc.values import *
from pyvc.engine import PyRaise
from pyvc import models_iso as MI
from .bitarray import install_bitarray_contracts
from .iso_field import Q, codec, encodable_text, dict_entries
from .iso_msg import packaged_cfg, make_value, values_equal, mti_chars, FUNCS

M = 'cardutil.mciipm.'


def mk(blocked):
    @unit('IpmWriter->IpmReader[%s,two messages]' % ('1014' if blocked else 'vbs'), props=['C06'],
          functions=FUNCS + [M + 'IpmWriter.write', M + 'IpmWriter.__init__', M + 'VbsWriter.write', M + 'VbsWriter.close', M + 'VbsWriter.__exit__',
                             M + 'IpmReader.__init__', M + 'IpmReader.__next__', M + 'VbsReader.__next__', M + 'Block1014.write', M + 'Block1014.seek',
                             M + 'Block1014.finalise', M + 'Unblock1014.read'])
    def u(E):
        E.merge_ifs = True
        install_bitarray_contracts(E)
        enc, cd = codec(E)
        pc = packaged_cfg(E)
        shapes = [[2, 4], [3, 72]]
        msgs, vals = [], []
        for i, bits in enumerate(shapes):
            d = {'MTI': lift('1144' if i == 0 else '1240')}
            v = {}
            for b in bits:
                v[b] = make_value(E, cd, pc[b], 'm%d_de%d' % (i, b))
                if isinstance(v[b], VSeq):
                    E.assume(v[b].n <= 200)            # keeps both records inside the first 1014 block (loops need no unrolling)
                d['DE%d' % b] = v[b]
            msgs.append(E.new_dict(d))
            vals.append(v)
        f = E.new_file(seq_lit('bytes', b''), 0)
        tag = 'IpmWriter->IpmReader[%s]' % ('1014' if blocked else 'vbs')
        E.native_input({'kind': 'ipm-roundtrip', 'blocked': blocked})
        try:
            w = E.instantiate(E.program.classes[M + 'IpmWriter'], [f], {'encoding': enc, 'blocked': VBool(blocked)})
            E.method(w, '__enter__')
            for m in msgs:
                E.method(w, 'write', m)
            E.method(w, '__exit__', NONE, NONE, NONE)
            rd = E.instantiate(E.program.classes[M + 'IpmReader'], [f], {'encoding': enc, 'blocked': VBool(blocked)})
            got = []
            for _ in range(2):
                got.append(E.method(rd, '__next__'))
        except PyRaise as pr:
            E.prove(tag + '/no-exception(%s)' % E.exc_name(pr.exc), False, 'P')
            return
        for i, g in enumerate(got):
            ents = dict_entries(E, g)
            values_equal(E, tag + '/message-%d/MTI' % (i + 1), ents.get('MTI'), lift('1144' if i == 0 else '1240'), None)
            for b, v in vals[i].items():
                values_equal(E, tag + '/message-%d/DE%d' % (i + 1, b), ents.get('DE%d' % b), v, pc[b])
            keys = sorted(k for k in ents if k != '<derived>')
            E.prove(tag + '/message-%d/no-other-keys' % (i + 1), z3.BoolVal(keys == sorted(['MTI'] + ['DE%d' % b for b in vals[i]])), 'P')
        try:
            E.method(rd, '__next__')
            E.prove(tag + '/iteration-ends-after-the-records', False, 'P')
        except PyRaise as pr:
            E.prove(tag + '/iteration-ends-after-the-records', z3.BoolVal(E.exc_is(pr.exc, StopIteration)), 'P')
    return u


mk(False)
mk(True)
