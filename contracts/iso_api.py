"""Public entry points `dumps` / `loads`: they hand the caller's arguments to the converters unchanged.
Every message-level contract (C01, C02, C07, C08, C12, C16, ...) is proved on `_dict_to_iso8583` / `_iso8583_to_dict` for ANY
configuration; these units carry those contracts to the public functions: the configuration object the caller supplies is the
one the converter receives (not an overlay, copy or cached variant), likewise encoding and bitmap rendering; without a
configuration the packaged one is used; the converter's result / exception is returned unchanged."""
import z3
from pyvc.runner import unit
from pyvc.values import *
from pyvc.engine import PyRaise

Q = 'cardutil.iso8583.'
ISO = ['C01', 'C02', 'C06', 'C07', 'C08', 'C10', 'C12', 'C16', 'C19', 'C20']


def recorder(E, qual, ret, raises=None):
    fi = E.get_function(qual)
    E.ghost.setdefault('calls', [])

    def c(E2, args, kw):
        E.ghost['calls'].append(E.bind_args(fi, list(args), dict(kw)))
        if raises is not None and E.branch(E.fresh_bool('converter_raises')):
            raise PyRaise(raises())
        return ret
    E.contracts[qual] = c


def packaged_bit_config(E):
    pc = E.lookup_global('config', E.program.modules['cardutil.config'])
    return E.dict_get(pc, lift('bit_config'), strict=True)


def same_obj(a, b):
    return isinstance(a, VRef) and isinstance(b, VRef) and a.oid == b.oid


def plumbing(E, fn, inner, first_param, value):
    """fn in {dumps, loads}; inner its converter; value the message (dict ref or bytes)"""
    ret = E.fresh_seq('bytes', 'converted') if fn == 'dumps' else E.new_dict({'MTI': lift('0000')})
    err = lambda: E.instantiate(E.program.classes[Q + 'Iso8583DataError'], [lift('bad')], {})
    recorder(E, Q + inner, ret, raises=err)
    enc = E.fresh_seq('str', 'encoding')
    E.assume(enc.n >= 1)
    cfg = E.new_dict({'2': E.new_dict({'field_name': lift('x'), 'field_type': lift('LLVAR'), 'field_length': VInt(0)})})
    tag = fn + '/plumbing'
    for variant in ('custom', 'default', 'positional'):
        E.ghost['calls'] = []
        hexb = VBool(E.fresh_bool('hex_bitmap'))
        try:
            if variant == 'custom':
                out = E.call(Q + fn, value, encoding=enc, iso_config=cfg, hex_bitmap=hexb)
            elif variant == 'positional':
                out = E.call(Q + fn, value, enc, cfg, hexb)
            else:
                out = E.call(Q + fn, value)
        except PyRaise as pr:
            E.prove('%s[%s]/raises-only-what-the-converter-raises' % (tag, variant), z3.BoolVal(E.exc_is(pr.exc, Q + 'Iso8583DataError')), 'P', 'xpost')
            continue
        calls = E.ghost['calls']
        E.prove('%s[%s]/one-conversion' % (tag, variant), z3.BoolVal(len(calls) == 1), 'P')
        if len(calls) != 1:
            continue
        a = calls[0]
        got_msg = a.get(first_param)
        # identity is a proof device (an equal copy would serve the property as well): I-tier, the stand-in decides on failure
        E.prove('%s[%s]/converts-the-callers-message' % (tag, variant), z3.BoolVal(got_msg is value or same_obj(got_msg, value)), 'I')
        if variant == 'default':
            E.prove('%s[default]/packaged-configuration' % tag, z3.BoolVal(same_obj(a.get('bit_config'), packaged_bit_config(E))), 'I')
            e = a.get('encoding')
            E.prove('%s[default]/default-encoding' % tag, z3.BoolVal(e is NONE or (isinstance(e, VSeq) and conc_str(e) == 'latin_1')), 'P')
            h = a.get('hex_bitmap')
            E.prove('%s[default]/binary-bitmap' % tag, z3.BoolVal(isinstance(h, VBool) and bool_lit(h.t) is False), 'P')
        else:
            E.prove('%s[%s]/the-configuration-object-the-caller-supplied' % (tag, variant), z3.BoolVal(same_obj(a.get('bit_config'), cfg)), 'I')
            if isinstance(a.get('encoding'), VSeq):
                E.prove_value_eq('%s[%s]/the-encoding-the-caller-supplied' % (tag, variant), a.get('encoding'), enc, 'P')
            else:
                E.prove('%s[%s]/the-encoding-the-caller-supplied' % (tag, variant), False, 'P')
            h = a.get('hex_bitmap')
            E.prove('%s[%s]/the-bitmap-rendering-the-caller-supplied' % (tag, variant), z3.BoolVal(isinstance(h, VBool)) if not isinstance(h, VBool) else h.t == hexb.t, 'P')
        E.prove('%s[%s]/returns-the-conversion-unchanged' % (tag, variant), z3.BoolVal(out is ret or same_obj(out, ret)), 'I')
        # the caller's configuration is not modified by the entry point
    d = E.getf(cfg, 'val')
    E.prove(tag + '/callers-configuration-left-as-it-was', z3.BoolVal(isinstance(d, dict) and set(d) == {'2'}), 'P')


@unit('iso8583.dumps/plumbing', props=ISO, functions=[Q + 'dumps'])
def u_dumps_plumbing(E):
    plumbing(E, 'dumps', '_dict_to_iso8583', 'message', E.new_dict({'MTI': lift('1144')}))


@unit('iso8583.loads/plumbing', props=ISO, functions=[Q + 'loads'])
def u_loads_plumbing(E):
    b = E.fresh_seq('bytes', 'message_bytes')
    plumbing(E, 'loads', '_iso8583_to_dict', 'message', b)
