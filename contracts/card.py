"""Contracts for cardutil/card.py  (C15 Luhn, C16 masking)."""
import z3
from pyvc.runner import unit
from pyvc.values import *
from pyvc.engine import PyRaise
from pyvc.models import SIGMA, sigma_of, use_sigma_congruence
from . import specs as S

Q = 'cardutil.card.'


# ---------------------------------------------------------------- C16: mask
@unit('card.mask/post', props=['C16'], functions=[Q + 'mask'])
def u_mask(E):
    """for all card numbers of >= 10 arbitrary characters and any one-character mask:
    same length; first six and last four characters kept; every position in between is the mask char"""
    s = E.fresh_seq('str', 's')
    c = E.fresh_seq('str', 'c')
    E.assume(s.n >= 10)
    E.assume(c.n == 1)
    E.cover('mask/pre')
    E.native_input({'kind': 'mask', 's': s, 'c': c})
    r = E.call(Q + 'mask', s, c)
    if not (isinstance(r, VSeq) and r.kind == 'str'):
        E.prove('mask/returns-str', False, 'P')
        return
    E.prove('mask/len', r.n == s.n, 'P')
    k = E.fresh_int('k')
    E.assume(k >= 0)
    E.assume(k < s.n)
    E.prove('mask/first6-last4-kept', z3.Implies(z3.Or(k < 6, k >= s.n - 4), r.at(k) == s.at(k)), 'P')
    E.prove('mask/middle-is-mask-char', z3.Implies(z3.And(k >= 6, k < s.n - 4), r.at(k) == c.at(z3.IntVal(0))), 'P')


@unit('card.mask/default-char', props=['C16'], functions=[Q + 'mask'])
def u_mask_default(E):
    s = E.fresh_seq('str', 's')
    E.assume(s.n >= 10)
    E.native_input({'kind': 'mask', 's': s, 'c': None})
    r = E.call(Q + 'mask', s)
    E.prove('mask/default/len', r.n == s.n, 'P')
    k = E.fresh_int('k')
    E.assume(k >= 0)
    E.assume(k < s.n)
    E.prove('mask/default/elem', r.at(k) == z3.If(z3.Or(k < 6, k >= s.n - 4), s.at(k), 42), 'P')


# ---------------------------------------------------------------- C15: Luhn

def digit_string(E, name):
    """an arbitrary string of ASCII digits (every element 48..57), any length"""
    return E.fresh_seq('str', name, lo=48, hi=57)


def expect_char(E, name, r, term, tier='P'):
    if not (isinstance(r, VSeq) and r.kind == 'str'):
        E.prove(name + '/returns-str', False, tier)
        return
    E.prove(name + '/len1', r.n == 1, tier)
    E.prove(name + '/value', I(r.at(z3.IntVal(0))) == term, tier)


@unit('card.calculate_check_digit/post', props=['C15'], functions=[Q + 'calculate_check_digit'])
def u_ccd(E):
    """result == str((9 * LS(digits)) mod 10) with LS the Luhn sum written from the definition"""
    s = digit_string(E, 's')
    E.cover('ccd/pre')
    E.native_input({'s': s, 'opt': False})
    r = E.call(Q + 'calculate_check_digit', s)
    expect_char(E, 'ccd', r, 48 + S.luhn_cd(E, lambda i: s.at(i) - 48, s.n))


@unit('card.add_check_digit/post', props=['C15'], functions=[Q + 'add_check_digit'])
def u_add(E):
    s = digit_string(E, 's')
    E.native_input({'s': s, 'opt': False})
    r = E.call(Q + 'add_check_digit', s)
    if not (isinstance(r, VSeq) and r.kind == 'str'):
        E.prove('add/returns-str', False, 'P')
        return
    E.prove('add/len', r.n == s.n + 1, 'P')
    k = E.fresh_int('k')
    E.assume(k >= 0)
    E.assume(k < s.n)
    E.prove('add/prefix-unchanged', r.at(k) == s.at(k), 'P')
    E.prove('add/last-is-luhn-digit', I(r.at(s.n)) == 48 + S.luhn_cd(E, lambda i: s.at(i) - 48, s.n), 'P')


def validate_outcome(E, s):
    """run the real validate_check_digit; returns 'ok' | 'assertion' | other exception name"""
    try:
        r = E.call(Q + 'validate_check_digit', s)
    except PyRaise as pr:
        if E.exc_is(pr.exc, AssertionError):
            return 'assertion', None
        return E.exc_name(pr.exc), None
    return 'ok', r


@unit('card.validate_check_digit/post', props=['C15'], functions=[Q + 'validate_check_digit'], debug_modes=(True, False))
def u_validate(E):
    """in BOTH interpreter modes: raises AssertionError iff last digit != Luhn digit of the rest"""
    s = digit_string(E, 's')
    E.assume(s.n >= 1)
    n1 = s.n - 1
    good = I(s.at(n1)) == 48 + S.luhn_cd(E, lambda i: s.at(i) - 48, n1)
    E.cover('validate/pre')
    E.native_input({'s': seq_slice(s, None, n1), 'opt': not E.debug_flag})
    out, r = validate_outcome(E, s)
    if out == 'ok':
        E.cover('validate/accepts')
        E.prove('validate/accepts-only-valid', good, 'P')
        E.prove('validate/returns-None', z3.BoolVal(r is NONE), 'P')
    elif out == 'assertion':
        E.cover('validate/rejects')
        E.prove('validate/rejects-only-invalid', z3.Not(good), 'P')
    else:
        E.prove('validate/no-other-exception(%s)' % out, False, 'P')


@unit('card.validate(add(s))/lemma', props=['C15'], functions=[Q + 'validate_check_digit', Q + 'add_check_digit'],
      debug_modes=(True, False))
def u_validate_add(E):
    """appending the check digit always gives a number that validates"""
    s = digit_string(E, 's')
    E.native_input({'s': s, 'opt': not E.debug_flag})
    t = E.call(Q + 'add_check_digit', s)
    out, r = validate_outcome(E, t)
    if out != 'ok':
        from pyvc.models import use_sigma_congruence
        use_sigma_congruence(E)
    E.prove('validate(add(s))/accepted', z3.BoolVal(out == 'ok'), 'P')


@unit('card.calculate_check_digit/no-state-between-calls', props=['C15'], functions=[Q + 'calculate_check_digit', Q + 'validate_check_digit'])
def u_ccd_twice(E):
    """the result depends on the argument only: a second call (after a call on any other number) still returns the Luhn digit"""
    s1 = digit_string(E, 's1')
    s2 = digit_string(E, 's2')
    E.native_input({'s': s2, 'opt': False})
    E.call(Q + 'calculate_check_digit', s1)
    r = E.call(Q + 'calculate_check_digit', s2)
    expect_char(E, 'ccd/second-call', r, 48 + S.luhn_cd(E, lambda i: s2.at(i) - 48, s2.n))


@unit('card.calculate_check_digit/any-text-with-separators', props=['C15'], functions=[Q + 'calculate_check_digit'])
def u_ccd_separators(E):
    """card numbers as printed or typed (blanks, dashes, any other ASCII characters between the digits): the result is the
    Luhn digit of the digits of the text, in order -- the weighting counts digits from the right, not characters"""
    s = E.fresh_seq('str', 's', lo=32, hi=126)
    E.native_input({'s': s, 'opt': False, 'deep': False})
    r = E.call(Q + 'calculate_check_digit', s)
    flt = E.ghost.get('filtered')
    E.prove('ccd[any text]/digits-are-selected-from-the-text', z3.BoolVal(flt is not None and flt['source'] is not None), 'I')
    if flt is None:
        return
    m, SEL = flt['m'], flt['SEL']
    # the selected positions are EXACTLY the digit positions of the text (strictly increasing SEL + this = the digits in order):
    # generic selected index j, generic text position i
    j = E.fresh_int('jsel')
    for f in flt['sel_facts'](j):
        E.fact(f)
    cj = s.at(SEL(j))
    E.prove('ccd[any text]/only-digits-are-selected', z3.Implies(z3.And(j >= 0, j < m), z3.And(cj >= 48, cj <= 57)), 'P')
    i = E.fresh_int('ipos')
    for f in flt['rank_facts'](i):
        E.fact(f)
    ri = flt['RANK'](i)
    E.prove('ccd[any text]/every-digit-is-selected',
            z3.Implies(z3.And(i >= 0, i < s.n, s.at(i) >= 48, s.at(i) <= 57), z3.And(ri >= 0, ri < m, SEL(ri) == i)), 'P')
    expect_char(E, 'ccd[any text]', r, 48 + S.luhn_cd(E, lambda i: s.at(SEL(I(i))) - 48, m))
