"""List-level induction for VBS framing (C03): ANY number of records.
 - VbsWriter.write_many over a symbolic-length record list: the stream written is VBS(records), by loop invariant;
 - a ghost client reads VBS(records) ++ terminator back record by record: reader offset = OFF(j), counter = j+1, and the
   j-th record delivered is record j; then iteration ends."""
import z3
from pyvc.runner import unit
from pyvc.values import *
from pyvc.engine import PyRaise
from . import specs as S
from .mciipm_vbs import max_len, M

OFF = z3.Function('VBS_OFF', z3.IntSort(), z3.IntSort())
RLEN = z3.Function('VBS_RLEN', z3.IntSort(), z3.IntSort())
RBYTE = z3.Function('VBS_RBYTE', z3.IntSort(), z3.IntSort(), z3.IntSort())


def record(E, j, MAX):
    E.fact(z3.And(RLEN(j) >= 1, RLEN(j) <= MAX))

    def at(k, j=j):
        e = RBYTE(j, I(k))
        E.fact(z3.And(e >= 0, e <= 255))
        return e
    return VSeq('bytes', RLEN(j), at)


def records_list(E, m, MAX):
    return VSeq('list', m, lambda j: record(E, I(j), MAX))


def off_facts(j, m, MAX=6000):
    return [z3.Implies(z3.And(j >= 0, j < m), z3.And(OFF(j + 1) == OFF(j) + 4 + RLEN(j), OFF(j + 1) <= OFF(m), OFF(j) >= 0,
                                                   RLEN(j) >= 1, RLEN(j) <= MAX))]


def vbs_stream(E, m):
    """the byte stream  len4(rec 0) rec 0 len4(rec 1) rec 1 ...  as an array with the per-record layout facts instantiated at
    the records listed in E.ghost['vbs_inst'] for every accessed position"""
    E.ghost.setdefault('vbs_inst', [])

    def elem_fact(e, p):
        fs = []
        for j in E.ghost['vbs_inst']:
            o = OFF(j)
            k = p - o
            L = RLEN(j)
            hdr = z3.If(k == 0, (L / 16777216) % 256, z3.If(k == 1, (L / 65536) % 256, z3.If(k == 2, (L / 256) % 256, L % 256)))
            fs.append(z3.Implies(z3.And(j >= 0, j < m, p >= o, p < OFF(j + 1)), e == z3.If(k < 4, hdr, RBYTE(j, k - 4))))
        return z3.And(*fs) if fs else z3.BoolVal(True)
    st = E.fresh_seq('bytes', 'VBS', elem_fact=elem_fact)
    return st


class WriteManyLoop:
    """`for record in iterable: self.write(record)`: after i records the sink holds prefix ++ VBS[:OFF(i)]"""
    ghosts = []

    def __init__(self, G):
        self.G = G

    def entry(self, ctx):
        return {}

    def step(self, ctx, g):
        return {}

    def side(self, ctx, g):
        i, m = g['i'], self.G['m']
        return [OFF(i) >= 0, OFF(i) <= OFF(m)]

    def facts(self, ctx, g):
        i, m = g['i'], self.G['m']
        ctx.E.ghost['vbs_inst'] = [i]
        return off_facts(i, m, self.G.get('MAX', 6000))

    def state(self, ctx, g):
        i = g['i']
        content = seq_concat(self.G['prefix'], seq_slice(self.G['VBS'], 0, OFF(i), ctx.E.decide))
        w = self.G.get('writer_var', 'self')
        return {w + '.out_file.content': content, w + '.out_file.pos': VInt(content.n)}


@unit('VbsWriter.write_many/any-number-of-records', props=['C03', 'C06'], functions=[M + 'VbsWriter.write_many', M + 'VbsWriter.write'])
def u_write_many(E):
    MAX = max_len(E)
    m = E.fresh_int('m')
    E.assume(m >= 0)
    prefix = E.fresh_seq('bytes', 'already_written')
    st = vbs_stream(E, m)
    E.assume(OFF(0) == 0)
    E.assume(st.n == OFF(m))
    f = E.new_file(prefix, prefix.n)
    w = E.new_obj(M + 'VbsWriter', {'out_file': f, '_finalised': FALSE})
    E.loop_specs[(M + 'VbsWriter.write_many', 0)] = WriteManyLoop({'m': m, 'prefix': prefix, 'VBS': st, 'MAX': MAX})
    E.native_input({'kind': 'roundtrip1', 'prefix': VInt(prefix.n), 'reclen': VInt(5), 'blocked': False})
    E.method(w, 'write_many', E.new_list(records_list(E, m, MAX)))
    E.prove_value_eq('VbsWriter.write_many/stream=old++len4+record-for-every-record-in-order', E.getf(f, 'content'), seq_concat(prefix, st), 'P')


READ_ALL = '''
def read_all(reader, m):
    out = []
    for j in range(m):
        out.append(reader.__next__())
    return out
'''


class ReadAllLoop:
    ghosts = []

    def __init__(self, G):
        self.G = G

    def entry(self, ctx):
        return {}

    def step(self, ctx, g):
        return {}

    def side(self, ctx, g):
        i, m = g['i'], self.G['m']
        return [OFF(i) >= 0, OFF(i) <= OFF(m)]

    def facts(self, ctx, g):
        i, m = g['i'], self.G['m']
        ctx.E.ghost['vbs_inst'] = [i]
        return off_facts(i, m, self.G.get('MAX', 6000))

    def state(self, ctx, g):
        i = g['i']
        E = ctx.E
        return {'reader.vbs_data.pos': VInt(OFF(i)), 'reader.record_number': VInt(i + 1),
                'out': VSeq('list', i, lambda j: record(E, I(j), self.G['MAX']))}

    def havoc(self, ctx, g):
        lr = ctx.E.fresh_seq('bytes', 'last_record')
        return {'reader.last_record': lr}

    havoc_keys = ['reader.last_record']


@unit('VbsReader/reads-back-any-number-of-records', props=['C03', 'C06'], functions=[M + 'VbsReader.__next__'])
def u_read_all(E):
    MAX = max_len(E)
    m = E.fresh_int('m')
    E.assume(m >= 0)
    st = vbs_stream(E, m)
    E.assume(OFF(0) == 0)
    E.assume(st.n == OFF(m))
    closed = seq_concat(st, S.be32(z3.IntVal(0)))
    f = E.new_file(closed, 0)
    rd = E.new_obj(M + 'VbsReader', {'vbs_data': f, 'record_number': VInt(1), 'last_record': NONE})
    fi = E.ghost_function(READ_ALL)
    E.loop_specs[('ghost.read_all', 0)] = ReadAllLoop({'m': m, 'MAX': MAX})
    try:
        out = E.call_ast(fi, [rd, VInt(m)], {})
    except PyRaise as pr:
        E.prove('VbsReader[any number]/no-exception(%s)' % E.exc_name(pr.exc), False, 'P')
        return
    got = E.list_val(out)
    E.prove('VbsReader[any number]/count', got.n == m, 'P')
    j = E.fresh_int('j')
    E.assume(j >= 0)
    E.assume(j < m)
    E.assume(j < got.n)
    E.prove_value_eq('VbsReader[any number]/record-j-is-the-j-th-written', got.at(j), record(E, j, MAX), 'P')
    try:
        E.method(rd, '__next__')
        E.prove('VbsReader[any number]/ends-at-the-terminator', False, 'P')
    except PyRaise as pr:
        E.prove('VbsReader[any number]/ends-at-the-terminator', z3.BoolVal(E.exc_is(pr.exc, StopIteration)), 'P')


@unit('vbs_list_to_bytes/any-number-of-records', props=['C03'], functions=[M + 'vbs_list_to_bytes', M + 'VbsWriter.write', M + 'VbsWriter.close', M + 'VbsWriter.__init__'])
def u_list_to_bytes(E):
    MAX = max_len(E)
    m = E.fresh_int('m')
    E.assume(m >= 0)
    st = vbs_stream(E, m)
    E.assume(OFF(0) == 0)
    E.assume(st.n == OFF(m))
    E.loop_specs[(M + 'vbs_list_to_bytes', 0)] = WriteManyLoop({'m': m, 'prefix': seq_lit('bytes', b''), 'VBS': st, 'MAX': MAX, 'writer_var': 'vbs_out'})
    out = E.call(M + 'vbs_list_to_bytes', E.new_list(records_list(E, m, MAX)))
    E.prove_value_eq('vbs_list_to_bytes/bytes=len4+record-for-every-record++zero-length', out, seq_concat(st, S.be32(z3.IntVal(0))), 'P')


# ---------------------------------------------------------------- the list/bytes helpers as clients of the classes (plumbing)
def helper_recorders(E):
    log = []
    FINAL = E.fresh_seq('bytes', 'finalised_file')

    def w_init(E2, args, kw):
        log.append(('init', list(args), dict(kw)))
        E.setf(args[0], 'out_file', args[1])
        return NONE

    def w_write(E2, args, kw):
        log.append(('write', list(args), dict(kw)))
        return NONE

    def w_close(E2, args, kw):
        log.append(('close', list(args), dict(kw)))
        f = E.getf(args[0], 'out_file')
        E.setf(f, 'content', FINAL)         # VbsWriter.close contract (C11): the file is finalised and rewound
        E.setf(f, 'pos', VInt(0))
        return NONE
    E.contracts[M + 'VbsWriter.__init__'] = w_init
    E.contracts[M + 'VbsWriter.write'] = w_write
    E.contracts[M + 'VbsWriter.close'] = w_close
    E.contracts[M + 'VbsWriter.__exit__'] = w_close
    return log, FINAL


@unit('vbs_list_to_bytes/plumbing', props=['C03', 'C04', 'C17'], functions=[M + 'vbs_list_to_bytes'])
def u_list_to_bytes_plumbing(E):
    """the helper builds one writer with exactly the caller's options, writes every record in order, FINALISES the writer once
    (so a blocked result is whole blocks) and returns the finalised file"""
    r1, r2 = E.fresh_seq('bytes', 'r1'), E.fresh_seq('bytes', 'r2')
    for opts in ({}, {'blocked': TRUE}, {'blocked': FALSE}):
        log, FINAL = helper_recorders(E)
        out = E.call(M + 'vbs_list_to_bytes', E.new_list(seq_items('list', [r1, r2])), **opts)
        tag = 'vbs_list_to_bytes[%s]' % (','.join('%s=%s' % (k, 'True' if v is TRUE else 'False') for k, v in opts.items()) or 'no options')
        kinds = [x[0] for x in log]
        E.prove(tag + '/one-writer-both-records-then-finalised-once', z3.BoolVal(kinds == ['init', 'write', 'write', 'close']), 'P')
        if kinds != ['init', 'write', 'write', 'close']:
            continue
        ikw = log[0][2]
        E.prove(tag + '/writer-gets-exactly-the-callers-options', z3.BoolVal(set(ikw) == set(opts) and all(ikw[k] is opts[k] for k in opts)), 'P')
        for k, (got, want) in enumerate(((log[1][1][1], r1), (log[2][1][1], r2))):
            if isinstance(got, VSeq) and got.kind == 'bytes':
                E.prove_value_eq('%s/record-%d-written-as-given' % (tag, k), got, want, 'P')
            else:
                E.prove('%s/record-%d-written-as-given' % (tag, k), False, 'P')
        E.prove_value_eq(tag + '/returns-the-finalised-file', out, FINAL, 'P')


@unit('vbs_bytes_to_list/plumbing', props=['C03', 'C05', 'C09'], functions=[M + 'vbs_bytes_to_list'])
def u_bytes_to_list_plumbing(E):
    """the helper reads exactly the bytes it was given (nothing stripped or guessed), through one reader built with exactly
    the caller's options, and returns the records the reader yields, in order; the reader's data error passes through"""
    data = E.fresh_seq('bytes', 'data')
    r1, r2 = E.fresh_seq('bytes', 'r1'), E.fresh_seq('bytes', 'r2')
    for opts in ({}, {'blocked': TRUE}):
        log = []
        state = {'n': 0}

        def r_init(E2, args, kw, log=log):
            log.append(('init', list(args), dict(kw)))
            return NONE

        def r_next(E2, args, kw, state=state):
            state['n'] += 1
            if state['n'] == 1:
                return r1
            if state['n'] == 2:
                return r2
            raise PyRaise(E.make_exc(StopIteration, []))

        def r_iter(E2, args, kw):
            return args[0]
        E.contracts[M + 'VbsReader.__init__'] = r_init
        E.contracts[M + 'VbsReader.__next__'] = r_next
        E.contracts[M + 'VbsReader.__iter__'] = r_iter
        out = E.call(M + 'vbs_bytes_to_list', data, **opts)
        tag = 'vbs_bytes_to_list[%s]' % ('blocked=True' if opts else 'no options')
        E.prove(tag + '/one-reader', z3.BoolVal(len(log) == 1), 'P')
        if len(log) != 1:
            continue
        f = log[0][1][1] if len(log[0][1]) > 1 else log[0][2].get('vbs_file')
        ok = isinstance(f, VRef) and E.kind_of(f) == 'file'
        E.prove(tag + '/reader-is-given-a-file-object', z3.BoolVal(ok), 'P')
        if ok:
            E.prove_value_eq(tag + '/file-holds-exactly-the-callers-bytes', E.getf(f, 'content'), data, 'P')
            E.prove(tag + '/file-at-its-start', E.as_int(E.getf(f, 'pos')) == 0, 'P')
        ikw = log[0][2]
        E.prove(tag + '/reader-gets-exactly-the-callers-options', z3.BoolVal(set(ikw) == set(opts) and all(ikw[k] is opts[k] for k in opts)), 'P')
        got = E.list_val(out) if isinstance(out, VRef) else out
        ok2 = isinstance(got, VSeq) and got.clen() == 2
        E.prove(tag + '/returns-as-many-records-as-the-reader-yields', z3.BoolVal(ok2), 'P')
        if ok2:
            for k, want in enumerate((r1, r2)):
                g = got.at(z3.IntVal(k))
                if isinstance(g, VSeq) and g.kind == 'bytes':
                    E.prove_value_eq('%s/record-%d-returned-as-yielded' % (tag, k), g, want, 'P')
                else:
                    E.prove('%s/record-%d-returned-as-yielded' % (tag, k), False, 'P')
