"""List-level induction for VBS framing (C03): ANY number of records.
 - VbsWriter.write_many over a symbolic-length record list: the stream written is VBS(records), by loop invariant;
 - a ghost client reads VBS(records) ++ terminator back record by record: reader offset = OFF(j), counter = j+1, and the
   j-th record delivered is record j; then iteration ends."""
import z3
from pyvc.runner import unit
from pyvc.values import *
from pyvc.engine import PyRaise
from . import specs as S
from .mciipm_vbs import max_len, M

OFF = z3.Function('VBS_OFF', z3.IntSort(), z3.IntSort())
RLEN = z3.Function('VBS_RLEN', z3.IntSort(), z3.IntSort())
RBYTE = z3.Function('VBS_RBYTE', z3.IntSort(), z3.IntSort(), z3.IntSort())


def record(E, j, MAX):
    E.fact(z3.And(RLEN(j) >= 1, RLEN(j) <= MAX))

    def at(k, j=j):
        e = RBYTE(j, I(k))
        E.fact(z3.And(e >= 0, e <= 255))
        return e
    return VSeq('bytes', RLEN(j), at)


def records_list(E, m, MAX):
    return VSeq('list', m, lambda j: record(E, I(j), MAX))


def off_facts(j, m, MAX=6000):
    return [z3.Implies(z3.And(j >= 0, j < m), z3.And(OFF(j + 1) == OFF(j) + 4 + RLEN(j), OFF(j + 1) <= OFF(m), OFF(j) >= 0,
                                                   RLEN(j) >= 1, RLEN(j) <= MAX))]


def vbs_stream(E, m):
    """the byte stream  len4(rec 0) rec 0 len4(rec 1) rec 1 ...  as an array with the per-record layout facts instantiated at
    the records listed in E.ghost['vbs_inst'] for every accessed position"""
    E.ghost.setdefault('vbs_inst', [])

    def elem_fact(e, p):
        fs = []
        for j in E.ghost['vbs_inst']:
            o = OFF(j)
            k = p - o
            L = RLEN(j)
            hdr = z3.If(k == 0, (L / 16777216) % 256, z3.If(k == 1, (L / 65536) % 256, z3.If(k == 2, (L / 256) % 256, L % 256)))
            fs.append(z3.Implies(z3.And(j >= 0, j < m, p >= o, p < OFF(j + 1)), e == z3.If(k < 4, hdr, RBYTE(j, k - 4))))
        return z3.And(*fs) if fs else z3.BoolVal(True)
    st = E.fresh_seq('bytes', 'VBS', elem_fact=elem_fact)
    return st


class WriteManyLoop:
    """`for record in iterable: self.write(record)`: after i records the sink holds prefix ++ VBS[:OFF(i)]"""
    ghosts = []

    def __init__(self, G):
        self.G = G

    def entry(self, ctx):
        return {}

    def step(self, ctx, g):
        return {}

    def side(self, ctx, g):
        i, m = g['i'], self.G['m']
        return [OFF(i) >= 0, OFF(i) <= OFF(m)]

    def facts(self, ctx, g):
        i, m = g['i'], self.G['m']
        ctx.E.ghost['vbs_inst'] = [i]
        return off_facts(i, m, self.G.get('MAX', 6000))

    def state(self, ctx, g):
        i = g['i']
        content = seq_concat(self.G['prefix'], seq_slice(self.G['VBS'], 0, OFF(i), ctx.E.decide))
        w = self.G.get('writer_var', 'self')
        return {w + '.out_file.content': content, w + '.out_file.pos': VInt(content.n)}


@unit('VbsWriter.write_many/any-number-of-records', props=['C03', 'C06'], functions=[M + 'VbsWriter.write_many', M + 'VbsWriter.write'])
def u_write_many(E):
    MAX = max_len(E)
    m = E.fresh_int('m')
    E.assume(m >= 0)
    prefix = E.fresh_seq('bytes', 'already_written')
    st = vbs_stream(E, m)
    E.assume(OFF(0) == 0)
    E.assume(st.n == OFF(m))
    f = E.new_file(prefix, prefix.n)
    w = E.new_obj(M + 'VbsWriter', {'out_file': f, '_finalised': FALSE})
    E.loop_specs[(M + 'VbsWriter.write_many', 0)] = WriteManyLoop({'m': m, 'prefix': prefix, 'VBS': st, 'MAX': MAX})
    E.native_input({'kind': 'roundtrip1', 'prefix': VInt(prefix.n), 'reclen': VInt(5), 'blocked': False})
    E.method(w, 'write_many', E.new_list(records_list(E, m, MAX)))
    E.prove_value_eq('VbsWriter.write_many/stream=old++len4+record-for-every-record-in-order', E.getf(f, 'content'), seq_concat(prefix, st), 'P')


READ_ALL = '''
def read_all(reader, m):
    out = []
    for j in range(m):
        out.append(reader.__next__())
    return out
'''


class ReadAllLoop:
    ghosts = []

    def __init__(self, G):
        self.G = G

    def entry(self, ctx):
        return {}

    def step(self, ctx, g):
        return {}

    def side(self, ctx, g):
        i, m = g['i'], self.G['m']
        return [OFF(i) >= 0, OFF(i) <= OFF(m)]

    def facts(self, ctx, g):
        i, m = g['i'], self.G['m']
        ctx.E.ghost['vbs_inst'] = [i]
        return off_facts(i, m, self.G.get('MAX', 6000))

    def state(self, ctx, g):
        i = g['i']
        E = ctx.E
        return {'reader.vbs_data.pos': VInt(OFF(i)), 'reader.record_number': VInt(i + 1),
                'out': VSeq('list', i, lambda j: record(E, I(j), self.G['MAX']))}

    def havoc(self, ctx, g):
        lr = ctx.E.fresh_seq('bytes', 'last_record')
        return {'reader.last_record': lr}

    havoc_keys = ['reader.last_record']


@unit('VbsReader/reads-back-any-number-of-records', props=['C03', 'C06'], functions=[M + 'VbsReader.__next__'])
def u_read_all(E):
    MAX = max_len(E)
    m = E.fresh_int('m')
    E.assume(m >= 0)
    st = vbs_stream(E, m)
    E.assume(OFF(0) == 0)
    E.assume(st.n == OFF(m))
    closed = seq_concat(st, S.be32(z3.IntVal(0)))
    f = E.new_file(closed, 0)
    rd = E.new_obj(M + 'VbsReader', {'vbs_data': f, 'record_number': VInt(1), 'last_record': NONE})
    fi = E.ghost_function(READ_ALL)
    E.loop_specs[('ghost.read_all', 0)] = ReadAllLoop({'m': m, 'MAX': MAX})
    try:
        out = E.call_ast(fi, [rd, VInt(m)], {})
    except PyRaise as pr:
        E.prove('VbsReader[any number]/no-exception(%s)' % E.exc_name(pr.exc), False, 'P')
        return
    got = E.list_val(out)
    E.prove('VbsReader[any number]/count', got.n == m, 'P')
    j = E.fresh_int('j')
    E.assume(j >= 0)
    E.assume(j < m)
    E.assume(j < got.n)
    E.prove_value_eq('VbsReader[any number]/record-j-is-the-j-th-written', got.at(j), record(E, j, MAX), 'P')
    try:
        E.method(rd, '__next__')
        E.prove('VbsReader[any number]/ends-at-the-terminator', False, 'P')
    except PyRaise as pr:
        E.prove('VbsReader[any number]/ends-at-the-terminator', z3.BoolVal(E.exc_is(pr.exc, StopIteration)), 'P')


@unit('vbs_list_to_bytes/any-number-of-records', props=['C03'], functions=[M + 'vbs_list_to_bytes', M + 'VbsWriter.write', M + 'VbsWriter.close', M + 'VbsWriter.__init__'])
def u_list_to_bytes(E):
    MAX = max_len(E)
    m = E.fresh_int('m')
    E.assume(m >= 0)
    st = vbs_stream(E, m)
    E.assume(OFF(0) == 0)
    E.assume(st.n == OFF(m))
    E.loop_specs[(M + 'vbs_list_to_bytes', 0)] = WriteManyLoop({'m': m, 'prefix': seq_lit('bytes', b''), 'VBS': st, 'MAX': MAX, 'writer_var': 'vbs_out'})
    out = E.call(M + 'vbs_list_to_bytes', E.new_list(records_list(E, m, MAX)))
    E.prove_value_eq('vbs_list_to_bytes/bytes=len4+record-for-every-record++zero-length', out, seq_concat(st, S.be32(z3.IntVal(0))), 'P')
