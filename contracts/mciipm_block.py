"""Contracts for the 1014 blocker / unblocker of cardutil/mciipm.py  (C04, C05; used by C03, C09, C11)."""
import z3
from pyvc.runner import unit
from pyvc.values import *
from pyvc.engine import PyRaise
from . import specs as S

M = 'cardutil.mciipm.'


# ================================================================================================
# Block1014: object invariant with ghost `data` (everything written so far)
#   0 <= r <= 1012, (n + r) mod 1012 = 0, t = (n+r)/1012 - 1 >= 0 trailers written,
#   file.content = BLK(data) cut at n + 2t, file.pos = end of file
# ================================================================================================

def blk_side(n, r):
    return [r >= 0, r <= 1012, (n + r) % 1012 == 0, n + r >= 1012, n >= 0]


def blk_len(n, r):
    return n + 2 * ((n + r) / 1012 - 1)


def blocker_state(E, data, r):
    """(blocker, file) objects satisfying the invariant for ghost data / remaining_chars r"""
    total = blk_len(data.n, r)
    f = E.new_file(S.BLK(data, total), total)
    b = E.new_obj(M + 'Block1014', {'file_obj': f, 'remaining_chars': VInt(r)})
    return b, f


def check_blocker_inv(E, tag, b, f, data, tier='I'):
    """obligations: blocker b / file f satisfy the invariant w.r.t. ghost data"""
    rv = E.getf(b, 'remaining_chars')
    if not isinstance(rv, VInt):
        E.prove(tag + '/remaining_chars-is-int', False, tier, 'inv')
        return None
    r = rv.t
    n = data.n
    for k, c in enumerate(blk_side(n, r)):
        E.prove('%s/inv/side%d' % (tag, k), c, tier, 'inv')
    content = E.getf(f, 'content')
    total = blk_len(n, r)
    E.prove(tag + '/inv/file-pos-at-end', E.as_int(E.getf(f, 'pos')) == content.n, tier, 'inv')
    E.prove_value_eq(tag + '/inv/file=BLK(data)', content, S.BLK(data, total), tier, 'inv')
    return r


class Block1014WriteLoop:
    """`while len(bytes_to_write) > 1012` in Block1014.write.  ghost c = bytes of this call already blocked"""
    ghosts = ['c']

    def __init__(self, ghost):
        self.G = ghost     # dict with data (VSeq), b (VSeq) of the enclosing proof unit

    def entry(self, ctx):
        return {'c': ctx.E.as_int(ctx.entry('self.remaining_chars'))}

    def step(self, ctx, g):
        return {'c': g['c'] + 1012}

    def side(self, ctx, g):
        c = g['c']
        n = self.G['data'].n
        return [c >= 0, c <= self.G['b'].n, (n + c) % 1012 == 0, n + c >= 1012]

    def state(self, ctx, g):
        c = g['c']
        data, b = self.G['data'], self.G['b']
        n = data.n
        written = seq_concat(data, seq_slice(b, None, c))
        total = n + c + 2 * ((n + c) / 1012)
        return {'self.file_obj.content': S.BLK(written, total),
                'self.file_obj.pos': VInt(total),
                'bytes_to_write': seq_slice(b, c, None)}

    def variant(self, ctx, g):
        return self.G['b'].n - g['c']


@unit('Block1014.__init__/establishes-inv', props=['C04', 'C03', 'C06'], functions=[M + 'Block1014.__init__'])
def u_blk_init(E):
    f = E.new_file(seq_lit('bytes', b''), 0)
    b = E.instantiate(E.program.classes[M + 'Block1014'], [f], {})
    check_blocker_inv(E, 'Block1014.__init__', b, f, seq_lit('bytes', b''))


@unit('Block1014.write/preserves-inv', props=['C04', 'C03', 'C06'], functions=[M + 'Block1014.write'])
def u_blk_write(E):
    """for every reachable state (any data written so far, `trailer pending` r=0 as well as r=1012) and every next write"""
    data = E.fresh_seq('bytes', 'data')
    wb = E.fresh_seq('bytes', 'b')
    r = E.fresh_int('r')
    for c in blk_side(data.n, r):
        E.assume(c)
    E.assume(z3.Implies(r == 0, data.n >= 2024))      # reachability strengthening (DESIGN 5): keeps models replayable
    b, f = blocker_state(E, data, r)
    E.loop_specs[(M + 'Block1014.write', 0)] = Block1014WriteLoop({'data': data, 'b': wb})
    E.native_input({'kind': 'stream', 'n': VInt(data.n), 'r': VInt(r), 'm': VInt(wb.n)})
    E.cover('Block1014.write/pre')
    res = E.method(b, 'write', wb)
    E.prove('Block1014.write/returns-None', z3.BoolVal(res is NONE), 'I')
    check_blocker_inv(E, 'Block1014.write', b, f, seq_concat(data, wb))
    E.prove('Block1014.write/file_obj-unchanged', z3.BoolVal(E.getf(b, 'file_obj').oid == f.oid), 'I', 'frame')


def finalised_clauses(E, tag, content, data, tier='P'):
    """the C04 statement, clause by clause, on the finalised output `content` for written bytes `data`"""
    n = data.n
    L = content.n
    E.prove(tag + '/whole-number-of-1014-blocks', L % 1014 == 0, tier)
    nb = L / 1014
    j = E.fresh_int('blk')
    E.prove(tag + '/each-block-ends-4040',
            z3.Implies(z3.And(j >= 0, j < nb), z3.And(I(content.at(1014 * j + 1012)) == 0x40, I(content.at(1014 * j + 1013)) == 0x40)), tier)
    i = E.fresh_int('pi')
    E.prove(tag + '/payload-holds-all-data', 1012 * nb >= n, tier)
    E.prove(tag + '/payload-equals-data-in-order',
            z3.Implies(z3.And(i >= 0, i < n), I(content.at(S.phys(i))) == I(data.at(i))), tier)
    E.prove(tag + '/only-0x40-fill-after-data',
            z3.Implies(z3.And(i >= n, i < 1012 * nb), I(content.at(S.phys(i))) == 0x40), tier)
    E.prove(tag + '/at-most-one-all-fill-block', 1012 * nb - n <= 1012, tier)


def finalise_unit(E, how):
    data = E.fresh_seq('bytes', 'data')
    r = E.fresh_int('r')
    for c in blk_side(data.n, r):
        E.assume(c)
    E.assume(z3.Implies(r == 0, data.n >= 2024))
    b, f = blocker_state(E, data, r)
    E.native_input({'kind': 'stream', 'n': VInt(data.n), 'r': VInt(r), 'm': VInt(0), 'how': how})
    E.cover('Block1014.%s/pre' % how)
    if how == 'finalise':
        E.method(b, 'finalise')
    elif how == 'seek':
        E.method(b, 'seek', 0)
    else:
        E.method(b, 'close')
    content = E.getf(f, 'content')
    finalised_clauses(E, 'Block1014.' + how, content, data)
    if how == 'seek':
        E.prove('Block1014.seek/file-rewound', E.as_int(E.getf(f, 'pos')) == 0, 'P')
    if how == 'close':
        E.prove('Block1014.close/file-closed', E.truth(E.getf(f, 'closed')), 'P')
    rv = E.getf(b, 'remaining_chars')
    E.prove('Block1014.%s/ready-for-next-block' % how, E.as_int(rv) == 1012, 'I')


@unit('Block1014.finalise/post', props=['C04', 'C03', 'C06'], functions=[M + 'Block1014.finalise'])
def u_blk_finalise(E):
    finalise_unit(E, 'finalise')


@unit('Block1014.seek/post', props=['C04', 'C03', 'C11', 'C06'], functions=[M + 'Block1014.seek', M + 'Block1014.finalise'])
def u_blk_seek(E):
    finalise_unit(E, 'seek')


@unit('Block1014.close/post', props=['C04'], functions=[M + 'Block1014.close', M + 'Block1014.finalise'])
def u_blk_close(E):
    finalise_unit(E, 'close')


# ---- one-shot blocker ------------------------------------------------------------------------------

class Block1014FnLoop:
    """`while True` in block_1014: ghost j = whole 1012-byte records copied so far"""
    ghosts = ['j']
    terminates_by_exception_only = False

    def __init__(self, G):
        self.G = G

    def entry(self, ctx):
        return {'j': z3.IntVal(0)}

    def step(self, ctx, g):
        return {'j': g['j'] + 1}

    def side(self, ctx, g):
        j = g['j']
        n = self.G['inp'].n
        # all records copied so far were complete, except possibly the last one which then ended the input
        return [j >= 0, z3.Or(1012 * j <= n, z3.And(1012 * (j - 1) < n, n < 1012 * j))]

    def state(self, ctx, g):
        j = g['j']
        inp = self.G['inp']
        n = inp.n
        pos = z3.If(1012 * j <= n, 1012 * j, n)
        return {'input_data.pos': VInt(pos),
                'output_data.content': S.BLK(S.with_fill(inp, 1012 * j - n), 1014 * j),
                'output_data.pos': VInt(1014 * j)}

    def variant(self, ctx, g):
        return self.G['inp'].n + 1012 - 1012 * g['j']


@unit('block_1014/post', props=['C04'], functions=[M + 'block_1014'])
def u_block_fn(E):
    inp = E.fresh_seq('bytes', 'inp')
    fi = E.new_file(inp, 0)
    fo = E.new_file(seq_lit('bytes', b''), 0)
    E.loop_specs[(M + 'block_1014', 0)] = Block1014FnLoop({'inp': inp})
    E.native_input({'kind': 'oneshot', 'n': VInt(inp.n)})
    E.cover('block_1014/pre')
    E.call(M + 'block_1014', fi, fo)
    out = E.getf(fo, 'content')
    finalised_clauses(E, 'block_1014', out, inp)
    E.prove('block_1014/no-all-fill-block', z3.Or(inp.n == 0, 1012 * (out.n / 1014) - inp.n < 1012), 'P')
    E.prove('block_1014/empty-input-empty-output', z3.Implies(inp.n == 0, out.n == 0), 'P')
    E.prove('block_1014/output-rewound', E.as_int(E.getf(fo, 'pos')) == 0, 'I')
    E.prove('block_1014/input-rewound', E.as_int(E.getf(fi, 'pos')) == 0, 'I')


@unit('stream-vs-oneshot/lemma', props=['C04'], functions=[M + 'Block1014.write', M + 'Block1014.finalise', M + 'block_1014'])
def u_stream_vs_oneshot(E):
    """both outputs are determined by the clauses proved above; two images satisfying them for the same data agree
    on every byte of the shorter one, and the streaming one is at most one (all-fill) block longer"""
    data = E.fresh_seq('bytes', 'data')
    a = E.fresh_seq('bytes', 'stream_out')
    b = E.fresh_seq('bytes', 'oneshot_out')
    n = data.n
    E.assume(n >= 1)
    k = E.fresh_int('k')
    E.assume(k >= 0)
    for img in (a, b):
        E.assume(img.n % 1014 == 0)
        E.assume(1012 * (img.n / 1014) >= n)
        E.assume(1012 * (img.n / 1014) - n <= 1012)
        # clause instances at k (a universally quantified fact instantiated at the one index that matters)
        E.assume(z3.Implies(k < img.n, I(img.at(k)) == z3.If(k % 1014 >= 1012, 0x40,
                                                            z3.If(k - 2 * (k / 1014) < n, I(data.at(k - 2 * (k / 1014))), 0x40))))
    E.assume(1012 * (b.n / 1014) - n < 1012)          # one-shot: no all-fill block (proved in block_1014/post)
    E.prove('stream-vs-oneshot/length', z3.Or(a.n == b.n, a.n == b.n + 1014), 'P', 'lemma')
    E.prove('stream-vs-oneshot/same-bytes', z3.Implies(k < b.n, I(a.at(k)) == I(b.at(k))), 'P', 'lemma')
    E.prove('stream-vs-oneshot/extra-block-is-fill', z3.Implies(z3.And(k >= b.n, k < a.n), I(a.at(k)) == 0x40), 'P', 'lemma')


# ================================================================================================
# Unblock1014: representation invariant with ghost d (bytes delivered so far), file content C immutable
#   P = PAYLOAD(C);  buffer = P[d : plen(pos)],  0 <= d <= plen(pos),  pos = len C or pos mod 1014 = 0
# ================================================================================================

def unb_side(C, d, p):
    return [d >= 0, d <= S.plen(p), p >= 0, p <= C.n, z3.Or(p == C.n, p % 1014 == 0)]


def unblocker_state(E, C, d, p):
    P = S.PAYLOAD(C)
    f = E.new_file(C, p)
    u = E.new_obj(M + 'Unblock1014', {'file_obj': f, 'buffer': seq_slice(P, d, S.plen(p))})
    return u, f, P


class Unblock1014ReadLoop:
    """refill loop of Unblock1014.read: ghost p = position in the blocked file"""
    ghosts = ['p']

    def __init__(self, G):
        self.G = G

    def entry(self, ctx):
        return {'p': ctx.E.as_int(ctx.entry('self.file_obj.pos'))}

    def step(self, ctx, g):
        p = g['p']
        n = self.G['C'].n
        return {'p': z3.If(p + 1014 <= n, p + 1014, n)}

    def side(self, ctx, g):
        return unb_side(self.G['C'], self.G['d'], g['p']) + [g['p'] >= self.G['p0']]

    def state(self, ctx, g):
        P = S.PAYLOAD(self.G['C'])
        return {'self.buffer': seq_slice(P, self.G['d'], S.plen(g['p'])),
                'self.file_obj.pos': VInt(g['p'])}

    def variant(self, ctx, g):
        return self.G['C'].n - g['p']


def unblock_read_unit(E, sized):
    C = E.fresh_seq('bytes', 'C')
    d = E.fresh_int('d')
    p = E.fresh_int('p')
    for c in unb_side(C, d, p):
        E.assume(c)
    u, f, P = unblocker_state(E, C, d, p)
    E.loop_specs[(M + 'Unblock1014.read', 0)] = Unblock1014ReadLoop({'C': C, 'd': d, 'p0': p})
    total = S.plen(C.n)
    if sized:
        k = E.fresh_int('k')
        E.assume(k >= 1)
        E.native_input({'kind': 'read', 'filelen': VInt(C.n), 'delivered': VInt(d), 'k': VInt(k)})
        E.cover('Unblock1014.read(k)/pre')
        out = E.method(u, 'read', VInt(k))
        want_len = z3.If(d + k <= total, k, total - d)
        tag = 'Unblock1014.read(k)'
    else:
        E.native_input({'kind': 'read', 'filelen': VInt(C.n), 'delivered': VInt(d), 'k': None})
        E.cover('Unblock1014.read()/pre')
        out = E.method(u, 'read')
        want_len = total - d
        tag = 'Unblock1014.read()'
    if not (isinstance(out, VSeq) and out.kind == 'bytes'):
        E.prove(tag + '/returns-bytes', False, 'P')
        return
    E.prove(tag + '/exactly-requested-or-all-that-remain', out.n == want_len, 'P')
    j = E.fresh_int('j')
    E.prove(tag + '/is-next-slice-of-payload-stream', z3.Implies(z3.And(j >= 0, j < out.n), I(out.at(j)) == I(P.at(d + j))), 'P')
    # invariant re-established with d' = d + len(out)
    d2 = d + out.n
    p2 = E.as_int(E.getf(f, 'pos'))
    for i, c in enumerate(unb_side(C, d2, p2)):
        E.prove('%s/inv/side%d' % (tag, i), c, 'I', 'inv')
    E.prove_value_eq(tag + '/inv/buffer', E.getf(u, 'buffer'), seq_slice(P, d2, S.plen(p2)), 'I', 'inv')
    E.prove_value_eq(tag + '/frame/file-content-untouched', E.getf(f, 'content'), C, 'I', 'frame')


@unit('Unblock1014.read(k)/post', props=['C05', 'C03', 'C09', 'C06'], functions=[M + 'Unblock1014.read'])
def u_unb_read_k(E):
    unblock_read_unit(E, True)


@unit('Unblock1014.read()/post', props=['C05'], functions=[M + 'Unblock1014.read'])
def u_unb_read_all(E):
    unblock_read_unit(E, False)


@unit('Unblock1014.__init__/establishes-inv', props=['C05', 'C03', 'C06'], functions=[M + 'Unblock1014.__init__'])
def u_unb_init(E):
    C = E.fresh_seq('bytes', 'C')
    f = E.new_file(C, 0)
    u = E.instantiate(E.program.classes[M + 'Unblock1014'], [f], {})
    P = S.PAYLOAD(C)
    E.prove_value_eq('Unblock1014.__init__/inv/buffer', E.getf(u, 'buffer'), seq_slice(P, 0, S.plen(z3.IntVal(0))), 'I', 'inv')
    E.prove('Unblock1014.__init__/inv/file', z3.BoolVal(E.getf(u, 'file_obj').oid == f.oid), 'I', 'inv')


# ---- one-shot unblocker ----------------------------------------------------------------------------

class Unblock1014FnLoop:
    """`while True` in unblock_1014: ghost j = blocks copied; q = an arbitrary earlier block (skolem for 'all blocks good')"""
    ghosts = ['j']

    def __init__(self, G):
        self.G = G

    def entry(self, ctx):
        return {'j': z3.IntVal(0)}

    def step(self, ctx, g):
        return {'j': g['j'] + 1}

    def side(self, ctx, g):
        j, q = g['j'], self.G['q']
        C = self.G['C']
        good_q = z3.And(1014 * (q + 1) <= C.n, I(C.at(1014 * q + 1012)) == 0x40, I(C.at(1014 * q + 1013)) == 0x40)
        return [j >= 0, 1014 * j <= C.n, z3.Implies(z3.And(q >= 0, q < j), good_q)]

    def state(self, ctx, g):
        j = g['j']
        C = self.G['C']
        return {'input_data.pos': VInt(1014 * j),
                'output_data.content': seq_slice(S.PAYLOAD(C), 0, 1012 * j),
                'output_data.pos': VInt(1012 * j)}

    def variant(self, ctx, g):
        return self.G['C'].n - 1014 * g['j']


@unit('unblock_1014/post', props=['C05'], functions=[M + 'unblock_1014'])
def u_unblock_fn(E):
    """total contract: refuses iff some 1014-chunk is short or lacks the 40 40 trailer; otherwise output = PAYLOAD(input)"""
    C = E.fresh_seq('bytes', 'C')
    q = E.fresh_int('q')          # arbitrary block index
    fi = E.new_file(C, 0)
    fo = E.new_file(seq_lit('bytes', b''), 0)
    E.loop_specs[(M + 'unblock_1014', 0)] = Unblock1014FnLoop({'C': C, 'q': q})
    E.native_input({'kind': 'unblock_fn', 'filelen': VInt(C.n), 'badblock': VInt(q)})
    E.cover('unblock_1014/pre')
    nb = C.n / 1014
    well_formed_q = z3.Implies(z3.And(q >= 0, q < nb), z3.And(I(C.at(1014 * q + 1012)) == 0x40, I(C.at(1014 * q + 1013)) == 0x40))
    try:
        E.call(M + 'unblock_1014', fi, fo)
    except PyRaise as pr:
        E.cover('unblock_1014/refuses')
        E.prove('unblock_1014/refuses-with-library-error', z3.BoolVal(E.exc_is(pr.exc, M + 'MciIpmDataError')), 'P', 'xpost')
        # refusal only for malformed input: there IS a short chunk or a bad trailer (witness: the chunk being read)
        jpos = E.as_int(E.getf(fi, 'pos'))
        E.prove('unblock_1014/refuses-only-malformed', z3.Or(C.n % 1014 != 0, self_bad_block(C, jpos)), 'P', 'xpost')
        return
    E.cover('unblock_1014/accepts')
    E.prove('unblock_1014/accepts-only-whole-blocks', C.n % 1014 == 0, 'P')
    E.prove('unblock_1014/accepts-only-correct-trailers', well_formed_q, 'P')
    out = E.getf(fo, 'content')
    E.prove_value_eq('unblock_1014/output=PAYLOAD(input)', out, S.PAYLOAD(C), 'P')
    E.prove('unblock_1014/output-rewound', E.as_int(E.getf(fo, 'pos')) == 0, 'I')


def self_bad_block(C, jpos):
    """the block that was just read (file position jpos is its end) has a wrong trailer"""
    b = jpos / 1014 - 1
    return z3.And(jpos % 1014 == 0, jpos >= 1014,
                  z3.Or(I(C.at(1014 * b + 1012)) != 0x40, I(C.at(1014 * b + 1013)) != 0x40))


@unit('unblock(block(d))/lemma', props=['C05'], functions=[M + 'unblock_1014', M + 'block_1014'])
def u_unblock_block(E):
    """the one-shot unblocker inverts the blocker up to 0x40 fill: for any image satisfying the blocker's
    clauses, PAYLOAD(image) = data ++ fill, and the image is accepted"""
    data = E.fresh_seq('bytes', 'data')
    img = E.fresh_seq('bytes', 'img')
    n = data.n
    k = E.fresh_int('k')
    E.assume(img.n % 1014 == 0)
    E.assume(1012 * (img.n / 1014) >= n)
    for idx in (S.phys(k), 1014 * k + 1012, 1014 * k + 1013):
        E.assume(z3.Implies(z3.And(idx >= 0, idx < img.n),
                            I(img.at(idx)) == z3.If(idx % 1014 >= 1012, 0x40, z3.If(idx - 2 * (idx / 1014) < n, I(data.at(idx - 2 * (idx / 1014))), 0x40))))
    P = S.PAYLOAD(img)
    E.prove('unblock(block(d))/length', P.n == 1012 * (img.n / 1014), 'P', 'lemma')
    E.prove('unblock(block(d))/data-then-fill', z3.Implies(z3.And(k >= 0, k < P.n), I(P.at(k)) == z3.If(k < n, I(data.at(k)), 0x40)), 'P', 'lemma')
    E.prove('unblock(block(d))/trailers-accepted', z3.Implies(z3.And(k >= 0, k < img.n / 1014),
                                                          z3.And(I(img.at(1014 * k + 1012)) == 0x40, I(img.at(1014 * k + 1013)) == 0x40)), 'P', 'lemma')


@unit('PAYLOAD-truncation/lemma', props=['C09', 'C05'], functions=[])
def u_payload_trunc(E):
    """a blocked file cut at any byte t unblocks to a prefix of what the whole file unblocks to"""
    C = E.fresh_seq('bytes', 'C')
    t = E.fresh_int('t')
    E.assume(t >= 0)
    E.assume(t <= C.n)
    cut = seq_slice(C, None, t, E.decide)
    P, Pc = S.PAYLOAD(C), S.PAYLOAD(cut)
    k = E.fresh_int('k')
    E.prove('PAYLOAD-truncation/shorter', Pc.n <= P.n, 'P', 'lemma')
    E.prove('PAYLOAD-truncation/length=plen(t)', Pc.n == S.plen(t), 'P', 'lemma')
    E.prove('PAYLOAD-truncation/prefix', z3.Implies(z3.And(k >= 0, k < Pc.n), I(Pc.at(k)) == I(P.at(k))), 'P', 'lemma')
