"""Contracts for ipm_info / block_1014_check / bitmap_check / encoding_check (C17)."""
import z3
from pyvc.runner import unit
from pyvc.values import *
from pyvc.engine import PyRaise
from . import specs as S
from .bitarray import install_bitarray_contracts, bit_of_byte_int
from .mciipm_vbs import max_len

M = 'cardutil.mciipm.'


def configured_bits(E):
    cfg = E.lookup_global('config', E.program.modules['cardutil.config'])
    bc = E.dict_get(cfg, lift('bit_config'), strict=True)
    return sorted(int(k) for k in E.getf(bc, 'val'))


def dict_field(E, d, key):
    dv = E.getf(d, 'val')
    return dv.get(key)


def writer_like_file(E, family, blocked):
    """file content with the shape every IpmWriter output has: be32(len) MTI(4 digits in the codec) bitmap(16) ..."""
    C = E.fresh_seq('bytes', 'C')
    MAX = max_len(E)
    L1 = S.be32_value(C, 0)
    E.assume(L1 >= 20)
    E.assume(L1 <= MAX)
    E.assume(C.n >= 28)                                   # prefix + MTI + bitmap + zero-length terminator
    lo = 0x30 if family == 'ascii' else 0xF0
    for k in range(4):
        E.assume(z3.And(I(C.at(4 + k)) >= lo, I(C.at(4 + k)) <= lo + 9))
    cfg_bits = set(configured_bits(E))
    E.assume(bit_of_byte_int(C.at(8), 0))                 # bit 1: bitmap present
    for bit in range(2, 129):
        if bit not in cfg_bits:
            E.assume(z3.Not(bit_of_byte_int(C.at(8 + (bit - 1) // 8), (bit - 1) % 8)))
    if blocked:
        nb = E.fresh_int('nb')
        E.assume(nb >= 1)
        E.assume(C.n == 1014 * nb)
        for j in (0, 1, 2):
            for o in (1012, 1013):
                E.assume(z3.Implies(nb > j, I(C.at(1014 * j + o)) == 0x40))
    return C


def run_info(E, C):
    f = E.new_file(C, 0)
    out = E.call(M + 'ipm_info', f)
    if not (isinstance(out, VRef) and E.kind_of(out) == 'dict'):
        return None
    return out


def mk_writer_unit(family, blocked):
    @unit('ipm_info/writer-output[%s,%s]' % (family, '1014' if blocked else 'vbs'), props=['C17'],
          functions=[M + 'ipm_info', M + 'block_1014_check', M + 'bitmap_check', M + 'encoding_check'])
    def u(E):
        E.merge_ifs = True
        install_bitarray_contracts(E)
        C = writer_like_file(E, family, blocked)
        E.native_input({'kind': 'file', 'data': C})
        E.cover('ipm_info/pre')
        try:
            out = run_info(E, C)
        except PyRaise as pr:
            E.prove('ipm_info/no-exception(%s)' % E.exc_name(pr.exc), False, 'P')
            return
        tag = 'ipm_info[%s,%s]' % (family, '1014' if blocked else 'vbs')
        if out is None:
            E.prove(tag + '/returns-dict', False, 'P')
            return
        valid = dict_field(E, out, 'isValidIPM')
        E.prove(tag + '/reported-valid', z3.BoolVal(False) if valid is None else E.truth(valid), 'P')
        enc = dict_field(E, out, 'encoding')
        want = 'latin1' if family == 'ascii' else 'cp037'
        E.prove(tag + '/encoding-family', z3.BoolVal(isinstance(enc, VSeq) and conc_str(enc) == want), 'P')
        isb = dict_field(E, out, 'isBlocked')
        if isb is None:
            E.prove(tag + '/isBlocked-present', False, 'P')
            return
        if blocked:
            E.prove(tag + '/blocked-file-reported-blocked', E.truth(isb), 'P')
        else:
            both40 = z3.And(C.n >= 1014, I(C.at(1012)) == 0x40, I(C.at(1013)) == 0x40)
            E.prove(tag + '/unblocked-reported-unblocked-unless-4040-at-1012', z3.Implies(z3.Not(both40), z3.Not(E.truth(isb))), 'P')
    return u


for _fam in ('ascii', 'ebcdic'):
    for _b in (True, False):
        mk_writer_unit(_fam, _b)


def invalid_unit(E, tag, C, cond_desc):
    install_bitarray_contracts(E)
    E.merge_ifs = True
    E.native_input({'kind': 'file', 'data': C})
    try:
        out = run_info(E, C)
    except PyRaise as pr:
        E.prove(tag + '/no-exception(%s)' % E.exc_name(pr.exc), False, 'P')
        return
    if out is None:
        E.prove(tag + '/returns-dict', False, 'P')
        return
    valid = dict_field(E, out, 'isValidIPM')
    E.prove(tag + '/reported-invalid', z3.BoolVal(False) if valid is None else z3.Not(E.truth(valid)), 'P')
    reason = dict_field(E, out, 'reason')
    E.prove(tag + '/with-a-reason', z3.BoolVal(isinstance(reason, VSeq) and reason.kind == 'str') if not isinstance(reason, VSeq) else reason.n > 0, 'P')


@unit('ipm_info/too-short', props=['C17'], functions=[M + 'ipm_info'])
def u_short(E):
    C = E.fresh_seq('bytes', 'C')
    E.assume(C.n < 24)
    invalid_unit(E, 'ipm_info[<24 bytes]', C, 'shorter than 24 bytes')


@unit('ipm_info/first-length-above-max', props=['C17'], functions=[M + 'ipm_info'])
def u_toolong(E):
    C = E.fresh_seq('bytes', 'C')
    E.assume(C.n >= 24)
    E.assume(S.be32_value(C, 0) > max_len(E))
    invalid_unit(E, 'ipm_info[first length > max]', C, 'first length above the configured maximum')


def mk_badbit_one(which):
    @unit('ipm_info/unconfigured-bitmap-bit[%s]' % which, props=['C17'], functions=[M + 'ipm_info', M + 'bitmap_check'])
    def u(E):
        """one concrete unconfigured bit set (first / a middle one / the last, bit 128), every other bitmap bit arbitrary"""
        C = E.fresh_seq('bytes', 'C')
        E.assume(C.n >= 24)
        E.assume(S.be32_value(C, 0) <= max_len(E))
        cfg_bits = set(configured_bits(E))
        unconf = [b for b in range(2, 129) if b not in cfg_bits]
        bit = {'first': unconf[0], 'middle': unconf[len(unconf) // 2], 'last': unconf[-1]}[which]
        E.assume(bit_of_byte_int(C.at(8 + (bit - 1) // 8), (bit - 1) % 8))
        for b in unconf:          # the other unconfigured bits are clear, so THIS bit must be what is reported
            if b != bit:
                E.assume(z3.Not(bit_of_byte_int(C.at(8 + (b - 1) // 8), (b - 1) % 8)))
        invalid_unit(E, 'ipm_info[unconfigured bit %s]' % which, C, 'bitmap uses an element without configuration')
    return u


for _w in ('first', 'middle', 'last'):
    mk_badbit_one(_w)


@unit('ipm_info/unconfigured-bitmap-bit', props=['C17'], functions=[M + 'ipm_info', M + 'bitmap_check'], thorough_only=True)
def u_badbit(E):
    """for EVERY bit 2..128 without configuration (symbolic choice of the bit through 127 flags)"""
    C = E.fresh_seq('bytes', 'C')
    E.assume(C.n >= 24)
    E.assume(S.be32_value(C, 0) <= max_len(E))
    cfg_bits = set(configured_bits(E))
    bad = [bit_of_byte_int(C.at(8 + (bit - 1) // 8), (bit - 1) % 8) for bit in range(2, 129) if bit not in cfg_bits]
    E.assume(z3.Or(*bad))
    invalid_unit(E, 'ipm_info[unconfigured bit]', C, 'bitmap uses an element without configuration')


@unit('ipm_info/boundaries', props=['C17'], functions=[M + 'ipm_info'])
def u_boundary(E):
    """exactly 24 bytes and a first length of exactly the maximum are NOT rejected for those reasons"""
    install_bitarray_contracts(E)
    E.merge_ifs = True
    C = writer_like_file(E, 'ascii', False)
    # override: shortest acceptable sample and the largest acceptable first length
    E.assume(S.be32_value(C, 0) == max_len(E))
    out = run_info(E, C)
    valid = dict_field(E, out, 'isValidIPM')
    E.prove('ipm_info/max-length-first-record-accepted', E.truth(valid), 'P')
