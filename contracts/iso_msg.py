"""Message-level units for cardutil/iso8583.py: dumps / loads / _dict_to_iso8583 / _iso8583_to_dict / _pds_to_de /
_get_bitmap_list executed end to end on messages whose ELEMENT SUBSET is concrete (a fixed family of subsets) and whose
values, lengths, MTI digits, encoding and trailing bytes are symbolic (C01, C02, C08, C12, C07).
The induction over arbitrary subsets (loop invariant over bits 2..127) is not mechanised; see DESIGN section 7."""
import z3
from pyvc.runner import unit
from pyvc.values import *
from pyvc.engine import PyRaise
from pyvc import models_iso as MI
from pyvc.models import POW10
from .bitarray import install_bitarray_contracts
from .iso_field import Q, ERR, codec, encodable_text, dict_entries, LS
from .iso_pds import install_walker_specs

FUNCS = [Q + n for n in ('dumps', 'loads', '_dict_to_iso8583', '_iso8583_to_dict', '_field_to_iso8583', '_iso8583_to_field',
                         '_get_bitmap_list', '_pds_to_de', '_pytype_to_string', '_string_to_pytype', '_get_field_length')]


def packaged_cfg(E):
    cfg = E.lookup_global('config', E.program.modules['cardutil.config'])
    bc = E.dict_get(cfg, lift('bit_config'), strict=True)
    out = {}
    for k, ref in E.getf(bc, 'val').items():
        d = E.getf(ref, 'val')
        out[int(k)] = {kk: (conc_str(vv) if isinstance(vv, VSeq) else (vv.conc() if isinstance(vv, VInt) else None)) for kk, vv in d.items()}
    return out


def spec_bitmap(bits, hexb):
    b = bytearray(16)
    b[0] |= 0x80
    for bit in bits:
        b[(bit - 1) // 8] |= 1 << (7 - (bit - 1) % 8)
    return seq_lit('bytes', bytes(b).hex().encode() if hexb else bytes(b))


def spec_field(E, cd, c, v):
    """documented rendering of one element (written from the property statement, not from the code)"""
    ls = LS[c['field_type']]
    pt = c.get('field_python_type')
    if isinstance(v, VSeq) and v.kind == 'bytes':
        body = v
    elif pt in ('int', 'long'):
        W = c['field_length']
        body = seq_items('bytes', [cd.ENC(48 + (I(v) / POW10[W - 1 - k]) % 10) for k in range(W)])
    elif pt == 'datetime':
        s = MI.strftime_seq(E, v.t, c.get('field_date_format', '%y%m%d'))
        body = seq_items('bytes', [cd.ENC(I(e)) for e in s.items])
    elif ls == 0:
        W = c['field_length']
        body = VSeq('bytes', W, lambda i, v=v: cd.ENC(z3.If(I(i) < v.n, I(v.at(i)), 32)))
    else:
        body = VSeq('bytes', v.n, lambda i, v=v: cd.ENC(I(v.at(i))))
    if ls:
        n = body.n
        pre = seq_items('bytes', [cd.ENC(48 + (n / POW10[ls - 1 - k]) % 10) for k in range(ls)])
        return seq_concat(pre, body)
    return body


def make_value(E, cd, c, name):
    """an admissible symbolic value for an element configured as c"""
    ls = LS[c['field_type']]
    pt = c.get('field_python_type')
    if c.get('field_processor') == 'ICC':
        # well-formed TLV data: a two-byte tag 9F02 and a one-byte tag 9A, value lengths and contents symbolic
        v1 = E.fresh_seq('bytes', name + '_v1')
        v2 = E.fresh_seq('bytes', name + '_v2')
        for v in (v1, v2):
            E.assume(v.n >= 0)
            E.assume(v.n <= 120)
        return seq_concat(seq_concat(seq_concat(seq_items('bytes', [0x9F, 0x02, v1.n]), v1), seq_items('bytes', [0x9A, v2.n])), v2)
    if pt in ('int', 'long'):
        t = E.fresh_int(name)
        E.assume(t >= 0)
        E.assume(t < POW10[c['field_length']])
        return VInt(t)
    if pt == 'datetime':
        dt = z3.Const(name, MI.DT)
        fmt = c.get('field_date_format', '%y%m%d')
        E.assume(z3.Function('REPRESENTABLE[%s]' % fmt, MI.DT, z3.BoolSort())(dt))
        return VOpaque('datetime', dt)
    v = encodable_text(E, name, cd)
    if ls == 0:
        E.assume(v.n == c['field_length'])
    else:
        E.assume(v.n >= 1)
        E.assume(v.n <= POW10[ls] - 1)
    return v


def mti_chars(E):
    els = []
    for k in range(4):
        c = z3.Int('mti%d' % k)
        E.fact(z3.And(c >= 48, c <= 57))
        els.append(c)
    return seq_items('str', els)


def values_equal(E, tag, got, want, c):
    if isinstance(want, VInt):
        E.prove(tag, z3.BoolVal(False) if not isinstance(got, VInt) else got.t == want.t, 'P')
    elif isinstance(want, VOpaque):
        E.prove(tag, z3.BoolVal(False) if not (isinstance(got, VOpaque) and got.sort_name == want.sort_name) else got.t == want.t, 'P')
    elif isinstance(want, VSeq):
        if not (isinstance(got, VSeq) and got.kind == want.kind):
            E.prove(tag, False, 'P')
        else:
            E.prove_value_eq(tag, got, want, 'P')
    else:
        E.prove(tag, False, 'P')


SUBSETS = {
    'text+typed': [2, 3, 4, 12, 26],
    'far-apart': [2, 127],
    'var-with-max+next': [31, 33, 49],
    'lllvar+icc': [55, 72],
    'mti-only': [],
    'fixed+int+llvar': [14, 22, 38, 71, 94],
}


def mk_roundtrip(sname, bits, hexb):
    @unit('dumps+loads[%s,%s bitmap]' % (sname, 'hex' if hexb else 'binary'), props=['C01', 'C02', 'C06'], functions=FUNCS)
    def u(E):
        E.merge_ifs = True
        install_bitarray_contracts(E)
        enc, cd = codec(E)
        pc = packaged_cfg(E)
        mti = mti_chars(E)
        msg = {'MTI': mti}
        vals = {}
        for b in bits:
            vals[b] = make_value(E, cd, pc[b], 'de%d' % b)
            msg['DE%d' % b] = vals[b]
        mref = E.new_dict(dict(msg))
        tag = 'dumps[%s,%s]' % (sname, 'hex' if hexb else 'bin')
        E.native_input({'kind': 'message', 'bits': bits, 'hex': hexb})
        E.cover(tag + '/pre')
        try:
            out = E.call(Q + 'dumps', mref, encoding=enc, hex_bitmap=VBool(hexb))
        except PyRaise as pr:
            E.prove(tag + '/well-formed-message-encodes(%s)' % E.exc_name(pr.exc), False, 'P')
            return
        # ---- C02: exact documented layout
        want = seq_concat(seq_items('bytes', [cd.ENC(I(c)) for c in mti.items]), spec_bitmap(bits, hexb))
        for b in bits:
            want = seq_concat(want, spec_field(E, cd, pc[b], vals[b]))
        E.prove_value_eq(tag + '/bytes=MTI+bitmap+elements-in-ascending-order', out, want, 'P')
        # ---- C01: decoding returns every original key with an equal value
        try:
            back = E.call(Q + 'loads', out, encoding=enc, hex_bitmap=VBool(hexb))
        except PyRaise as pr:
            E.prove('loads(dumps(m))[%s]/decodes(%s)' % (sname, E.exc_name(pr.exc)), False, 'P')
            return
        ents = dict_entries(E, back)
        t2 = 'loads(dumps(m))[%s,%s]' % (sname, 'hex' if hexb else 'bin')
        values_equal(E, t2 + '/MTI', ents.get('MTI'), mti, None)
        for b in bits:
            if pc[b].get('field_processor') in ('PAN', 'PAN-PREFIX'):
                continue
            values_equal(E, t2 + '/DE%d' % b, ents.get('DE%d' % b), vals[b], pc[b])
        extra = [k for k in ents if k not in msg and k != '<derived>']
        allowed = [k for k in extra if k.startswith('DE43_') or k.startswith('TAG') or k == 'ICC_DATA']
        E.prove(t2 + '/only-documented-derived-keys-added', z3.BoolVal(extra == allowed), 'P')
    return u


for _n, _bits in SUBSETS.items():
    for _h in (False, True):
        if _h and _n not in ('text+typed', 'far-apart'):
            continue
        mk_roundtrip(_n, _bits, _h)


# ---------------------------------------------------------------- C08: exact framing on decode, arbitrary data after the bitmap
def mk_framing(sname, bits):
    @unit('loads-framing[%s]' % sname, props=['C08', 'C07'], functions=FUNCS)
    def u(E):
        E.merge_ifs = True
        install_bitarray_contracts(E)
        install_walker_specs(E)
        enc, cd = codec(E)
        pc = packaged_cfg(E)
        mti = E.fresh_seq('bytes', 'mti')
        E.assume(mti.n == 4)
        data = E.fresh_seq('bytes', 'data')           # ANY bytes after the bitmap
        raw = seq_concat(seq_concat(E.fix_len(mti), spec_bitmap(bits, False)), data)
        tag = 'loads-framing[%s]' % sname
        E.native_input({'kind': 'framing', 'bits': bits, 'data': data})
        try:
            back = E.call(Q + 'loads', raw, encoding=enc)
        except PyRaise as pr:
            E.prove(tag + '/only-the-library-error-escapes(%s)' % E.exc_name(pr.exc), z3.BoolVal(E.exc_is(pr.exc, ERR)), 'P', 'xpost')
            return
        ents = dict_entries(E, back)
        E.cover(tag + '/accepted')
        des = sorted(int(k[2:]) for k in ents if k.startswith('DE') and k[2:].isdigit())
        E.prove(tag + '/one-entry-per-flagged-element', z3.BoolVal(des == sorted(bits)), 'P')
        if des != sorted(bits):
            return
        # the elements tile the data: offsets P(b) from the values actually returned
        off = z3.IntVal(0)
        for b in bits:
            c = pc[b]
            ls = LS[c['field_type']]
            v = ents['DE%d' % b]
            if ls == 0:
                L = z3.IntVal(c['field_length'])
            elif isinstance(v, VSeq):
                L = v.n
            else:
                return
            if isinstance(v, VSeq) and c.get('field_processor') not in ('PAN', 'PAN-PREFIX'):
                j = E.fresh_int('j')
                if v.kind == 'bytes':
                    E.prove(tag + '/DE%d-is-content-of-its-own-bytes' % b, z3.Implies(z3.And(j >= 0, j < v.n), I(v.at(j)) == I(data.at(off + ls + j))), 'P')
                else:
                    E.prove(tag + '/DE%d-is-content-of-its-own-bytes' % b, z3.Implies(z3.And(j >= 0, j < v.n), I(v.at(j)) == cd.DEC(I(data.at(off + ls + j)))), 'P')
            off = off + ls + L
        E.prove(tag + '/elements-tile-the-whole-message', off == data.n, 'P')
    return u


for _n, _bits in (('llvar+fixed+lllvar', [2, 3, 72]), ('var-with-max+next', [31, 33]), ('fixed-only', [3, 14, 24])):
    mk_framing(_n, _bits)


# ---------------------------------------------------------------- C12: PDS packing, concrete item count, symbolic value lengths
def mk_pds(m):
    @unit('pds-pack-unpack[%d items]' % m, props=['C12', 'C01', 'C02'], functions=[Q + '_pds_to_de', Q + '_pds_to_dict', Q + '_dict_to_iso8583', Q + '_iso8583_to_dict'])
    def u(E):
        E.merge_ifs = False          # fork on every flush decision: the carrier count is concrete on each path
        tags = ['0023', '0148', '0158', '1000'][:m]
        d = {'MTI': lift('1144')}
        vals = []
        for t in tags:
            v = E.fresh_seq('str', 'pds' + t, lo=32, hi=126)
            E.assume(v.n >= 0)
            E.assume(v.n <= 992)
            vals.append(v)
            d['PDS' + t] = v
        tag = 'pds-pack[%d]' % m
        E.native_input({'kind': 'pds', 'lens': [VInt(v.n) for v in vals]})
        outs = E.list_val(E.call(Q + '_pds_to_de', E.new_dict(d)))
        outs = E.fix_len(outs)
        q = outs.clen()
        if q is None:
            E.prove(tag + '/carrier-count-determined', False, 'I')
            return
        items = [seq_concat(seq_concat(seq_lit('str', t), seq_items('str', [48 + (v.n / 100) % 10, 48 + (v.n / 10) % 10, 48 + v.n % 10])), v) for t, v in zip(tags, vals)]
        # carriers = greedy partition of the items in ascending tag order
        E.cover(tag + '/carriers=%d' % q)
        allc = None
        for k in range(q):
            c = outs.at(z3.IntVal(k))
            E.prove(tag + '/carrier-%d-at-most-999' % k, c.n <= 999, 'P')
            E.prove(tag + '/carrier-%d-not-empty' % k, c.n >= 7, 'P')
            allc = c if allc is None else seq_concat(allc, c)
        want = None
        for it in items:
            want = it if want is None else seq_concat(want, it)
        E.prove_value_eq(tag + '/carriers-concatenated=items-in-ascending-tag-order', allc, want, 'P')
        # no sub-element split: every carrier boundary is an item boundary
        bounds = [z3.IntVal(0)]
        for it in items:
            bounds.append(bounds[-1] + it.n)
        pos = z3.IntVal(0)
        for k in range(q - 1):
            pos = pos + outs.at(z3.IntVal(k)).n
            E.prove(tag + '/boundary-%d-falls-between-sub-elements' % k, z3.Or(*[pos == b for b in bounds]), 'P')
        # greedy: the first sub-element of the next carrier did not fit into this one
        pos = z3.IntVal(0)
        for k in range(q - 1):
            ck = outs.at(z3.IntVal(k)).n
            pos = pos + ck
            E.prove(tag + '/carrier-%d-closed-only-when-next-sub-element-does-not-fit' % k,
                    z3.Or(*[z3.And(pos == bounds[i], ck + items[i].n > 999) for i in range(len(items))]), 'P')
        # decoding each carrier returns its entries; the union is the original set
        found = {}
        for k in range(q):
            dd = E.call(Q + '_pds_to_dict', outs.at(z3.IntVal(k)))
            dv = E.getf(dd, 'val')
            ents = MI.AssocDict.from_concrete(dv).entries if isinstance(dv, dict) else dv.entries
            ents = E.fix_len(ents)
            if ents.clen() is None:
                E.prove(tag + '/decoded-entry-count', False, 'I')
                return
            for i in range(ents.clen()):
                kv = ents.at(z3.IntVal(i))
                ks = conc_str(kv.items[0])
                found[ks] = kv.items[1]
        E.prove(tag + '/decoded-key-set', z3.BoolVal(sorted(k for k in found if k) == sorted('PDS' + t for t in tags)), 'P')
        for t, v in zip(tags, vals):
            if 'PDS' + t in found:
                E.prove_value_eq(tag + '/PDS%s-unchanged' % t, found['PDS' + t], v, 'P')
    return u


for _m in (1, 2, 3):
    mk_pds(_m)


def mk_pds_message(lens_hint):
    @unit('dumps+loads[PDS %s]' % lens_hint, props=['C12', 'C01', 'C02'], functions=FUNCS + [Q + '_pds_to_dict'])
    def u(E):
        """PDS sub-elements travel through the carrier elements in ascending element order and come back unchanged"""
        E.merge_ifs = False
        install_bitarray_contracts(E)
        enc, cd = codec(E)
        v1 = encodable_text(E, 'pdsA', cd)
        v2 = encodable_text(E, 'pdsB', cd)
        for v in (v1, v2):
            E.assume(v.n >= 0)
            E.assume(v.n <= 992)
        if lens_hint == 'one carrier':
            E.assume(v1.n + v2.n + 14 <= 999)
        else:
            E.assume(v1.n + v2.n + 14 > 999)
        msg = E.new_dict({'MTI': lift('1144'), 'PDS0148': v2, 'PDS0023': v1})
        tag = 'dumps+loads[PDS,%s]' % lens_hint
        try:
            out = E.call(Q + 'dumps', msg, encoding=enc)
            back = E.call(Q + 'loads', out, encoding=enc)
        except PyRaise as pr:
            E.prove(tag + '/no-exception(%s)' % E.exc_name(pr.exc), False, 'P')
            return
        dv = E.getf(back, 'val')
        ents = MI.AssocDict.from_concrete(dv).entries if isinstance(dv, dict) else E.fix_len(dv.entries)
        if ents.clen() is None:
            E.prove(tag + '/entry-count-determined', False, 'I')
            return
        got = {}
        for i in range(ents.clen()):
            kv = ents.at(z3.IntVal(i))
            got[conc_str(kv.items[0])] = kv.items[1]
        want_keys = {'MTI', 'PDS0023', 'PDS0148', 'DE48'} | ({'DE62'} if lens_hint != 'one carrier' else set())
        E.prove(tag + '/keys=original+carrier-elements-in-ascending-order', z3.BoolVal(set(got) == want_keys), 'P')
        if 'PDS0023' in got:
            E.prove_value_eq(tag + '/PDS0023-unchanged', got['PDS0023'], v1, 'P')
        if 'PDS0148' in got:
            E.prove_value_eq(tag + '/PDS0148-unchanged', got['PDS0148'], v2, 'P')
    return u


mk_pds_message('one carrier')
mk_pds_message('two carriers')


@unit('loads-hex-bitmap/arbitrary-character', props=['C07', 'C08'], functions=[Q + 'loads', Q + '_iso8583_to_dict', Q + '_get_bitmap_list'])
def u_hex_bitmap_any(E):
    """hex bitmap rendering: one bitmap character arbitrary (hex digit or not), everything after the bitmap arbitrary;
    and messages too short to hold a hex bitmap"""
    E.merge_ifs = True
    install_bitarray_contracts(E)
    install_walker_specs(E)
    enc, cd = codec(E)
    x = E.fresh_seq('bytes', 'x')
    E.assume(x.n == 1)
    data = E.fresh_seq('bytes', 'data')
    mti = E.fix_len(E.fresh_seq('bytes', 'mti'))
    pos = E.choose(2, 'hexpos')
    E.assume(mti.n == 4) if mti.clen() is None else None
    m4 = seq_items('bytes', [E.fresh_seq('bytes', 'mt').at(z3.IntVal(k)) for k in range(4)])
    hexbm = [ord(c) for c in '8' + '0' * 31]
    idx = (1, 31)[pos]
    bm = seq_items('bytes', hexbm[:idx] + [x.at(z3.IntVal(0))] + hexbm[idx + 1:])
    raw = seq_concat(seq_concat(m4, bm), data)
    E.native_input({'kind': 'loads', 'raw': raw, 'enc': 'latin_1', 'hex': True})
    try:
        E.call(Q + 'loads', raw, encoding=enc, hex_bitmap=TRUE)
    except PyRaise as pr:
        E.prove('loads[hex bitmap, arbitrary character]/only-the-library-error-escapes(%s)' % E.exc_name(pr.exc), z3.BoolVal(E.exc_is(pr.exc, ERR)), 'P', 'xpost')
        E.cover('loads-hex/any')
        return
    # C08: a message is accepted only if its bitmap field IS a hex rendering (no sign, blank, underscore, prefix ...)
    c = I(x.at(z3.IntVal(0)))
    E.prove('loads[hex bitmap, arbitrary character]/accepted-only-if-the-bitmap-field-is-hex-digits',
            z3.Or(z3.And(c >= 48, c <= 57), z3.And(c >= 97, c <= 102), z3.And(c >= 65, c <= 70)), 'P')
    E.cover('loads-hex/any')


@unit('loads/too-short', props=['C07', 'C08'], functions=[Q + 'loads', Q + '_iso8583_to_dict'])
def u_too_short(E):
    enc, cd = codec(E)
    for hexb, hl in ((False, 20), (True, 36)):
        raw = E.fresh_seq('bytes', 'raw%d' % hl)
        E.assume(raw.n < hl)
        try:
            E.call(Q + 'loads', raw, encoding=enc, hex_bitmap=VBool(hexb))
            E.prove('loads[shorter than MTI+bitmap,%s]/refused' % ('hex' if hexb else 'binary'), False, 'P')
        except PyRaise as pr:
            E.prove('loads[shorter than MTI+bitmap,%s]/only-the-library-error-escapes(%s)' % ('hex' if hexb else 'binary', E.exc_name(pr.exc)),
                    z3.BoolVal(E.exc_is(pr.exc, ERR)), 'P', 'xpost')


@unit('dumps+loads[PDS, caller-supplied carriers]', props=['C12', 'C01', 'C02', 'C06'], functions=FUNCS + [Q + '_pds_to_dict'])
def u_pds_custom_carriers(E):
    """the carrier elements are those the configuration GIVEN TO THE CALL marks with the PDS processor (here DE60 and DE61, while
    DE48 is plain text): sub-elements travel in them, the caller's own DE48 text is left alone, everything comes back"""
    E.merge_ifs = False
    install_bitarray_contracts(E)
    enc, cd = codec(E)
    v1 = encodable_text(E, 'pdsA', cd)
    E.assume(v1.n >= 0)
    E.assume(v1.n <= 900)
    plain = encodable_text(E, 'de48', cd)
    E.assume(plain.n >= 1)
    E.assume(plain.n <= 100)

    def ent(ftype, proc=None):
        d = {'field_name': lift('x'), 'field_type': lift(ftype), 'field_length': VInt(0)}
        if proc:
            d['field_processor'] = lift(proc)
        return E.new_dict(d)
    cfg = E.new_dict({'48': ent('LLLVAR'), '60': ent('LLLVAR', 'PDS'), '61': ent('LLLVAR', 'PDS')})
    msg = E.new_dict({'MTI': lift('1144'), 'DE48': plain, 'PDS0023': v1})
    tag = 'dumps+loads[PDS,custom carriers]'
    try:
        out = E.call(Q + 'dumps', msg, encoding=enc, iso_config=cfg)
        back = E.call(Q + 'loads', out, encoding=enc, iso_config=cfg)
    except PyRaise as pr:
        E.prove(tag + '/no-exception(%s)' % E.exc_name(pr.exc), False, 'P')
        return
    dv = E.getf(back, 'val')
    ents = MI.AssocDict.from_concrete(dv).entries if isinstance(dv, dict) else E.fix_len(dv.entries)
    if ents.clen() is None:
        E.prove(tag + '/entry-count-determined', False, 'I')
        return
    got = {}
    for i in range(ents.clen()):
        kv = ents.at(z3.IntVal(i))
        got[conc_str(kv.items[0])] = kv.items[1]
    E.prove(tag + '/keys=original+the-configured-carrier', z3.BoolVal(set(got) == {'MTI', 'DE48', 'PDS0023', 'DE60'}), 'P')
    if 'DE48' in got:
        E.prove_value_eq(tag + '/callers-DE48-text-unchanged', got['DE48'], plain, 'P')
    if 'PDS0023' in got:
        E.prove_value_eq(tag + '/PDS0023-unchanged', got['PDS0023'], v1, 'P')
