"""Spec vocabulary (DESIGN section 5): spec functions written from the documented formats / the property
statements, never from the code."""
import z3
from pyvc.values import *
from pyvc.models import SIGMA, sigma_of


# ---------------------------------------------------------------- Luhn (C15)
def luhn_g(w, x):
    """contribution of digit x with weight w: sum of the decimal digits of w*x"""
    return (w * x) / 10 + (w * x) % 10


def luhn_w(i):
    """weights from the right: 2 for the rightmost payload digit, then 1, 2, 1 ..."""
    return z3.If(i % 2 == 0, 2, 1)


def luhn_sum(E, D, n):
    """LS(D) = Σ_{i<n} g(w(i), D[n-1-i]) ; D maps index term -> digit value term"""
    return sigma_of(E, lambda i: luhn_g(luhn_w(i), D(n - 1 - i)), n)


def luhn_cd(E, D, n):
    return (9 * luhn_sum(E, D, n)) % 10
