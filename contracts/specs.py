"""Spec vocabulary (DESIGN section 5): spec functions written from the documented formats / the property
statements, never from the code."""
import z3
from pyvc.values import *
from pyvc.models import SIGMA, sigma_of


# ---------------------------------------------------------------- Luhn (C15)
def luhn_g(w, x):
    """contribution of digit x with weight w: sum of the decimal digits of w*x"""
    return (w * x) / 10 + (w * x) % 10


def luhn_w(i):
    """weights from the right: 2 for the rightmost payload digit, then 1, 2, 1 ..."""
    return z3.If(i % 2 == 0, 2, 1)


def luhn_sum(E, D, n):
    """LS(D) = Σ_{i<n} g(w(i), D[n-1-i]) ; D maps index term -> digit value term"""
    return sigma_of(E, lambda i: luhn_g(luhn_w(i), D(n - 1 - i)), n)


def luhn_cd(E, D, n):
    return (9 * luhn_sum(E, D, n)) % 10


# ---------------------------------------------------------------- 1014 blocking (C03-C05, C09, C11, C17)
PAD = 0x40


def phys(i):
    """position in the blocked image of payload byte i"""
    return i + 2 * (i / 1012)


def plen(L):
    """payload bytes contained in the first L bytes of a blocked image (cut anywhere)"""
    m = L % 1014
    return 1012 * (L / 1014) + z3.If(m < 1012, m, 1012)


def BLK(d, total):
    """blocked image of payload stream d cut after `total` bytes: payload bytes in place, 0x40 0x40 after every 1012"""
    def at(p, d=d):
        pp = I(p)
        return z3.If(pp % 1014 < 1012, I(d.at(pp - 2 * (pp / 1014))), PAD)
    return VSeq('bytes', total, at, tag='BLK')


def PAYLOAD(c):
    """what unblocking delivers from file content c (any length, also cut short)"""
    return VSeq('bytes', plen(c.n), lambda i, c=c: c.at(phys(I(i))), tag='PAYLOAD')


def with_fill(d, r):
    """d followed by r bytes of 0x40"""
    n = d.n
    return VSeq('bytes', n + r, lambda i, d=d, n=n: z3.If(I(i) < n, I(d.at(i)), PAD), tag='FILLED')


def be32(v):
    """4-byte big-endian rendering of 0 <= v < 2**32"""
    return seq_items('bytes', [(v / 256 ** (3 - k)) % 256 for k in range(4)])


def be32_value(s, q):
    """integer encoded by the four bytes of s at offset q"""
    return ((I(s.at(q)) * 256 + I(s.at(q + 1))) * 256 + I(s.at(q + 2))) * 256 + I(s.at(q + 3))
