"""Spec-level lemmas proved by explicit induction (base + step obligations), DESIGN 4.3.

Luhn (C15): the contract of validate_check_digit (rejects iff last digit != Luhn digit of the rest) is connected to the
error-detection clauses of the statement: every single-digit substitution and every adjacent transposition of different
digits other than 0/9 of a valid number is invalid.  All lengths: the sums are over arrays of symbolic length."""
import z3
from pyvc.runner import unit
from pyvc.values import *
from pyvc.models import SIGMA

A = z3.ArraySort(z3.IntSort(), z3.IntSort())


def g(w, x):
    return (w * x) / 10 + (w * x) % 10


def w_total(i):
    """weight of the digit i places from the right in the whole number (check digit: 1)"""
    return z3.If(i % 2 == 0, 1, 2)


def unfold(f, n):
    return [SIGMA(f, 0) == 0, z3.Implies(n >= 0, SIGMA(f, n + 1) == SIGMA(f, n) + z3.Select(f, n))]


def point_update(f, q, v, n):
    return SIGMA(z3.Store(f, q, v), n) == SIGMA(f, n) + z3.If(z3.And(q >= 0, q < n), v - z3.Select(f, q), 0)


@unit('luhn/sum-point-update (induction)', props=['C15'], functions=[])
def u_pu(E):
    f = z3.Const('f', A)
    q, v, n = z3.Ints('q v n')
    gq = z3.Store(f, q, v)
    for fact in unfold(f, z3.IntVal(0)) + unfold(gq, z3.IntVal(0)):
        E.fact(fact)
    E.prove('sum-point-update/base', point_update(f, q, v, z3.IntVal(0)), 'P', 'lemma')
    E.assume(n >= 0)
    for fact in unfold(f, n) + unfold(gq, n):
        E.fact(fact)
    E.assume(point_update(f, q, v, n))          # induction hypothesis
    E.prove('sum-point-update/step', point_update(f, q, v, n + 1), 'P', 'lemma')


@unit('luhn/check-digit-shift (induction)', props=['C15'], functions=[])
def u_shift(E):
    """total sum over the whole number = check digit + Luhn sum of the payload (weights shift by one place)"""
    f = z3.Const('f', A)
    c, m = z3.Ints('c m')
    i = z3.Int('i')
    t = z3.Lambda([i], z3.If(i == 0, c, z3.Select(f, i - 1)))
    stmt = lambda k: SIGMA(t, k + 1) == c + SIGMA(f, k)
    for fact in unfold(t, z3.IntVal(0)) + unfold(f, z3.IntVal(0)):
        E.fact(fact)
    E.prove('check-digit-shift/base', stmt(z3.IntVal(0)), 'P', 'lemma')
    E.assume(m >= 0)
    for fact in unfold(t, m + 1) + unfold(f, m):
        E.fact(fact)
    E.assume(stmt(m))
    E.prove('check-digit-shift/step', stmt(m + 1), 'P', 'lemma')
    E.prove('check-digit-shift/weights-line-up', z3.Implies(i >= 0, w_total(i + 1) == z3.If(i % 2 == 0, 2, 1)), 'P', 'lemma')


@unit('luhn/valid-forms', props=['C15'], functions=[])
def u_forms(E):
    """last digit = (9 * LS) mod 10   iff   (LS + last digit) mod 10 = 0   (what validate_check_digit's contract says)"""
    LS, c = z3.Ints('LS c')
    E.assume(z3.And(c >= 0, c <= 9, LS >= 0))
    E.prove('valid-forms', (c == (9 * LS) % 10) == ((LS + c) % 10 == 0), 'P', 'lemma')


@unit('luhn/single-substitution-detected', props=['C15'], functions=[])
def u_subst(E):
    t = z3.Const('t', A)            # contribution of each digit of a valid number, indexed from the right
    n, q, x, x2 = z3.Ints('n q x x2')
    E.assume(z3.And(n >= 1, q >= 0, q < n))
    E.assume(z3.And(x >= 0, x <= 9, x2 >= 0, x2 <= 9, x != x2))
    E.assume(z3.Select(t, q) == g(w_total(q), x))
    E.assume(SIGMA(t, n) % 10 == 0)                                   # valid
    v = g(w_total(q), x2)
    E.fact(point_update(t, q, v, n))                                  # lemma instance (proved above for all f, q, v, n)
    E.prove('single-substitution/contribution-injective-mod-10', (g(w_total(q), x) - v) % 10 != 0, 'P', 'lemma')
    E.prove('single-substitution/rejected', SIGMA(z3.Store(t, q, v), n) % 10 != 0, 'P', 'lemma')


@unit('luhn/adjacent-transposition-detected', props=['C15'], functions=[])
def u_transp(E):
    t = z3.Const('t', A)
    n, q, a, b = z3.Ints('n q a b')
    E.assume(z3.And(n >= 2, q >= 0, q + 1 < n))
    E.assume(z3.And(a >= 0, a <= 9, b >= 0, b <= 9, a != b))
    E.assume(z3.Not(z3.Or(z3.And(a == 0, b == 9), z3.And(a == 9, b == 0))))
    E.assume(z3.Select(t, q) == g(w_total(q), a))
    E.assume(z3.Select(t, q + 1) == g(w_total(q + 1), b))
    E.assume(SIGMA(t, n) % 10 == 0)
    t1 = z3.Store(t, q, g(w_total(q), b))
    t2 = z3.Store(t1, q + 1, g(w_total(q + 1), a))
    E.fact(point_update(t, q, g(w_total(q), b), n))
    E.fact(point_update(t1, q + 1, g(w_total(q + 1), a), n))
    E.prove('adjacent-transposition/rejected', SIGMA(t2, n) % 10 != 0, 'P', 'lemma')
    # and the 0/9 exception is real (the statement excludes it for a reason): witness
    E.prove('adjacent-transposition/0-9-exception-is-the-only-one',
            z3.Implies(z3.And(a >= 0, a <= 9, b >= 0, b <= 9, a != b, (g(2, a) + g(1, b)) % 10 == (g(2, b) + g(1, a)) % 10),
                       z3.Or(z3.And(a == 0, b == 9), z3.And(a == 9, b == 0))), 'P', 'lemma')
