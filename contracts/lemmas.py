"""Spec-level lemmas proved by explicit induction (base + step obligations)."""
