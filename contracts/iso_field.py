"""Field-level contracts for cardutil/iso8583.py: _field_to_iso8583, _iso8583_to_field and their helpers
(C02 layout, C08 framing, C07 exception sets, C16 masking on decode, C01 field round trip)."""
import z3
from pyvc.runner import unit
from pyvc.values import *
from pyvc.engine import PyRaise
from pyvc import models_iso as MI
from pyvc.models import POW10

Q = 'cardutil.iso8583.'
ERR = Q + 'Iso8583DataError'
LS = {'FIXED': 0, 'LLVAR': 2, 'LLLVAR': 3}


def codec(E, label='E'):
    name = MI.abstract_codec_name(E, label)
    return name, MI.codec_of(E, name)


def cfg_dict(E, ftype, flen, ptype=None, proc=None, datefmt=None, proc_cfg=None):
    d = {'field_name': lift('x'), 'field_type': lift(ftype), 'field_length': flen if isinstance(flen, V) else VInt(flen)}
    if ptype:
        d['field_python_type'] = lift(ptype)
    if proc:
        d['field_processor'] = lift(proc)
    if datefmt:
        d['field_date_format'] = lift(datefmt)
    if proc_cfg:
        d['field_processor_config'] = lift(proc_cfg)
    return E.new_dict(d)


def encodable_text(E, name, cd):
    """arbitrary text every character of which the chosen codec can encode"""
    return E.fresh_seq('str', name, elem_fact=lambda e, i: cd.ENCODABLE(e))


def call_field_encode(E, cfg, v, enc):
    return E.call(Q + '_field_to_iso8583', cfg, v, encoding=enc)


def expect_lib_error(E, tag, pr, tier='P'):
    E.prove(tag + '/only-the-library-error-escapes(%s)' % E.exc_name(pr.exc), z3.BoolVal(E.exc_is(pr.exc, ERR)), tier, 'xpost')


# =============================================================================== encode (C02)
def mk_enc_var_text(ftype):
    ls = LS[ftype]

    @unit('_field_to_iso8583[%s,text]' % ftype, props=['C02', 'C01'], functions=[Q + '_field_to_iso8583', Q + '_pytype_to_string', Q + '_get_field_length'])
    def u(E):
        enc, cd = codec(E)
        v = encodable_text(E, 'v', cd)
        cfg = cfg_dict(E, ftype, 0)
        n = v.n
        E.native_input({'kind': 'encode', 'ftype': ftype, 'len': VInt(n)})
        tag = '_field_to_iso8583[%s,text]' % ftype
        E.cover(tag + '/pre')
        try:
            out = call_field_encode(E, cfg, v, enc)
        except PyRaise as pr:
            expect_lib_error(E, tag, pr)
            E.prove(tag + '/refuses-only-what-the-prefix-cannot-count', n >= POW10[ls], 'P', 'xpost')
            return
        E.prove(tag + '/over-length-value-refused', n <= POW10[ls] - 1, 'P')
        E.prove(tag + '/length=prefix+value', out.n == ls + n, 'P')
        for k in range(ls):
            E.prove(tag + '/prefix-digit-%d' % k, I(out.at(z3.IntVal(k))) == cd.ENC(48 + (n / POW10[ls - 1 - k]) % 10), 'P')
        j = E.fresh_int('j')
        E.assume(j >= 0)
        E.assume(j < n)
        E.prove(tag + '/body-is-the-text-in-the-chosen-encoding', I(out.at(ls + j)) == cd.ENC(I(v.at(j))), 'P')
    return u


def mk_enc_var_bytes(ftype):
    ls = LS[ftype]

    @unit('_field_to_iso8583[%s,binary]' % ftype, props=['C02', 'C01'], functions=[Q + '_field_to_iso8583'])
    def u(E):
        enc, cd = codec(E)
        v = E.fresh_seq('bytes', 'v')
        cfg = cfg_dict(E, ftype, 255, proc='ICC')
        n = v.n
        tag = '_field_to_iso8583[%s,binary]' % ftype
        try:
            out = call_field_encode(E, cfg, v, enc)
        except PyRaise as pr:
            expect_lib_error(E, tag, pr)
            E.prove(tag + '/refuses-only-what-the-prefix-cannot-count', n >= POW10[ls], 'P', 'xpost')
            return
        E.prove(tag + '/over-length-value-refused', n <= POW10[ls] - 1, 'P')
        E.prove(tag + '/length=prefix+value', out.n == ls + n, 'P')
        for k in range(ls):
            E.prove(tag + '/prefix-digit-%d' % k, I(out.at(z3.IntVal(k))) == cd.ENC(48 + (n / POW10[ls - 1 - k]) % 10), 'P')
        j = E.fresh_int('j')
        E.assume(j >= 0)
        E.assume(j < n)
        E.prove(tag + '/binary-data-untouched', I(out.at(ls + j)) == I(v.at(j)), 'P')
    return u


for _t in ('LLVAR', 'LLLVAR'):
    mk_enc_var_text(_t)
    mk_enc_var_bytes(_t)


@unit('_field_to_iso8583[FIXED,text]', props=['C02', 'C01'], functions=[Q + '_field_to_iso8583', Q + '_pytype_to_string', Q + '_get_field_length'])
def u_enc_fixed_text(E):
    enc, cd = codec(E)
    v = encodable_text(E, 'v', cd)
    W = E.fresh_int('W')
    E.assume(W >= 1)
    cfg = cfg_dict(E, 'FIXED', VInt(W))
    tag = '_field_to_iso8583[FIXED,text]'
    E.native_input({'kind': 'encode', 'ftype': 'FIXED', 'len': VInt(v.n), 'W': VInt(W)})
    try:
        out = call_field_encode(E, cfg, v, enc)
    except PyRaise as pr:
        E.prove(tag + '/no-exception(%s)' % E.exc_name(pr.exc), False, 'P', 'xpost')
        return
    E.prove(tag + '/exactly-the-field-width', out.n == W, 'P')
    k = E.fresh_int('k')
    E.assume(k >= 0)
    E.assume(k < W)
    E.prove(tag + '/left-justified-space-padded', I(out.at(k)) == cd.ENC(z3.If(k < v.n, I(v.at(k)), 32)), 'P')


def mk_enc_fixed_int(W, ptype):
    @unit('_field_to_iso8583[FIXED,%s,width=%d]' % (ptype, W), props=['C02', 'C01'], functions=[Q + '_field_to_iso8583', Q + '_pytype_to_string'])
    def u(E):
        enc, cd = codec(E)
        v = E.fresh_int('v')
        E.assume(v >= 0)
        E.assume(v < POW10[W])
        cfg = cfg_dict(E, 'FIXED', W, ptype=ptype)
        tag = '_field_to_iso8583[FIXED,%s,%d]' % (ptype, W)
        try:
            out = call_field_encode(E, cfg, VInt(v), enc)
        except PyRaise as pr:
            E.prove(tag + '/no-exception(%s)' % E.exc_name(pr.exc), False, 'P', 'xpost')
            return
        E.prove(tag + '/exactly-the-field-width', out.n == W, 'P')
        for k in range(W):
            E.prove(tag + '/zero-padded-digit-%d' % k, I(out.at(z3.IntVal(k))) == cd.ENC(48 + (v / POW10[W - 1 - k]) % 10), 'P')
    return u


for _W in (4, 8, 12):
    mk_enc_fixed_int(_W, 'long' if _W != 4 else 'int')


@unit('_field_to_iso8583[FIXED,datetime]', props=['C02', 'C01'], functions=[Q + '_field_to_iso8583', Q + '_pytype_to_string'])
def u_enc_datetime(E):
    enc, cd = codec(E)
    fmt = '%y%m%d%H%M%S'
    dt = z3.Const('dt', MI.DT)
    cfg = cfg_dict(E, 'FIXED', 12, ptype='datetime', datefmt=fmt)
    tag = '_field_to_iso8583[FIXED,datetime]'
    try:
        out = call_field_encode(E, cfg, VOpaque('datetime', dt), enc)
    except PyRaise as pr:
        E.prove(tag + '/no-exception(%s)' % E.exc_name(pr.exc), False, 'P', 'xpost')
        return
    want = MI.strftime_seq(E, dt, fmt)
    E.prove(tag + '/exactly-the-field-width', out.n == 12, 'P')
    for k in range(12):
        E.prove(tag + '/date-digit-%d-in-the-configured-format' % k, I(out.at(z3.IntVal(k))) == cd.ENC(I(want.at(z3.IntVal(k)))), 'P')


# =============================================================================== decode (C07, C08, C16)
SHAPES = [
    # (name, ftype, W, ptype, proc, datefmt, proc_cfg)
    ('FIXED,text', 'FIXED', None, None, None, None, None),
    ('LLVAR,text', 'LLVAR', 0, None, None, None, None),
    ('LLLVAR,text', 'LLLVAR', 0, None, None, None, None),
    ('FIXED,int', 'FIXED', 12, 'int', None, None, None),
    ('FIXED,long', 'FIXED', 8, 'long', None, None, None),
    ('LLVAR,int', 'LLVAR', 0, 'int', None, None, None),
    ('FIXED,decimal', 'FIXED', 12, 'decimal', None, None, None),
    ('FIXED,datetime', 'FIXED', 12, 'datetime', None, '%y%m%d%H%M%S', None),
    ('LLVAR,PAN', 'LLVAR', 0, None, 'PAN', None, None),
    ('LLLVAR,PAN', 'LLLVAR', 0, None, 'PAN', None, None),
    ('LLVAR,PAN-PREFIX', 'LLVAR', 0, None, 'PAN-PREFIX', None, None),
    # `"field_python_type": "string"` is the documented explicit spelling of a text element: masking applies all the same
    ('LLVAR,PAN,explicit string type', 'LLVAR', 0, 'string', 'PAN', None, None),
    ('LLVAR,PAN-PREFIX,explicit string type', 'LLVAR', 0, 'string', 'PAN-PREFIX', None, None),
    ('LLVAR,text,explicit string type', 'LLVAR', 0, 'string', None, None, None),
    ('LLLVAR,PDS', 'LLLVAR', 0, None, 'PDS', None, None),
    ('LLLVAR,ICC', 'LLLVAR', 255, None, 'ICC', None, None),
    ('LLVAR,DE43', 'LLVAR', 0, None, 'DE43', None, r'(?P<DE43_NAME>.+?) *\\(?P<DE43_ADDRESS>.+?) *\\(?P<DE43_SUBURB>.+?) *\\(?P<DE43_POSTCODE>.{10})(?P<DE43_STATE>.{3})(?P<DE43_COUNTRY>.{3})'),
]


def decode_field(E, shape, data, enc, bit=2):
    name, ftype, W, ptype, proc, datefmt, pcfg = shape
    if W is None:
        W = E.fresh_int('W')
        E.assume(W >= 1)
        Wv = VInt(W)
    else:
        Wv = VInt(W)
    cfg = cfg_dict(E, ftype, Wv, ptype=ptype, proc=proc, datefmt=datefmt, proc_cfg=pcfg)
    return cfg, Wv.t, E.call(Q + '_iso8583_to_field', VInt(bit), cfg, data, enc)


def result_parts(E, res):
    """(dict ref, increment term) of a normal return, or None"""
    if not (isinstance(res, VTuple) and len(res.items) == 2):
        return None
    d, inc = res.items
    if not (isinstance(d, VRef) and E.kind_of(d) == 'dict' and isinstance(inc, VInt)):
        return None
    return d, inc.t


def dict_entries(E, d):
    """concrete-key view of a result dict; for a dict that also carries symbolic-key entries (PDSxxxx / TAGxxxx) only
    the leading concrete entries are returned, the rest is reachable through '<derived>'"""
    dv = E.getf(d, 'val')
    if isinstance(dv, dict):
        return dict(dv)
    out = {}
    ents = dv.entries
    k = 0
    while True:
        if bool_lit(ents.n > k) is not True and E.decide(ents.n > k) is not True:
            break
        kv = ents.at(z3.IntVal(k))
        if not isinstance(kv, VTuple):
            break
        key = conc_str(kv.items[0]) if isinstance(kv.items[0], VSeq) else None
        if key is None:
            break
        out[key] = kv.items[1]
        k += 1
        if k > 8:
            break
    # ... and trailing concrete-key entries (stored after a symbolic number of derived ones)
    back = 1
    while back <= 8:
        idx = z3.simplify(ents.n - back)
        if E.decide(idx >= k) is not True:
            break
        try:
            kv = ents.at(idx)
        except Unsupported:
            break
        if not isinstance(kv, VTuple) or not isinstance(kv.items[0], VSeq) or conc_str(kv.items[0]) is None:
            break
        out.setdefault(conc_str(kv.items[0]), kv.items[1])
        back += 1
    out['<derived>'] = seq_slice(ents, z3.IntVal(k), None)
    return out


def mk_dec_total(shape):
    name, ftype, W0, ptype, proc, datefmt, pcfg = shape
    ls = LS[ftype]

    @unit('_iso8583_to_field[%s]/total-contract' % name, props=['C07', 'C08'] + (['C16'] if proc in ('PAN', 'PAN-PREFIX') else []),
          functions=[Q + '_iso8583_to_field', Q + '_get_field_length', Q + '_string_to_pytype', Q + '_pan_prefix', 'cardutil.card.mask', Q + '_get_de43_fields']
          + ([Q + '_pds_to_dict'] if proc == 'PDS' else []) + ([Q + '_icc_to_dict'] if proc == 'ICC' else []))
    def u(E):
        enc, cd = codec(E)
        data = E.fresh_seq('bytes', 'data')          # ANY bytes of ANY length
        tag = '_iso8583_to_field[%s]' % name
        if proc in ('PDS', 'ICC'):
            from .iso_pds import install_walker_specs
            install_walker_specs(E)
        E.native_input({'kind': 'decode-field', 'shape': name, 'data': data})
        E.cover(tag + '/pre')
        try:
            cfg, W, res = decode_field(E, shape, data, enc)
        except PyRaise as pr:
            expect_lib_error(E, tag, pr)
            return
        rp = result_parts(E, res)
        if rp is None:
            E.prove(tag + '/returns-(dict,increment)', False, 'P')
            return
        d, inc = rp
        E.cover(tag + '/returns')
        # ---- C08: the element occupies its prefix plus exactly the declared non-negative number of bytes
        L = inc - ls
        E.prove(tag + '/declared-length-non-negative', L >= 0, 'P')
        if ls == 0:
            E.prove(tag + '/fixed-width-consumed', inc == W, 'P')
        else:
            pd = [cd.DEC(I(data.at(z3.IntVal(k)))) for k in range(ls)]
            alldig = z3.And(data.n >= ls, *[z3.And(p >= 48, p <= 57) for p in pd])
            val = sum((pd[k] - 48) * POW10[ls - 1 - k] for k in range(ls))
            E.prove(tag + '/plain-digit-prefix-read-as-decimal-count', z3.Implies(alldig, L == val), 'P')
        ents = dict_entries(E, d)
        key = 'DE2'
        if ents is None or key not in ents:
            E.prove(tag + '/value-stored-under-its-element-key', False, 'P')
            return
        v = ents[key]
        if proc == 'ICC':
            if not (isinstance(v, VSeq) and v.kind == 'bytes'):
                E.prove(tag + '/value-is-bytes', False, 'P')
                return
            avail = z3.If(data.n - ls < 0, 0, data.n - ls)
            E.prove(tag + '/value-length', v.n == z3.If(L <= avail, L, avail), 'P')
            j = E.fresh_int('j')
            E.prove(tag + '/binary-value-is-its-own-bytes-untouched', z3.Implies(z3.And(j >= 0, j < v.n), I(v.at(j)) == I(data.at(ls + j))), 'P')
            return
        if ptype in (None, 'string') and proc in (None, 'DE43', 'PDS'):
            # value is the (decoded) content of its own bytes data[ls : ls+L]
            if not (isinstance(v, VSeq) and v.kind == 'str'):
                E.prove(tag + '/value-is-text', False, 'P')
                return
            avail = z3.If(data.n - ls < 0, 0, data.n - ls)
            E.prove(tag + '/value-length', v.n == z3.If(L <= avail, L, avail), 'P')
            j = E.fresh_int('j')
            E.prove(tag + '/value-is-content-of-its-own-bytes', z3.Implies(z3.And(j >= 0, j < v.n), I(v.at(j)) == cd.DEC(I(data.at(ls + j)))), 'P')
        if proc is None:
            E.prove(tag + '/no-other-entries', z3.BoolVal(set(ents) == {key}), 'P')
        if proc in ('PAN', 'PAN-PREFIX'):
            # ---- C16: only the masked value (or the first nine digits) is returned, under exactly one key
            E.prove(tag + '/exactly-one-entry', z3.BoolVal(set(ents) == {key}), 'P')
            if not (isinstance(v, VSeq) and v.kind == 'str'):
                E.prove(tag + '/value-is-text', False, 'P')
                return
            avail = z3.If(data.n - ls < 0, 0, data.n - ls)
            n = z3.If(L <= avail, L, avail)           # length of the clear value
            j = E.fresh_int('j')
            if proc == 'PAN':
                E.assume(n >= 10)
                E.prove(tag + '/masked-length', v.n == n, 'P')
                E.prove(tag + '/first6-last4-kept', z3.Implies(z3.And(j >= 0, j < n, z3.Or(j < 6, j >= n - 4)), I(v.at(j)) == cd.DEC(I(data.at(ls + j)))), 'P')
                E.prove(tag + '/no-middle-digit-survives', z3.Implies(z3.And(j >= 6, j < n - 4), I(v.at(j)) == 42), 'P')
            else:
                E.prove(tag + '/prefix-length', v.n == z3.If(n < 9, n, 9), 'P')
                E.prove(tag + '/first-nine-only', z3.Implies(z3.And(j >= 0, j < v.n), I(v.at(j)) == cd.DEC(I(data.at(ls + j)))), 'P')
    return u


for _s in SHAPES:
    mk_dec_total(_s)


# =============================================================================== field round trip (C01)
def mk_roundtrip_text(ftype, proc=None):
    ls = LS[ftype]
    nm = ftype + (',' + proc if proc else ',text')

    @unit('field-round-trip[%s]' % nm, props=['C01'] + (['C16'] if proc else []), functions=[Q + '_field_to_iso8583', Q + '_iso8583_to_field'])
    def u(E):
        enc, cd = codec(E)
        v = encodable_text(E, 'v', cd)
        rest = E.fresh_seq('bytes', 'rest')          # whatever follows in the message
        if ftype == 'FIXED':
            W = E.fresh_int('W')
            E.assume(W >= 1)
            E.assume(v.n == W)                         # well-formed: exactly the field width
            cfg = cfg_dict(E, ftype, VInt(W), proc=proc)
        else:
            E.assume(v.n >= (10 if proc == 'PAN' else 1))
            E.assume(v.n <= POW10[ls] - 1)
            cfg = cfg_dict(E, ftype, 0, proc=proc)
        tag = 'field-round-trip[%s]' % nm
        E.native_input({'kind': 'roundtrip-field', 'ftype': ftype, 'proc': proc, 'len': VInt(v.n)})
        try:
            out = call_field_encode(E, cfg, v, enc)
            res = E.call(Q + '_iso8583_to_field', VInt(2), cfg, seq_concat(out, rest), enc)
        except PyRaise as pr:
            E.prove(tag + '/no-exception(%s)' % E.exc_name(pr.exc), False, 'P')
            return
        rp = result_parts(E, res)
        if rp is None:
            E.prove(tag + '/returns-(dict,increment)', False, 'P')
            return
        d, inc = rp
        E.prove(tag + '/consumes-exactly-the-encoded-field', inc == out.n, 'P')
        ents = dict_entries(E, d)
        got = ents.get('DE2') if ents else None
        if not (isinstance(got, VSeq) and got.kind == 'str'):
            E.prove(tag + '/value-returned', False, 'P')
            return
        j = E.fresh_int('j')
        if proc == 'PAN':
            E.prove(tag + '/masked-length', got.n == v.n, 'P')
            E.prove(tag + '/masked-form', z3.Implies(z3.And(j >= 0, j < v.n), I(got.at(j)) == z3.If(z3.Or(j < 6, j >= v.n - 4), I(v.at(j)), 42)), 'P')
        elif proc == 'PAN-PREFIX':
            E.prove(tag + '/prefix-length', got.n == z3.If(v.n < 9, v.n, 9), 'P')
            E.prove(tag + '/prefix-form', z3.Implies(z3.And(j >= 0, j < got.n), I(got.at(j)) == I(v.at(j))), 'P')
        else:
            E.prove(tag + '/same-length', got.n == v.n, 'P')
            E.prove(tag + '/same-characters', z3.Implies(z3.And(j >= 0, j < v.n), I(got.at(j)) == I(v.at(j))), 'P')
    return u


for _t in ('FIXED', 'LLVAR', 'LLLVAR'):
    mk_roundtrip_text(_t)
for _p in ('PAN', 'PAN-PREFIX'):
    mk_roundtrip_text('LLVAR', _p)


def mk_roundtrip_int(W, ptype):
    @unit('field-round-trip[FIXED,%s,width=%d]' % (ptype, W), props=['C01'], functions=[Q + '_field_to_iso8583', Q + '_iso8583_to_field', Q + '_string_to_pytype', Q + '_pytype_to_string'])
    def u(E):
        enc, cd = codec(E)
        v = E.fresh_int('v')
        E.assume(v >= 0)
        E.assume(v < POW10[W])
        rest = E.fresh_seq('bytes', 'rest')
        cfg = cfg_dict(E, 'FIXED', W, ptype=ptype)
        tag = 'field-round-trip[FIXED,%s,%d]' % (ptype, W)
        try:
            out = call_field_encode(E, cfg, VInt(v), enc)
            res = E.call(Q + '_iso8583_to_field', VInt(2), cfg, seq_concat(out, rest), enc)
        except PyRaise as pr:
            E.prove(tag + '/no-exception(%s)' % E.exc_name(pr.exc), False, 'P')
            return
        rp = result_parts(E, res)
        if rp is None:
            E.prove(tag + '/returns-(dict,increment)', False, 'P')
            return
        d, inc = rp
        E.prove(tag + '/consumes-exactly-the-encoded-field', inc == W, 'P')
        got = (dict_entries(E, d) or {}).get('DE2')
        E.prove(tag + '/same-number', z3.BoolVal(False) if not isinstance(got, VInt) else got.t == v, 'P')
    return u


for _W in (4, 8, 12):
    mk_roundtrip_int(_W, 'long' if _W != 4 else 'int')


@unit('field-round-trip[FIXED,datetime]', props=['C01'], functions=[Q + '_field_to_iso8583', Q + '_iso8583_to_field', Q + '_string_to_pytype', Q + '_pytype_to_string'])
def u_rt_datetime(E):
    enc, cd = codec(E)
    fmt = '%y%m%d%H%M%S'
    dt = z3.Const('dt', MI.DT)
    REP = z3.Function('REPRESENTABLE[%s]' % fmt, MI.DT, z3.BoolSort())
    E.assume(REP(dt))
    rest = E.fresh_seq('bytes', 'rest')
    cfg = cfg_dict(E, 'FIXED', 12, ptype='datetime', datefmt=fmt)
    tag = 'field-round-trip[FIXED,datetime]'
    try:
        out = call_field_encode(E, cfg, VOpaque('datetime', dt), enc)
        res = E.call(Q + '_iso8583_to_field', VInt(2), cfg, seq_concat(out, rest), enc)
    except PyRaise as pr:
        E.prove(tag + '/no-exception(%s)' % E.exc_name(pr.exc), False, 'P')
        return
    rp = result_parts(E, res)
    if rp is None:
        E.prove(tag + '/returns-(dict,increment)', False, 'P')
        return
    d, inc = rp
    E.prove(tag + '/consumes-exactly-the-encoded-field', inc == 12, 'P')
    got = (dict_entries(E, d) or {}).get('DE2')
    E.prove(tag + '/same-datetime', z3.BoolVal(False) if not (isinstance(got, VOpaque) and got.sort_name == 'datetime') else got.t == dt, 'P')


# =============================================================================== C16: masking comes before any conversion
def mk_mask_before_conversion(proc, ptype):
    @unit('_iso8583_to_field[LLVAR,%s,%s]/conversion-sees-only-the-masked-value' % (proc, ptype), props=['C16'],
          functions=[Q + '_iso8583_to_field', Q + '_pan_prefix', 'cardutil.card.mask'])
    def u(E):
        """an element configured for masking AND for a python type: the type conversion (`_string_to_pytype`, by contract: any
        value or ValueError) is handed the masked value / the first nine characters, never the clear text, and what is
        returned under the element's key is that conversion's result -- so the clear PAN cannot come back as a number"""
        enc, cd = codec(E)
        data = E.fresh_seq('bytes', 'data')
        seen = []
        result = VInt(E.fresh_int('converted'))

        def conv(E2, args, kw):
            seen.append(args[0])
            if E.branch(E.fresh_bool('conversion_fails')):
                raise PyRaise(E.make_exc(ValueError, []))
            return result
        E.contracts[Q + '_string_to_pytype'] = conv
        cfg = cfg_dict(E, 'LLVAR', 0, ptype=ptype, proc=proc)
        tag = '_iso8583_to_field[LLVAR,%s,%s]' % (proc, ptype)
        try:
            out = E.call(Q + '_iso8583_to_field', VInt(2), cfg, data, enc)
        except PyRaise as pr:
            expect_lib_error(E, tag, pr)
            return
        E.prove(tag + '/converted-exactly-once', z3.BoolVal(len(seen) == 1), 'P')
        if len(seen) != 1:
            return
        v = seen[0]
        ok = isinstance(v, VSeq) and v.kind == 'str'
        E.prove(tag + '/conversion-input-is-text', z3.BoolVal(ok), 'P')
        if not ok:
            return
        L = (I(cd.DEC(I(data.at(z3.IntVal(0))))) - 48) * 10 + (I(cd.DEC(I(data.at(z3.IntVal(1))))) - 48)
        j = E.fresh_int('j')
        if proc == 'PAN':
            E.prove(tag + '/conversion-never-sees-a-middle-digit', z3.Implies(z3.And(v.n >= 10, j >= 6, j < v.n - 4), I(v.at(j)) == 42), 'P')
        else:
            E.prove(tag + '/conversion-sees-at-most-nine-characters', v.n <= 9, 'P')
        parts = result_parts(E, out)
        E.prove(tag + '/returns-(dict,increment)', z3.BoolVal(parts is not None), 'P')
        if parts is None:
            return
        ents = dict_entries(E, parts[0])
        got = ents.get('DE2')
        E.prove(tag + '/returned-value-is-the-conversion-result', z3.BoolVal(got is result), 'P')
        E.prove(tag + '/exactly-one-entry', z3.BoolVal(set(k for k in ents if not k.startswith('<')) == {'DE2'}), 'P')
    return u


for _p in ('PAN', 'PAN-PREFIX'):
    for _t in ('int', 'decimal'):
        mk_mask_before_conversion(_p, _t)
