"""Contracts for IpmParamReader (C18).  The VBS layer underneath is replaced by its contract (C03): the reader yields
the records RECS[0], RECS[1], ... of a ghost list of ANY length, then stops."""
import z3
from pyvc.runner import unit
from pyvc.values import *
from pyvc.engine import PyRaise
from pyvc import models_iso as MI
from .iso_field import codec

M = 'cardutil.mciipm.'
RLEN = z3.Function('PREC_LEN', z3.IntSort(), z3.IntSort())
RB = z3.Function('PREC_BYTE', z3.IntSort(), z3.IntSort(), z3.IntSort())


def rec(E, j):
    """record j of the ghost file: any non-empty byte string"""
    E.fact(RLEN(j) >= 1)

    def at(k, j=j):
        e = RB(j, I(k))
        E.fact(z3.And(e >= 0, e <= 255))
        return e
    return VSeq('bytes', RLEN(j), at)


def install_vbs_contract(E, nrecs):
    """VbsReader.__next__ as proved in mciipm_vbs: delivers the next whole record, or ends"""
    def apply_next(E, args, kw):
        self = args[0]
        idx = E.as_int(E.getf(self, '_g_idx'))
        if E.branch(idx < nrecs):
            E.setf(self, '_g_idx', VInt(z3.simplify(idx + 1)))
            return rec(E, idx)
        raise PyRaise(E.make_exc(StopIteration, []))
    E.contracts[M + 'VbsReader.__next__'] = apply_next

    def apply_init(E, args, kw):
        self = args[0]
        E.setf(self, 'vbs_data', args[1])
        E.setf(self, '_g_idx', VInt(0))
        E.ghost['vbs_init_kw'] = kw
        return NONE
    E.contracts[M + 'VbsReader.__init__'] = apply_init


def text_is(E, cd, r, lo, s):
    """record r decodes, at positions lo.., to the literal s"""
    return z3.And(r.n >= lo + len(s), *[cd.DEC(I(r.at(z3.IntVal(lo + k)))) == ord(c) for k, c in enumerate(s)])


def decodable(E, cd, r, upto):
    for k in range(upto):
        E.assume(z3.Implies(r.n > k, cd.DECODABLE(I(r.at(z3.IntVal(k))))))


# ---------------------------------------------------------------- __init__: index rows, trailer
def mk_init(n_index, trailer):
    @unit('IpmParamReader.__init__[%d index rows,%s]' % (n_index, 'trailer' if trailer else 'no trailer'), props=['C18'],
          functions=[M + 'IpmParamReader.__init__'])
    def u(E):
        enc, cd = codec(E)
        total = n_index + (1 if trailer else 0)
        nrecs = E.fresh_int('nrecs')
        E.assume(nrecs >= total if trailer else nrecs == total)
        install_vbs_contract(E, nrecs)
        recs = [rec(E, z3.IntVal(j)) for j in range(total)]
        for j in range(n_index):
            E.assume(text_is(E, cd, recs[j], 11, 'IP0000T1'))
            E.assume(recs[j].n >= 246)
            E.assume(z3.Not(text_is(E, cd, recs[j], 0, 'TRAILER RECORD IP0000T1')))
        if trailer:
            E.assume(text_is(E, cd, recs[n_index], 0, 'TRAILER RECORD IP0000T1'))
        f = E.new_file(seq_lit('bytes', b''), 0)
        cfg = E.new_dict({'IP0040T1': E.new_dict({'card_program_id': E.new_dict({'start': VInt(19), 'end': VInt(22)})})})
        tag = 'IpmParamReader.__init__[%d,%s]' % (n_index, 'trailer' if trailer else 'no trailer')
        E.native_input({'kind': 'param-init', 'n_index': n_index, 'trailer': trailer})
        try:
            rd = E.instantiate(E.program.classes[M + 'IpmParamReader'], [f, lift('IP0040T1')], {'encoding': enc, 'param_config': cfg, 'blocked': TRUE})
        except PyRaise as pr:
            if E.exc_is(pr.exc, UnicodeDecodeError):
                return          # undecodable index record: outside the property (text files)
            if trailer:
                E.prove(tag + '/accepted(%s)' % E.exc_name(pr.exc), False, 'P')
            else:
                E.prove(tag + '/file-without-index-trailer-refused-with-library-error', z3.BoolVal(E.exc_is(pr.exc, M + 'MciIpmDataError')), 'P', 'xpost')
            return
        if not trailer:
            E.prove(tag + '/file-without-index-trailer-refused', False, 'P')
            return
        E.prove(tag + '/consumed-up-to-and-including-the-trailer', E.as_int(E.getf(rd, '_g_idx')) == total, 'P')
        E.prove(tag + '/blocked-flag-passed-down', z3.BoolVal(E.ghost.get('vbs_init_kw', {}).get('blocked') is TRUE), 'P')
        ti = E.getf(rd, 'table_index')
        dv = E.getf(ti, 'val')
        ents = MI.AssocDict.from_concrete(dv).entries if isinstance(dv, dict) else E.fix_len(dv.entries)
        E.prove(tag + '/one-index-entry-per-index-row', ents.n == n_index, 'P')
        if ents.clen() == n_index:
            for j in range(n_index):
                kv = ents.at(z3.IntVal(j))
                key, val = kv.items
                ok = isinstance(key, VSeq) and isinstance(val, VSeq)
                E.prove(tag + '/entry-%d-shape' % j, z3.BoolVal(ok), 'P')
                if ok:
                    E.prove(tag + '/entry-%d-sub-id=row[243:246]' % j, z3.And(key.n == 3, *[I(key.at(z3.IntVal(k))) == cd.DEC(I(recs[j].at(z3.IntVal(243 + k)))) for k in range(3)]), 'P')
                    E.prove(tag + '/entry-%d-table-id=row[19:27]' % j, z3.And(val.n == 8, *[I(val.at(z3.IntVal(k))) == cd.DEC(I(recs[j].at(z3.IntVal(19 + k)))) for k in range(8)]), 'P')
    return u


for _n in (0, 1, 2):
    mk_init(_n, True)
mk_init(0, False)
mk_init(1, False)


# ---------------------------------------------------------------- __init__: ANY number of records before the trailer
NI = z3.Function('PIDX_COUNT', z3.IntSort(), z3.IntSort())        # number of index rows among records 0..j-1
IDXROW = z3.Function('PIDX_ROW', z3.IntSort(), z3.IntSort())      # record number of the k-th index row
POS = z3.Function('PIDX_POS', z3.IntSort(), z3.IntSort())         # position of index row q in the table index


class InitLoop:
    """`while True` in IpmParamReader.__init__: after j records (none of them the trailer) the table index is the association list
    [(row[243:246], row[19:27]) for the index rows among records 0..j-1, in file order]"""
    ghosts = ['j']
    terminates_by_exception_only = False

    def __init__(self, G):
        self.G = G

    def entry(self, ctx):
        return {'j': z3.IntVal(0)}

    def step(self, ctx, g):
        return {'j': g['j'] + 1}

    def side(self, ctx, g):
        G, j = self.G, g['j']
        q, k1, k2 = G['q'], G['k1'], G['k2']
        row_ok = lambda k: z3.Implies(z3.And(k >= 0, k < NI(j)), z3.And(IDXROW(k) >= 0, IDXROW(k) < j, G['isidx'](IDXROW(k))))
        return [j >= 0, j <= G['nrecs'], NI(j) >= 0, NI(j) <= j,
                z3.Implies(z3.And(q >= 0, q < j), z3.Not(G['trailer'](q))),
                z3.Implies(z3.And(q >= 0, q < j, G['isidx'](q)), z3.And(POS(q) >= 0, POS(q) < NI(j), IDXROW(POS(q)) == q)),
                row_ok(k1), row_ok(k2),
                z3.Implies(z3.And(k1 >= 0, k1 < k2, k2 < NI(j)), IDXROW(k1) < IDXROW(k2))]

    def facts(self, ctx, g):
        G, j = self.G, g['j']
        return [NI(0) == 0, NI(j + 1) == NI(j) + z3.If(G['isidx'](j), 1, 0),
                z3.Implies(G['isidx'](j), z3.And(IDXROW(NI(j)) == j, POS(j) == NI(j)))] + G['wf'](j)

    def state(self, ctx, g):
        G, j = self.G, g['j']
        return {'self._g_idx': VInt(j), 'self.table_index.val': MI.AssocDict(G['entries'](NI(j))), 'trailer_record_found': FALSE}

    def variant(self, ctx, g):
        return self.G['nrecs'] - g['j']


@unit('IpmParamReader.__init__/any-number-of-index-rows', props=['C18'], functions=[M + 'IpmParamReader.__init__'])
def u_init_any(E):
    enc, cd = codec(E)
    nrecs = E.fresh_int('nrecs')
    E.assume(nrecs >= 0)
    install_vbs_contract(E, nrecs)
    isidx = lambda j: text_is(E, cd, rec(E, j), 11, 'IP0000T1')
    trailer = lambda j: text_is(E, cd, rec(E, j), 0, 'TRAILER RECORD IP0000T1')
    # well-formed index rows carry the sub id at 243..245 (precondition of the property's `table index`)
    wf = lambda j: [z3.Implies(isidx(j), RLEN(j) >= 246)]

    def entry_of(r):
        key = seq_items('str', [cd.DEC(RB(r, z3.IntVal(243 + k))) for k in range(3)])
        val = seq_items('str', [cd.DEC(RB(r, z3.IntVal(19 + k))) for k in range(8)])
        return VTuple([key, val])
    entries = lambda n: VSeq('list', n, lambda k: entry_of(IDXROW(I(k))))
    q, k1, k2 = E.fresh_int('q'), E.fresh_int('k1'), E.fresh_int('k2')
    E.assume(NI(0) == 0)            # definition of the ghost counter
    for t in wf(q):
        E.assume(t)
    E.loop_specs[(M + 'IpmParamReader.__init__', 0)] = InitLoop({'nrecs': nrecs, 'isidx': isidx, 'trailer': trailer, 'wf': wf, 'entries': entries,
                                                                 'q': q, 'k1': k1, 'k2': k2})
    f = E.new_file(seq_lit('bytes', b''), 0)
    cfg = E.new_dict({'IP0040T1': E.new_dict({'card_program_id': E.new_dict({'start': VInt(19), 'end': VInt(22)})})})
    tag = 'IpmParamReader.__init__[any file]'
    E.native_input({'kind': 'param-init', 'n_index': 3, 'trailer': True})
    try:
        rd = E.instantiate(E.program.classes[M + 'IpmParamReader'], [f, lift('IP0040T1')], {'encoding': enc, 'param_config': cfg})
    except PyRaise as pr:
        if E.exc_is(pr.exc, UnicodeDecodeError):
            return          # undecodable record: outside the property (text files)
        E.prove(tag + '/refuses-only-with-the-library-error(%s)' % E.exc_name(pr.exc), z3.BoolVal(E.exc_is(pr.exc, M + 'MciIpmDataError')), 'P', 'xpost')
        E.prove(tag + '/refused-only-when-no-record-is-the-index-trailer', z3.Implies(z3.And(q >= 0, q < nrecs), z3.Not(trailer(q))), 'P', 'xpost')
        return
    t = E.as_int(E.getf(rd, '_g_idx')) - 1
    E.prove(tag + '/stops-at-a-trailer-record', z3.And(t >= 0, t < nrecs, trailer(t)), 'P')
    E.prove(tag + '/it-is-the-first-trailer-record', z3.Implies(z3.And(q >= 0, q < t), z3.Not(trailer(q))), 'P')
    dv = E.getf(E.getf(rd, 'table_index'), 'val')
    ok = isinstance(dv, MI.AssocDict)
    E.prove(tag + '/table-index-is-a-dict', z3.BoolVal(ok or isinstance(dv, dict)), 'P')
    if not ok:
        return
    ents = dv.entries
    # every entry is (sub id, table id) of an index row before the trailer; entries are in file order
    E.prove(tag + '/entry-k-comes-from-an-index-row-before-the-trailer', z3.Implies(z3.And(k1 >= 0, k1 < ents.n), z3.And(IDXROW(k1) >= 0, IDXROW(k1) < t, isidx(IDXROW(k1)))), 'P')
    E.assume(k1 >= 0)
    E.assume(k1 < ents.n)
    e1 = ents.at(k1)
    E.prove_value_eq(tag + '/entry-k=(row[243:246],row[19:27])', e1, entry_of(IDXROW(k1)), 'P')
    E.prove(tag + '/entries-in-file-order', z3.Implies(z3.And(k1 < k2, k2 < ents.n), IDXROW(k1) < IDXROW(k2)), 'P')
    # and every index row before the trailer has its entry
    E.prove(tag + '/every-index-row-before-the-trailer-is-entered', z3.Implies(z3.And(q >= 0, q < t, isidx(q)), z3.And(POS(q) >= 0, POS(q) < ents.n, IDXROW(POS(q)) == q)), 'P')


@unit('IpmParamReader.__init__[table without configuration]', props=['C18'], functions=[M + 'IpmParamReader.__init__'])
def u_init_nocfg(E):
    enc, cd = codec(E)
    install_vbs_contract(E, E.fresh_int('nrecs'))
    f = E.new_file(seq_lit('bytes', b''), 0)
    cfg = E.new_dict({'IP0040T1': E.new_dict({})})
    for tid, c in (('IP9999T1', cfg), ('IP0040T1', cfg)):
        try:
            E.instantiate(E.program.classes[M + 'IpmParamReader'], [f, lift(tid)], {'encoding': enc, 'param_config': c})
            E.prove('IpmParamReader.__init__/table-%s-without-configuration-refused' % tid, False, 'P')
        except PyRaise as pr:
            E.prove('IpmParamReader.__init__/table-%s-without-configuration-refused' % tid, z3.BoolVal(E.exc_is(pr.exc, M + 'MciIpmDataError')), 'P', 'xpost')


def reader_fields(E, rd):
    """every field of the reader object except the ghost position of the VBS layer"""
    return {k: v for k, v in E.cell(rd).items() if not k.startswith('__') and k != '_g_idx'}


def prove_reader_frame(E, tag, rd, before):
    """__next__ changes nothing of the reader but its position in the file: the contract proved from an arbitrary position
    therefore holds for every later call too (a flag or cache set by one call would break exactly this).  A proof device,
    not a clause of the property (a harmless statistics counter would also trip it): I-tier, the stand-in decides"""
    after = reader_fields(E, rd)
    for k in sorted(set(before) | set(after)):
        if k not in before or k not in after:
            E.prove('%s/reader-state-besides-position-unchanged/%s' % (tag, k), False, 'I', 'frame')
        else:
            E.prove('%s/reader-state-besides-position-unchanged/%s' % (tag, k), z3.BoolVal(after[k] is before[k]), 'I', 'frame')


# ---------------------------------------------------------------- __next__: rows of the requested table, exact columns
class NextLoop:
    """`while True` in IpmParamReader.__next__: ghost j = next record; q = an arbitrary skipped record (skolem)"""
    ghosts = ['j']
    terminates_by_exception_only = True

    def __init__(self, G):
        self.G = G

    def entry(self, ctx):
        return {'j': self.G['j0']}

    def step(self, ctx, g):
        return {'j': g['j'] + 1}

    def side(self, ctx, g):
        j, q = g['j'], self.G['q']
        return [j >= self.G['j0'], j <= self.G['nrecs'],
                z3.Implies(z3.And(q >= self.G['j0'], q < j), z3.Not(self.G['match'](q)))]

    def state(self, ctx, g):
        return {'self._g_idx': VInt(g['j'])}

    variant = None


def mk_next(expanded, generated):
    @unit('IpmParamReader.__next__[%s,%s layout]' % ('expanded' if expanded else 'compressed', 'generated' if generated else 'packaged IP0006T1'),
          props=['C18'], functions=[M + 'IpmParamReader.__next__', M + 'IpmParamReader._get_param_field'])
    def u(E):
        enc, cd = codec(E)
        nrecs = E.fresh_int('nrecs')
        j0 = E.fresh_int('j0')
        E.assume(j0 >= 0)
        E.assume(j0 <= nrecs)
        install_vbs_contract(E, nrecs)
        tid = 'IP0006T1'
        if generated:
            s1, e1 = E.fresh_int('start'), E.fresh_int('end')
            E.assume(s1 >= 19)
            E.assume(e1 >= s1)
            layout = {'colA': (s1, e1), 'colB': (z3.IntVal(19), z3.IntVal(22))}
        else:
            pc = E.lookup_global('config', E.program.modules['cardutil.config'])
            tabs = E.dict_get(pc, lift('mci_parameter_tables'), strict=True)
            t6 = E.getf(E.dict_get(tabs, lift(tid), strict=True), 'val')
            layout = {k: (E.as_int(E.getf(v, 'val')['start']), E.as_int(E.getf(v, 'val')['end'])) for k, v in t6.items()}
        cfg = E.new_dict({tid: E.new_dict({k: E.new_dict({'start': VInt(a), 'end': VInt(b)}) for k, (a, b) in layout.items()}),
                          'IP0040T1': E.new_dict({'x': E.new_dict({'start': VInt(19), 'end': VInt(20)})})})
        # table index: two sub ids (symbolic, distinct), one of them mapped to the requested table
        subA = E.fresh_seq('str', 'subA')
        subB = E.fresh_seq('str', 'subB')
        for s_ in (subA, subB):
            E.assume(s_.n == 3)
        subA, subB = E.fix_len(subA), E.fix_len(subB)
        E.assume(z3.Not(seq_eq_bool(subA, subB)))
        tindex = E.new_dict({})
        E.dict_set(tindex, subA, lift(tid))
        E.dict_set(tindex, subB, lift('IP0040T1'))
        off = 0 if expanded else -8

        def table_of(j):
            r = rec(E, j)
            if expanded:
                return text_is(E, cd, r, 11, tid)
            key_is_A = z3.And(r.n >= 11, *[cd.DEC(I(r.at(z3.IntVal(8 + k)))) == I(subA.at(z3.IntVal(k))) for k in range(3)])
            return key_is_A
        q = E.fresh_int('q')
        f = E.new_file(seq_lit('bytes', b''), 0)
        rd = E.new_obj(M + 'IpmParamReader', {'encoding': enc, 'param_config': cfg, 'table_id': lift(tid), 'table_index': tindex,
                                              'expanded': VBool(expanded), 'vbs_data': f, '_g_idx': VInt(j0)})
        E.loop_specs[(M + 'IpmParamReader.__next__', 0)] = NextLoop({'j0': j0, 'nrecs': nrecs, 'q': q, 'match': table_of})
        tag = 'IpmParamReader.__next__[%s,%s]' % ('expanded' if expanded else 'compressed', 'generated' if generated else 'IP0006T1')
        E.native_input({'kind': 'param-next', 'expanded': expanded})
        before = reader_fields(E, rd)
        try:
            out = E.method(rd, '__next__')
        except PyRaise as pr:
            if E.exc_is(pr.exc, UnicodeDecodeError):
                return
            E.prove(tag + '/ends-only-by-StopIteration(%s)' % E.exc_name(pr.exc), z3.BoolVal(E.exc_is(pr.exc, StopIteration)), 'P', 'xpost')
            # no row of the requested table was skipped on the way to the end of the file
            E.prove(tag + '/no-row-of-the-requested-table-left-behind', z3.Implies(z3.And(q >= j0, q < nrecs), z3.Not(table_of(q))), 'P', 'xpost')
            return
        j = E.as_int(E.getf(rd, '_g_idx')) - 1          # the record that was returned
        r = rec(E, j)
        prove_reader_frame(E, tag, rd, before)
        E.prove(tag + '/returned-row-belongs-to-the-requested-table', table_of(j), 'P')
        E.prove(tag + '/rows-in-file-order-none-skipped', z3.Implies(z3.And(q >= j0, q < j), z3.Not(table_of(q))), 'P')
        dv = E.getf(out, 'val')
        if not isinstance(dv, dict):
            E.prove(tag + '/returns-plain-dict', False, 'P')
            return
        E.prove(tag + '/columns', z3.BoolVal(set(dv) == {'table_id', 'effective_timestamp', 'active_inactive_code'} | set(layout)), 'P')

        def slice_is(name, v, lo, hi):
            if not (isinstance(v, VSeq) and v.kind == 'str'):
                E.prove('%s/%s-is-text' % (tag, name), False, 'P')
                return
            lo_, hi_ = I(lo), I(hi)
            a = z3.If(lo_ > r.n, r.n, lo_)
            b = z3.If(hi_ > r.n, r.n, hi_)
            E.prove('%s/%s-length' % (tag, name), v.n == z3.If(b - a < 0, 0, b - a), 'P')
            k = E.fresh_int('k')
            E.prove('%s/%s=configured-character-positions-of-the-row' % (tag, name), z3.Implies(z3.And(k >= 0, k < v.n), I(v.at(k)) == cd.DEC(I(r.at(a + k)))), 'P')
        if 'effective_timestamp' in dv:
            slice_is('effective_timestamp', dv['effective_timestamp'], 0, 10 if expanded else 7)
        if 'active_inactive_code' in dv:
            slice_is('active_inactive_code', dv['active_inactive_code'], 10 if expanded else 7, 11 if expanded else 8)
        for name, (a, b) in layout.items():
            if name in dv:
                slice_is(name, dv[name], a + off, b + off)
        E.prove(tag + '/table_id', z3.BoolVal(isinstance(dv.get('table_id'), VSeq) and conc_str(dv['table_id']) == tid) if conc_str(dv.get('table_id')) is not None
                else seq_eq_bool(dv['table_id'], lift(tid)), 'P')
    return u


for _x in (True, False):
    for _g in (False, True):
        mk_next(_x, _g)


# ---------------------------------------------------------------- __next__ over ANY table index (compressed rows)
KI = z3.Function('PIDX_KEYCHAR', z3.IntSort(), z3.IntSort(), z3.IntSort())
VI = z3.Function('PIDX_VALCHAR', z3.IntSort(), z3.IntSort(), z3.IntSort())
LOOK = z3.Function('PIDX_LOOKUP', z3.IntSort(), z3.IntSort())     # index entry that the dict lookup of row j's sub id yields, or -1


@unit('IpmParamReader.__next__[compressed, any table index]', props=['C18'], functions=[M + 'IpmParamReader.__next__', M + 'IpmParamReader._get_param_field'])
def u_next_any_index(E):
    """the table index is an association list of ANY length (as IpmParamReader.__init__ leaves it, see the unit above):
    a row belongs to table T iff the dict lookup of its sub id (last entry with that key) names T"""
    enc, cd = codec(E)
    nrecs, j0, n = E.fresh_int('nrecs'), E.fresh_int('j0'), E.fresh_int('n_index')
    E.assume(z3.And(j0 >= 0, j0 <= nrecs, n >= 0))
    install_vbs_contract(E, nrecs)
    tid = 'IP0006T1'
    s1, e1 = E.fresh_int('start'), E.fresh_int('end')
    E.assume(s1 >= 19)
    E.assume(e1 >= s1)
    layout = {'colA': (s1, e1)}
    cfg = E.new_dict({tid: E.new_dict({k: E.new_dict({'start': VInt(a), 'end': VInt(b)}) for k, (a, b) in layout.items()})})
    key_of = lambda k: seq_items('str', [KI(I(k), z3.IntVal(c)) for c in range(3)])
    val_of = lambda k: seq_items('str', [VI(I(k), z3.IntVal(c)) for c in range(8)])
    entries = VSeq('list', n, lambda k: VTuple([key_of(k), val_of(k)]))
    tindex = E.new_dict({})
    E.setf(tindex, 'val', MI.AssocDict(entries))

    def key_eq(k, j):
        r = rec(E, j)
        return z3.And(r.n >= 11, *[KI(k, z3.IntVal(c)) == cd.DEC(I(r.at(z3.IntVal(8 + c)))) for c in range(3)])

    def look_axiom(j, inst):
        L = LOOK(j)
        return z3.Or(z3.And(L == -1, *[z3.Not(z3.And(q >= 0, q < n, key_eq(q, j))) for q in inst]),
                     z3.And(L >= 0, L < n, key_eq(L, j), *[z3.Implies(z3.And(q > L, q < n), z3.Not(key_eq(q, j))) for q in inst]))

    def belongs(j):
        L = LOOK(j)
        return z3.And(L >= 0, *[VI(L, z3.IntVal(c)) == ord(ch) for c, ch in enumerate(tid)])
    q = E.fresh_int('q')

    class Loop(NextLoop):
        def facts(self, ctx, g):
            j = g['j']
            ctx.E.ghost['assoc_inst'] = [LOOK(j)]
            ctx.E.ghost['assoc_on_hit'] = [lambda m, found, key, j=j: [look_axiom(j, [m])]]
            return [look_axiom(j, [])]
    f = E.new_file(seq_lit('bytes', b''), 0)
    rd = E.new_obj(M + 'IpmParamReader', {'encoding': enc, 'param_config': cfg, 'table_id': lift(tid), 'table_index': tindex,
                                          'expanded': FALSE, 'vbs_data': f, '_g_idx': VInt(j0)})
    E.loop_specs[(M + 'IpmParamReader.__next__', 0)] = Loop({'j0': j0, 'nrecs': nrecs, 'q': q, 'match': belongs})
    tag = 'IpmParamReader.__next__[compressed, any index]'
    E.native_input({'kind': 'param-next', 'expanded': False})
    before = reader_fields(E, rd)
    try:
        out = E.method(rd, '__next__')
    except PyRaise as pr:
        if E.exc_is(pr.exc, UnicodeDecodeError):
            return
        E.prove(tag + '/ends-only-by-StopIteration(%s)' % E.exc_name(pr.exc), z3.BoolVal(E.exc_is(pr.exc, StopIteration)), 'P', 'xpost')
        E.prove(tag + '/no-row-of-the-requested-table-left-behind', z3.Implies(z3.And(q >= j0, q < nrecs), z3.Not(belongs(q))), 'P', 'xpost')
        return
    j = E.as_int(E.getf(rd, '_g_idx')) - 1
    r = rec(E, j)
    prove_reader_frame(E, tag, rd, before)
    E.prove(tag + '/returned-row-belongs-to-the-requested-table', belongs(j), 'P')
    E.prove(tag + '/rows-in-file-order-none-skipped', z3.Implies(z3.And(q >= j0, q < j), z3.Not(belongs(q))), 'P')
    dv = E.getf(out, 'val')
    if not isinstance(dv, dict):
        E.prove(tag + '/returns-plain-dict', False, 'P')
        return
    E.prove(tag + '/columns', z3.BoolVal(set(dv) == {'table_id', 'effective_timestamp', 'active_inactive_code'} | set(layout)), 'P')
    for name, (lo, hi) in [('effective_timestamp', (0, 7)), ('active_inactive_code', (7, 8)), ('colA', (s1 - 8, e1 - 8))]:
        v = dv.get(name)
        if not (isinstance(v, VSeq) and v.kind == 'str'):
            E.prove('%s/%s-is-text' % (tag, name), False, 'P')
            continue
        lo_, hi_ = I(lo), I(hi)
        a = z3.If(lo_ > r.n, r.n, lo_)
        b = z3.If(hi_ > r.n, r.n, hi_)
        E.prove('%s/%s-length' % (tag, name), v.n == z3.If(b - a < 0, 0, b - a), 'P')
        k = E.fresh_int('k')
        E.prove('%s/%s=configured-character-positions-of-the-row' % (tag, name), z3.Implies(z3.And(k >= 0, k < v.n), I(v.at(k)) == cd.DEC(I(r.at(a + k)))), 'P')


@unit('compressed-vs-expanded/lemma', props=['C18'], functions=[M + 'IpmParamReader._get_param_field'])
def u_comp_exp(E):
    """the documented relation between the two representations (expanded row = compressed row with 8 more characters
    in front of position 11) makes every configured column agree"""
    Cc = E.fresh_seq('str', 'compressed_row')
    X = E.fresh_seq('str', 'expanded_row')
    s, e = E.fresh_int('start'), E.fresh_int('end')
    E.assume(s >= 19)
    E.assume(e >= s)
    E.assume(X.n == Cc.n + 8)
    k = E.fresh_int('k')
    i = s - 8 + k
    E.assume(z3.Implies(z3.And(i >= 11, i < Cc.n), I(Cc.at(i)) == I(X.at(i + 8))))      # instance of C[11+i] = X[19+i]
    a = seq_slice(Cc, s - 8, e - 8, E.decide)
    b = seq_slice(X, s, e, E.decide)
    E.prove('compressed-vs-expanded/same-length', a.n == b.n, 'P', 'lemma')
    E.prove('compressed-vs-expanded/same-characters', z3.Implies(z3.And(k >= 0, k < a.n), I(a.at(k)) == I(b.at(k))), 'P', 'lemma')
