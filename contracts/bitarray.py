"""Contracts for cardutil/BitArray.py.  The class is verified in the bit-vector domain (16-byte bitmaps, the only size
any caller passes - a pre@call obligation at each call site); integer-domain callers use the arithmetic rendering of the
same contract, connected by a finite bridge lemma."""
import z3
from pyvc.runner import unit
from pyvc.values import *
from pyvc.engine import PyRaise

BA = 'cardutil.BitArray.BitArray'


def bit_of_byte_int(byte, k):
    """bit k (0 = most significant) of an integer byte value, arithmetic form"""
    return (I(byte) / (2 ** (7 - k))) % 2 == 1


@unit('BitArray.tolist/post', props=['C01', 'C02', 'C06', 'C07', 'C08', 'C10', 'C12', 'C16', 'C17', 'C19', 'C20'], functions=[BA + '.tolist', BA + '.frombytes', BA + '.__init__'])
def u_tolist(E):
    """bit 8j+k of the list is bit (7-k) of byte j - most significant bit first (ISO 8583 bit 1 = first bit of first byte)"""
    ba = E.instantiate(E.program.classes[BA], [], {})
    bs = seq_items('bytes', [z3.BitVec('b%d' % k, 8) for k in range(16)])
    E.method(ba, 'frombytes', bs)
    out = E.list_val(E.method(ba, 'tolist'))
    E.prove('BitArray.tolist/128-bits', out.n == 128, 'P')
    if out.clen() != 128:
        return
    conj = []
    for i in range(128):
        v = out.at(z3.IntVal(i))
        if not isinstance(v, VBool):
            E.prove('BitArray.tolist/elements-are-bool', False, 'P')
            return
        conj.append(v.t == (z3.Extract(7 - i % 8, 7 - i % 8, bs.items[i // 8]) == 1))
    E.prove('BitArray.tolist/bit-order-msb-first', z3.And(*conj), 'P')


@unit('BitArray.fromlist/post', props=['C01', 'C02', 'C06', 'C12', 'C19', 'C20'], functions=[BA + '.fromlist', BA + '.tobytes'])
def u_fromlist(E):
    ba = E.instantiate(E.program.classes[BA], [], {})
    bits = [z3.Bool('x%d' % k) for k in range(128)]
    E.method(ba, 'fromlist', E.new_list(seq_items('list', [VBool(b) for b in bits])))
    out = E.fix_len(E.method(ba, 'tobytes'))
    E.prove('BitArray.fromlist/16-bytes', out.n == 16, 'P')
    if out.clen() != 16:
        return
    conj = []
    for j in range(16):
        want = z3.Concat(*[z3.If(bits[8 * j + k], z3.BitVecVal(1, 1), z3.BitVecVal(0, 1)) for k in range(8)])
        e = out.at(z3.IntVal(j))
        if not (z3.is_expr(e) and z3.is_bv(e)):
            E.prove('BitArray.fromlist/bytes', False, 'P')
            return
        conj.append(e == want)
    E.prove('BitArray.fromlist/bit-order-msb-first', z3.And(*conj), 'P')


@unit('BitArray/bridge-lemma', props=['C01', 'C02', 'C06', 'C07', 'C08', 'C10', 'C12', 'C16', 'C17', 'C19', 'C20'], functions=[])
def u_bridge(E):
    """the arithmetic rendering used by integer-domain callers is the same byte: value = sum of bit_k * 2^(7-k)"""
    x = z3.BitVec('x', 8)
    v = z3.BV2Int(x)
    conj = [((v / (2 ** (7 - k))) % 2 == 1) == (z3.Extract(7 - k, 7 - k, x) == 1) for k in range(8)]
    E.prove('bridge/bit-k-of-byte', z3.And(*conj), 'P', 'lemma')
    E.prove('bridge/byte-from-bits', v == sum(z3.If(z3.Extract(7 - k, 7 - k, x) == 1, 2 ** (7 - k), 0) for k in range(8)), 'P', 'lemma')


@unit('_get_bitmap_list/post', props=['C01', 'C02', 'C06', 'C07', 'C08', 'C10', 'C12', 'C16', 'C17', 'C19', 'C20'], functions=['cardutil.iso8583._get_bitmap_list', BA + '.tolist', BA + '.frombytes', BA + '.__init__'])
def u_get_bitmap_list(E):
    """element b (1..128) of the list is bit b of the 16-byte bitmap, most significant bit of the first byte = bit 1, for
    EVERY bitmap (bit 1 is an ordinary bit: it does not switch elements 65..128 on or off); element 0 is the bitmap itself"""
    bs = seq_items('bytes', [z3.BitVec('b%d' % k, 8) for k in range(16)])
    out = E.list_val(E.call('cardutil.iso8583._get_bitmap_list', bs))
    E.prove('_get_bitmap_list/129-entries', out.n == 129, 'P')
    out = E.fix_len(out)
    if out.clen() != 129:
        return
    E.prove('_get_bitmap_list/entry-0-is-the-bitmap', z3.BoolVal(out.at(z3.IntVal(0)) is bs), 'I')
    conj = []
    for b in range(1, 129):
        v = out.at(z3.IntVal(b))
        if not isinstance(v, VBool):
            E.prove('_get_bitmap_list/entries-are-bool', False, 'P')
            return
        conj.append(v.t == (z3.Extract(7 - (b - 1) % 8, 7 - (b - 1) % 8, bs.items[(b - 1) // 8]) == 1))
    E.prove('_get_bitmap_list/entry-b-is-bit-b-msb-first-for-every-bitmap', z3.And(*conj), 'P')


def install_bitarray_contracts(E):
    """integer-domain rendering of BitArray.tolist / fromlist (proved above in the bit-vector domain + bridge lemma)"""
    def apply_tolist(E, args, kw):
        self = args[0]
        bs = E.getf(self, 'bytes') if 'bytes' in E.cell(self) else None
        ok = isinstance(bs, VSeq) and bs.kind == 'bytes'
        E.prove('pre@call BitArray.tolist/bitmap-is-bytes', z3.BoolVal(ok), 'I', 'pre@call')
        if not ok:
            raise Unsupported('BitArray.tolist on %r' % (bs,))
        E.prove('pre@call BitArray.tolist/16-byte-bitmap', bs.n == 16, 'I', 'pre@call')
        endian = E.getf(self, 'endian') if 'endian' in E.cell(self) else lift('big')
        E.prove('pre@call BitArray.tolist/big-endian', z3.BoolVal(conc_str(endian) == 'big'), 'I', 'pre@call')
        return E.new_list(seq_items('list', [VBool(z3.simplify(bit_of_byte_int(bs.at(z3.IntVal(i // 8)), i % 8))) for i in range(128)]))

    def apply_fromlist(E, args, kw):
        self, lst = args[0], E.fix_len(E.list_val(args[1]))
        E.prove('pre@call BitArray.fromlist/128-flags', lst.n == 128, 'I', 'pre@call')
        if lst.clen() != 128:
            raise Unsupported('BitArray.fromlist on a list of unknown length')
        ts = [E.truth(lst.at(z3.IntVal(i))) for i in range(128)]
        out = []
        for j in range(16):
            out.append(z3.simplify(sum(z3.If(ts[8 * j + k], 2 ** (7 - k), 0) for k in range(8))))
        E.setf(self, 'bytes', seq_items('bytes', out))
        return NONE
    E.contracts[BA + '.tolist'] = apply_tolist
    E.contracts[BA + '.fromlist'] = apply_fromlist
