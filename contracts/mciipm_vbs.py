"""Contracts for VbsWriter / VbsReader / IpmReader / IpmWriter and the list/bytes convenience functions
(C03, C06-plumbing, C09, C10, C11)."""
import z3
from pyvc.runner import unit
from pyvc.values import *
from pyvc.engine import PyRaise
from . import specs as S
from .mciipm_block import (M, blk_side, blk_len, blocker_state, finalised_clauses, unb_side, unblocker_state)

I8 = 'cardutil.iso8583.'


def fld(E, ref, name):
    """field of a heap object, or None when the (possibly edited) code does not set it"""
    try:
        return E.cell(ref).get(name)
    except Exception:
        return None


def max_len(E):
    """config.config['MAX_VBS_RECORD_LENGTH'] as read from the tree"""
    cfg = E.lookup_global('config', E.program.modules['cardutil.config'])
    v = E.dict_get(cfg, lift('MAX_VBS_RECORD_LENGTH'), strict=False, default=VInt(6000))
    return E.as_int(v)


# ---------------------------------------------------------------- contracts applied at call sites

def install_blocker_contracts(E):
    """Block1014.write as seen by its callers: ghost data' = data ++ b, invariant re-established
    (what Block1014.write/preserves-inv proves).  pre@call: the blocker satisfies its invariant."""
    def apply_write(E, args, kw):
        self, b = args[0], args[1]
        data = E.getf(self, '_g_data')
        r = E.as_int(E.getf(self, 'remaining_chars'))
        f = E.getf(self, 'file_obj')
        E.prove('pre@call Block1014.write/arg-is-bytes', z3.BoolVal(isinstance(b, VSeq) and b.kind == 'bytes'), 'I', 'pre@call')
        E.prove('pre@call Block1014.write/pos-at-end', E.as_int(E.getf(f, 'pos')) == E.getf(f, 'content').n, 'I', 'pre@call')
        E.prove_value_eq('pre@call Block1014.write/file=BLK(data)', E.getf(f, 'content'), S.BLK(data, blk_len(data.n, r)), 'I', 'pre@call')
        data2 = seq_concat(data, b)
        r2 = E.fresh_int('r_after')
        for c in blk_side(data2.n, r2):
            E.assume(c)
        total = blk_len(data2.n, r2)
        E.setf(f, 'content', S.BLK(data2, total))
        E.setf(f, 'pos', VInt(total))
        E.setf(self, 'remaining_chars', VInt(r2))
        E.setf(self, '_g_data', data2)
        return NONE
    E.contracts[M + 'Block1014.write'] = apply_write


def ghost_blocker(E, data, r):
    b, f = blocker_state(E, data, r)
    E.setf(b, '_g_data', data)
    return b, f


# ---------------------------------------------------------------- VbsWriter

def writer_state(E, blocked, cls='VbsWriter', extra=None):
    """a writer in an arbitrary reachable state: `stream` = all bytes handed to the sink so far"""
    stream = E.fresh_seq('bytes', 'stream')
    if blocked:
        r = E.fresh_int('r')
        for c in blk_side(stream.n, r):
            E.assume(c)
        E.assume(z3.Implies(r == 0, stream.n >= 2024))
        sink, f = ghost_blocker(E, stream, r)
    else:
        f = E.new_file(stream, stream.n)
        sink = f
        r = None
    fields = {'out_file': sink, '_finalised': FALSE}
    fields.update(extra or {})
    w = E.new_obj(M + cls, fields)
    return w, sink, f, stream, r


def written_stream(E, sink, f, blocked):
    return E.getf(sink, '_g_data') if blocked else E.getf(f, 'content')


def vbswriter_write_unit(E, blocked):
    w, sink, f, stream, r = writer_state(E, blocked)
    if blocked:
        install_blocker_contracts(E)
    rec = E.fresh_seq('bytes', 'record')
    E.assume(rec.n >= 1)
    E.assume(rec.n <= max_len(E))
    E.native_input({'kind': 'roundtrip1', 'prefix': VInt(stream.n), 'reclen': VInt(rec.n), 'blocked': blocked})
    E.cover('VbsWriter.write/pre')
    E.method(w, 'write', rec)
    tag = 'VbsWriter.write[%s]' % ('1014' if blocked else 'vbs')
    want = seq_concat(seq_concat(stream, S.be32(rec.n)), rec)
    E.prove_value_eq(tag + '/stream=old++be32(len)++record', written_stream(E, sink, f, blocked), want, 'P')
    if not blocked:
        E.prove(tag + '/pos-at-end', E.as_int(E.getf(f, 'pos')) == want.n, 'I')


@unit('VbsWriter.write[vbs]/post', props=['C03', 'C06'], functions=[M + 'VbsWriter.write'])
def u_w_write_v(E):
    vbswriter_write_unit(E, False)


@unit('VbsWriter.write[1014]/post', props=['C03', 'C06'], functions=[M + 'VbsWriter.write'])
def u_w_write_b(E):
    vbswriter_write_unit(E, True)


def vbswriter_close_unit(E, blocked, how='close'):
    w, sink, f, stream, r = writer_state(E, blocked)
    E.native_input({'kind': 'close', 'prefix': VInt(stream.n), 'blocked': blocked, 'how': [how]})
    E.cover('VbsWriter.%s/pre' % how)
    if how == 'close':
        E.method(w, 'close')
    else:
        E.method(w, '__exit__', NONE, NONE, NONE)
    tag = 'VbsWriter.%s[%s]' % (how, '1014' if blocked else 'vbs')
    closed = seq_concat(stream, S.be32(z3.IntVal(0)))
    content = E.getf(f, 'content')
    if blocked:
        finalised_clauses(E, tag, content, closed)
    else:
        E.prove_value_eq(tag + '/file=stream++zero-length', content, closed, 'P')
    E.prove(tag + '/file-rewound', E.as_int(E.getf(f, 'pos')) == 0, 'P')
    return w, sink, f, stream, content


@unit('VbsWriter.close[vbs]/post', props=['C03', 'C11', 'C06'], functions=[M + 'VbsWriter.close'])
def u_w_close_v(E):
    vbswriter_close_unit(E, False)


@unit('VbsWriter.close[1014]/post', props=['C03', 'C11', 'C06'], functions=[M + 'VbsWriter.close', M + 'Block1014.write', M + 'Block1014.seek', M + 'Block1014.finalise'])
def u_w_close_b(E):
    vbswriter_close_unit(E, True)


@unit('VbsWriter.__exit__[vbs]/post', props=['C11'], functions=[M + 'VbsWriter.__exit__', M + 'VbsWriter.close'])
def u_w_exit_v(E):
    vbswriter_close_unit(E, False, 'exit')


@unit('VbsWriter.__exit__[1014]/post', props=['C11'], functions=[M + 'VbsWriter.__exit__', M + 'VbsWriter.close'])
def u_w_exit_b(E):
    vbswriter_close_unit(E, True, 'exit')


def state_fingerprint(E, refs):
    """all fields of the given heap objects (for `nothing changed` obligations)"""
    out = {}
    for name, ref in refs.items():
        for fld, val in E.cell(ref).items():
            if fld.startswith('__') or fld.startswith('_g_'):
                continue
            out['%s.%s' % (name, fld)] = val
    return out


def refinalise_unit(E, blocked, first, second):
    """C11: after one finalisation, any further finalisation changes nothing (so by induction any
    combination close/exit of any length leaves the file as the first one completed it)"""
    w, sink, f, stream, r = writer_state(E, blocked)
    E.native_input({'kind': 'close', 'prefix': VInt(stream.n), 'blocked': blocked, 'how': [first, second]})

    def fin(kind):
        if kind == 'close':
            E.method(w, 'close')
        else:
            E.method(w, '__exit__', NONE, NONE, NONE)
    fin(first)
    refs = {'file': f, 'writer': w}
    if blocked:
        refs['blocker'] = sink
    before = state_fingerprint(E, refs)
    E.cover('refinalise/after-first')
    fin(second)
    after = state_fingerprint(E, refs)
    tag = 'refinalise[%s,%s,%s]' % ('1014' if blocked else 'vbs', first, second)
    E.prove_value_eq(tag + '/file-content-not-overwritten-or-appended', after['file.content'], before['file.content'], 'P')
    for k in sorted(set(before) | set(after)):
        if k == 'file.content':
            continue
        if k not in before or k not in after:
            E.prove('%s/state-unchanged/%s' % (tag, k), False, 'I')
        else:
            E.prove_value_eq('%s/state-unchanged/%s' % (tag, k), after[k], before[k], 'P' if k == 'file.pos' else 'I')


for _b in (False, True):
    for _f in ('close', 'exit'):
        for _s in ('close', 'exit'):
            def _mk(b=_b, f=_f, s=_s):
                def u(E):
                    refinalise_unit(E, b, f, s)
                return u
            unit('VbsWriter.refinalise[%s,%s,%s]' % ('1014' if _b else 'vbs', _f, _s), props=['C11'],
                 functions=[M + 'VbsWriter.close', M + 'VbsWriter.__exit__'])(_mk())


@unit('VbsWriter.__init__+__enter__', props=['C03', 'C11', 'C06'], functions=[M + 'VbsWriter.__init__', M + 'VbsWriter.__enter__', M + 'Block1014.__init__'])
def u_w_init(E):
    for blocked in (False, True):
        f = E.new_file(seq_lit('bytes', b''), 0)
        w = E.instantiate(E.program.classes[M + 'VbsWriter'], [f], {'blocked': VBool(blocked)})
        sink = E.getf(w, 'out_file')
        tag = 'VbsWriter.__init__[%s]' % ('1014' if blocked else 'vbs')
        if blocked:
            ok = isinstance(sink, VRef) and E.kind_of(sink) == 'obj' and E.cell(sink)['__class__'].qualname == M + 'Block1014'
            E.prove(tag + '/sink-is-blocker', z3.BoolVal(ok), 'I')
            if ok:
                E.prove(tag + '/blocker-wraps-file', z3.BoolVal(E.getf(sink, 'file_obj').oid == f.oid), 'I')
                E.prove(tag + '/blocker-fresh', E.as_int(E.getf(sink, 'remaining_chars')) == 1012, 'I')
        else:
            E.prove(tag + '/sink-is-file', z3.BoolVal(isinstance(sink, VRef) and sink.oid == f.oid), 'I')
        E.prove(tag + '/nothing-written', E.getf(f, 'content').n == 0, 'I')
        e = E.method(w, '__enter__')
        E.prove(tag + '/enter-returns-self', z3.BoolVal(isinstance(e, VRef) and e.oid == w.oid), 'I')
        # a fresh writer is not yet finalised: closing it once must write the terminator
        E.method(w, 'close')
        E.prove(tag + '/fresh-writer-close-finalises', E.getf(f, 'content').n >= 4, 'P')


# ---------------------------------------------------------------- VbsReader

def reader_state(E, cls='VbsReader', extra=None):
    """reader over an arbitrary byte stream S at an arbitrary offset q with record counter k"""
    Sx = E.fresh_seq('bytes', 'S')
    q = E.fresh_int('q')
    k = E.fresh_int('k')
    E.assume(q >= 0)
    E.assume(q <= Sx.n)
    E.assume(k >= 1)
    f = E.new_file(Sx, q)
    fields = {'vbs_data': f, 'record_number': VInt(k)}
    fields.update(extra or {})
    rd = E.new_obj(M + cls, fields)
    return rd, f, Sx, q, k


def exc_field(E, exc, name):
    try:
        return E.getattr_value(exc, name)
    except PyRaise:
        return None


def vbsreader_next_checks(E, tag, rd, f, Sx, q, k, call, tier='P'):
    """the TOTAL contract of VbsReader.__next__ on any stream (DESIGN C03): used by C03, C05, C07, C09, C10"""
    MAX = max_len(E)
    left = Sx.n - q
    L = S.be32_value(Sx, q)
    try:
        rec = call()
    except PyRaise as pr:
        if E.exc_is(pr.exc, StopIteration):
            E.cover(tag + '/stop')
            E.prove(tag + '/stops-only-at-end-or-zero-length', z3.Or(left < 4, L == 0), tier, 'xpost')
            return ('stop', None)
        if E.exc_is(pr.exc, M + 'MciIpmDataError'):
            E.cover(tag + '/error')
            E.prove(tag + '/error-only-for-bad-framing', z3.And(left >= 4, z3.Or(L > MAX, q + 4 + L > Sx.n)), tier, 'xpost')
            rn = exc_field(E, pr.exc, 'record_number')
            ctx = exc_field(E, pr.exc, 'binary_context_data')
            E.prove(tag + '/error-carries-this-record-number', z3.BoolVal(isinstance(rn, VInt)) if not isinstance(rn, VInt) else rn.t == k, tier, 'xpost')
            if isinstance(ctx, VSeq) and ctx.kind == 'bytes':
                want = z3.If(L > MAX, 4, Sx.n - q)
                E.prove(tag + '/error-context-is-the-bytes-read.len', ctx.n == want, tier, 'xpost')
                j = E.fresh_int('cj')
                E.prove(tag + '/error-context-is-the-bytes-read.elem', z3.Implies(z3.And(j >= 0, j < ctx.n), I(ctx.at(j)) == I(Sx.at(q + j))), tier, 'xpost')
            else:
                E.prove(tag + '/error-context-is-bytes', False, tier, 'xpost')
            return ('error', pr.exc)
        E.prove(tag + '/no-other-exception(%s)' % E.exc_name(pr.exc), False, tier, 'xpost')
        return ('other', pr.exc)
    E.cover(tag + '/record')
    if not (isinstance(rec, VSeq) and rec.kind == 'bytes'):
        return ('value', rec)
    E.prove(tag + '/record-only-if-wholly-present', z3.And(left >= 4, L >= 1, L <= MAX, q + 4 + L <= Sx.n), tier)
    E.prove(tag + '/record-length', rec.n == L, tier)
    j = E.fresh_int('rj')
    E.prove(tag + '/record-bytes-unaltered', z3.Implies(z3.And(j >= 0, j < rec.n), I(rec.at(j)) == I(Sx.at(q + 4 + j))), tier)
    E.prove(tag + '/offset-advances-past-record', E.as_int(E.getf(f, 'pos')) == q + 4 + L, tier)
    E.prove(tag + '/counter-incremented', E.as_int(E.getf(rd, 'record_number')) == k + 1, 'I')
    lr = E.getf(rd, 'last_record')
    if isinstance(lr, VSeq):
        E.prove_value_eq(tag + '/last_record=prefix+record', lr, seq_slice(Sx, q, q + 4 + L), 'I')
    else:
        E.prove(tag + '/last_record-set', False, 'I')
    return ('record', rec)


@unit('VbsReader.__next__/total-contract', props=['C03', 'C05', 'C07', 'C09', 'C10', 'C06'], functions=[M + 'VbsReader.__next__', 'cardutil.CardutilError.__init__'])
def u_r_next(E):
    rd, f, Sx, q, k = reader_state(E)
    E.native_input({'kind': 'stream', 'S': Sx, 'q': VInt(q)})
    E.cover('VbsReader.__next__/pre')
    kind, v = vbsreader_next_checks(E, 'VbsReader.__next__', rd, f, Sx, q, k, lambda: E.method(rd, '__next__'))
    if kind in ('stop', 'error'):
        E.prove_value_eq('VbsReader.__next__/counter-unchanged-on-%s' % kind, E.getf(rd, 'record_number'), VInt(k), 'I')
    E.prove_value_eq('VbsReader.__next__/frame/stream-untouched', E.getf(f, 'content'), Sx, 'I', 'frame')


@unit('VbsReader.__next__/termination', props=['C07'], functions=[M + 'VbsReader.__next__'])
def u_r_progress(E):
    """every delivered record consumes at least 5 bytes of a finite stream: iteration ends after at most len/5 records"""
    rd, f, Sx, q, k = reader_state(E)
    try:
        E.method(rd, '__next__')
    except PyRaise:
        return
    E.prove('VbsReader.__next__/progress', E.as_int(E.getf(f, 'pos')) >= q + 5, 'P', 'variant')
    E.prove('VbsReader.__next__/within-stream', E.as_int(E.getf(f, 'pos')) <= Sx.n, 'P', 'variant')


@unit('VbsReader.__init__+__iter__', props=['C03', 'C05', 'C06', 'C10', 'C09'], functions=[M + 'VbsReader.__init__', M + 'VbsReader.__iter__', M + 'Unblock1014.__init__'])
def u_r_init(E):
    C = E.fresh_seq('bytes', 'C')
    for blocked in (False, True):
        f = E.new_file(C, 0)
        rd = E.instantiate(E.program.classes[M + 'VbsReader'], [f], {'blocked': VBool(blocked)})
        src = E.getf(rd, 'vbs_data')
        tag = 'VbsReader.__init__[%s]' % ('1014' if blocked else 'vbs')
        if blocked:
            ok = isinstance(src, VRef) and E.kind_of(src) == 'obj' and E.cell(src)['__class__'].qualname == M + 'Unblock1014'
            E.prove(tag + '/source-is-unblocker', z3.BoolVal(ok), 'P')
            if ok:
                E.prove(tag + '/unblocker-wraps-file', z3.BoolVal(E.getf(src, 'file_obj').oid == f.oid), 'I')
                E.prove(tag + '/unblocker-empty', E.getf(src, 'buffer').n == 0, 'I')
        else:
            E.prove(tag + '/source-is-file', z3.BoolVal(isinstance(src, VRef) and src.oid == f.oid), 'P')
        E.prove(tag + '/first-record-is-number-1', E.as_int(E.getattr_value(rd, 'record_number')) == 1, 'P')
        it = E.method(rd, '__iter__')
        E.prove(tag + '/iter-returns-self', z3.BoolVal(isinstance(it, VRef) and it.oid == rd.oid), 'I')
    # starting a for-loop on a reader that has already delivered records must not disturb its position or its record counter
    rd2, f2, S2, q2, k2 = reader_state(E)
    before = state_fingerprint(E, {'reader': rd2, 'file': f2})
    E.method(rd2, '__iter__')
    after = state_fingerprint(E, {'reader': rd2, 'file': f2})
    for key in sorted(set(before) | set(after)):
        if key not in before or key not in after:
            # a new attribute is not, by itself, a change of the reader's observable position
            continue
        E.prove_value_eq('VbsReader.__iter__/leaves-state-unchanged/%s' % key, after[key], before[key], 'P')


def install_unblocker_contract(E):
    """Unblock1014.read(k), k >= 1, as proved in Unblock1014.read(k)/post: the next slice of PAYLOAD(C);
    ghost fields on the unblocker: _g_C (file content), _g_d (bytes delivered)"""
    def apply_read(E, args, kw):
        self = args[0]
        if len(args) < 2:
            raise Unsupported('contract covers read(k) only')
        k = E.as_int(args[1])
        E.prove('pre@call Unblock1014.read/k>=1', k >= 1, 'I', 'pre@call')
        C = E.getf(self, '_g_C')
        d = E.as_int(E.getf(self, '_g_d'))
        P = S.PAYLOAD(C)
        out = seq_slice(P, d, d + k, E.decide)
        E.setf(self, '_g_d', VInt(z3.simplify(d + out.n)))
        return out
    E.contracts[M + 'Unblock1014.read'] = apply_read


@unit('VbsReader.__next__[1014]/same-as-unblocked-stream', props=['C05', 'C03', 'C09', 'C06'], functions=[M + 'VbsReader.__next__', M + 'Unblock1014.read'])
def u_r_next_blocked(E):
    """record reading from a blocked file = record reading from the payload stream (interface refinement)"""
    C = E.fresh_seq('bytes', 'C')
    d = E.fresh_int('d')
    k = E.fresh_int('k')
    E.assume(d >= 0)
    E.assume(d <= S.plen(C.n))
    E.assume(k >= 1)
    install_unblocker_contract(E)
    u = E.new_obj(M + 'Unblock1014', {'_g_C': C, '_g_d': VInt(d)})
    rd = E.new_obj(M + 'VbsReader', {'vbs_data': u, 'record_number': VInt(k)})
    P = S.PAYLOAD(C)

    class PosView:          # the unblocker's delivered-count plays the role of the stream offset
        pass
    fake = E.new_cell({'__kind__': 'ghost', 'pos': VInt(d)})

    def call():
        try:
            return E.method(rd, '__next__')
        finally:
            E.setf(fake, 'pos', E.getf(u, '_g_d'))
    E.native_input({'kind': 'blocked-stream', 'C': C, 'd': VInt(d)})
    vbsreader_next_checks(E, 'VbsReader.__next__[1014]', rd, fake, P, d, k, call)


# ---------------------------------------------------------------- step lemmas: reader inverts writer

def written_record_unit(E, terminator):
    """wherever the bytes a writer appended for one record (resp. the terminator) sit in a stream, the reader
    returns exactly that record and moves to the byte after it (resp. stops)"""
    rd, f, Sx, q, k = reader_state(E)
    MAX = max_len(E)
    if terminator:
        want = S.be32(z3.IntVal(0))
        for j in range(4):
            E.assume(I(Sx.at(q + j)) == want.at(z3.IntVal(j)))
        E.assume(q + 4 <= Sx.n)
        try:
            E.method(rd, '__next__')
        except PyRaise as pr:
            E.prove('reader-stops-at-terminator', z3.BoolVal(E.exc_is(pr.exc, StopIteration)), 'P', 'lemma')
            return
        E.prove('reader-stops-at-terminator', False, 'P', 'lemma')
        return
    R = E.fresh_seq('bytes', 'R')
    E.assume(R.n >= 1)
    E.assume(R.n <= MAX)
    hdr = S.be32(R.n)
    for j in range(4):
        E.assume(I(Sx.at(q + j)) == hdr.at(z3.IntVal(j)))
    E.assume(q + 4 + R.n <= Sx.n)
    j = E.fresh_int('wj')
    E.assume(z3.Implies(z3.And(j >= 0, j < R.n), I(Sx.at(q + 4 + j)) == I(R.at(j))))     # instance of `S[q+4..] = R` at j
    E.native_input({'kind': 'roundtrip1', 'prefix': VInt(q), 'reclen': VInt(R.n), 'blocked': False})
    try:
        rec = E.method(rd, '__next__')
    except PyRaise as pr:
        E.prove('reader-returns-written-record(raised %s)' % E.exc_name(pr.exc), False, 'P', 'lemma')
        return
    E.prove('reader-returns-written-record/len', rec.n == R.n, 'P', 'lemma')
    E.prove('reader-returns-written-record/bytes', z3.Implies(z3.And(j >= 0, j < R.n), I(rec.at(j)) == I(R.at(j))), 'P', 'lemma')
    E.prove('reader-returns-written-record/next-offset', E.as_int(E.getf(f, 'pos')) == q + 4 + R.n, 'P', 'lemma')


@unit('reader-inverts-writer/record', props=['C03', 'C06'], functions=[M + 'VbsReader.__next__', M + 'VbsWriter.write'])
def u_step_record(E):
    written_record_unit(E, False)


@unit('reader-inverts-writer/terminator', props=['C03', 'C06'], functions=[M + 'VbsReader.__next__', M + 'VbsWriter.close'])
def u_step_term(E):
    written_record_unit(E, True)


@unit('truncated-stream/lemma', props=['C09'], functions=[M + 'VbsReader.__next__'])
def u_truncated(E):
    """reading the stream cut at t: whatever __next__ delivers is the same record the uncut stream holds there,
    wholly inside the surviving bytes; otherwise it stops or raises the library error"""
    full = E.fresh_seq('bytes', 'S')
    t = E.fresh_int('t')
    E.assume(t >= 0)
    E.assume(t <= full.n)
    cut = seq_slice(full, None, t, E.decide)
    q = E.fresh_int('q')
    k = E.fresh_int('k')
    E.assume(q >= 0)
    E.assume(q <= t)
    E.assume(k >= 1)
    f = E.new_file(cut, q)
    rd = E.new_obj(M + 'VbsReader', {'vbs_data': f, 'record_number': VInt(k)})
    E.native_input({'kind': 'truncate', 'S': full, 't': VInt(t)})
    L = S.be32_value(full, q)
    try:
        rec = E.method(rd, '__next__')
    except PyRaise as pr:
        E.prove('truncated/ends-or-library-error', z3.BoolVal(E.exc_is(pr.exc, StopIteration) or E.exc_is(pr.exc, M + 'MciIpmDataError')), 'P', 'lemma')
        return
    E.prove('truncated/record-wholly-in-surviving-bytes', q + 4 + L <= t, 'P', 'lemma')
    E.prove('truncated/record-length-as-in-full-file', rec.n == L, 'P', 'lemma')
    j = E.fresh_int('tj')
    E.prove('truncated/record-unaltered', z3.Implies(z3.And(j >= 0, j < rec.n), I(rec.at(j)) == I(full.at(q + 4 + j))), 'P', 'lemma')


# ---------------------------------------------------------------- IpmReader / IpmWriter plumbing

def bound_call(E, qual, args, kw):
    """the recorded call normalised to the parameter names of iso8583.dumps / loads (positional or keyword use is the same call)"""
    try:
        return E.bind_args(E.get_function(qual), list(args), dict(kw))
    except Exception:
        return dict(kw)


def same_text(E, name, got, want, tier='P'):
    if isinstance(got, VSeq) and isinstance(want, VSeq):
        E.prove_value_eq(name, got, want, tier)
    else:
        E.prove(name, z3.BoolVal(got is want), tier)


def install_loads_contract(E, mode):
    """iso8583.loads by contract (its own contract is C07/C01): returns a dict or raises Iso8583DataError"""
    def apply_loads(E, args, kw):
        E.ghost['loads_args'] = (args, kw)
        if mode == 'raises' or (mode == 'any' and E.branch(E.fresh_bool('loads_raises'))):
            ci = E.program.classes[I8 + 'Iso8583DataError']
            # the decoder's error may or may not carry context bytes (its PDS walker raises without any; an empty remainder is dropped)
            if E.choose(2, 'loads_error_has_context') == 1:
                raise PyRaise(E.instantiate(ci, [lift('bad message')], {'binary_context_data': seq_lit('bytes', b'ctx')}))
            raise PyRaise(E.instantiate(ci, [lift('bad message')], {}))
        d = E.new_dict({'MTI': lift('0000')})
        E.ghost['loads_result'] = d
        return d
    E.contracts[I8 + 'loads'] = apply_loads


@unit('IpmReader.__next__/contract', props=['C10', 'C06', 'C07', 'C09'], functions=[M + 'IpmReader.__next__', M + 'VbsReader.__next__', 'cardutil.CardutilError.__init__'])
def u_ipm_next(E):
    enc = lift('latin_1')
    cfg = NONE
    rd, f, Sx, q, k = reader_state(E, 'IpmReader', {'encoding': enc, 'iso_config': cfg})
    install_loads_contract(E, 'any')
    MAX = max_len(E)
    L = S.be32_value(Sx, q)
    framed = z3.And(Sx.n - q >= 4, L >= 1, L <= MAX, q + 4 + L <= Sx.n)
    E.native_input({'kind': 'ipm-stream', 'S': Sx, 'q': VInt(q)})
    E.cover('IpmReader.__next__/pre')
    try:
        out = E.method(rd, '__next__')
    except PyRaise as pr:
        if E.exc_is(pr.exc, StopIteration):
            E.prove('IpmReader.__next__/stops-only-at-end', z3.Or(Sx.n - q < 4, L == 0), 'P', 'xpost')
            return
        if not E.exc_is(pr.exc, M + 'MciIpmDataError'):
            E.prove('IpmReader.__next__/only-library-error(%s)' % E.exc_name(pr.exc), False, 'P', 'xpost')
            return
        rn = exc_field(E, pr.exc, 'record_number')
        ctx = exc_field(E, pr.exc, 'binary_context_data')
        decoded = 'loads_args' in E.ghost
        E.cover('IpmReader.__next__/error-%s' % ('message' if decoded else 'framing'))
        E.prove('IpmReader.__next__/error-number-is-this-record(%s-level)' % ('message' if decoded else 'framing'),
                z3.BoolVal(False) if not isinstance(rn, VInt) else rn.t == k, 'P', 'xpost')
        if decoded:
            # message-level fault: context = raw bytes of this record including its length prefix
            E.prove('IpmReader.__next__/message-error-only-for-framed-record', framed, 'P', 'xpost')
            if isinstance(ctx, VSeq) and ctx.kind == 'bytes':
                E.prove_value_eq('IpmReader.__next__/message-error-context=prefix+record', ctx, seq_slice(Sx, q, q + 4 + L), 'P', 'xpost')
            else:
                E.prove('IpmReader.__next__/message-error-context-is-bytes', False, 'P', 'xpost')
            ex = exc_field(E, pr.exc, 'ex')
            E.prove('IpmReader.__next__/original-exception-kept', z3.BoolVal(isinstance(ex, VRef)), 'I', 'xpost')
        else:
            E.prove('IpmReader.__next__/framing-error-only-for-bad-framing', z3.Not(framed), 'P', 'xpost')
            if isinstance(ctx, VSeq) and ctx.kind == 'bytes':
                want = z3.If(L > MAX, 4, Sx.n - q)
                E.prove('IpmReader.__next__/framing-error-context.len', ctx.n == want, 'P', 'xpost')
                j = E.fresh_int('cj')
                E.prove('IpmReader.__next__/framing-error-context.elem', z3.Implies(z3.And(j >= 0, j < ctx.n), I(ctx.at(j)) == I(Sx.at(q + j))), 'P', 'xpost')
            else:
                E.prove('IpmReader.__next__/framing-error-context-is-bytes', False, 'P', 'xpost')
        return
    # normal return: loads was handed exactly the framed record, with this reader's encoding and configuration
    E.prove('IpmReader.__next__/returns-loads-result', z3.BoolVal(isinstance(out, VRef) and out.oid == E.ghost.get('loads_result', VRef(-1)).oid), 'P')
    args, kw = E.ghost['loads_args']
    b = bound_call(E, I8 + 'loads', args, kw)
    E.prove('IpmReader.__next__/record-only-if-framed', framed, 'P')
    E.prove_value_eq('IpmReader.__next__/decodes-this-record', b.get('b', args[0] if args else NONE), seq_slice(Sx, q + 4, q + 4 + L), 'P')
    same_text(E, 'IpmReader.__next__/uses-own-encoding', b.get('encoding'), enc)
    E.prove('IpmReader.__next__/uses-own-config', z3.BoolVal(b.get('iso_config') is cfg), 'P')
    E.prove('IpmReader.__next__/counter', E.as_int(E.getf(rd, 'record_number')) == k + 1, 'I')


@unit('IpmReader.__init__', props=['C06', 'C10'], functions=[M + 'IpmReader.__init__', M + 'VbsReader.__init__'])
def u_ipm_init(E):
    C = E.fresh_seq('bytes', 'C')
    f = E.new_file(C, 0)
    enc = E.fresh_seq('str', 'enc')
    cfg = E.new_dict({})
    rd = E.instantiate(E.program.classes[M + 'IpmReader'], [f], {'encoding': enc, 'iso_config': cfg, 'blocked': FALSE})
    # what matters is what __next__ hands to loads (checked in IpmReader.__next__/contract); here: the constructor keeps its arguments somewhere
    kept = [v for k, v in E.cell(rd).items() if isinstance(v, V)]
    E.prove('IpmReader.__init__/encoding-kept', z3.BoolVal(any(v is enc for v in kept)), 'P')
    E.prove('IpmReader.__init__/config-kept', z3.BoolVal(any(isinstance(v, VRef) and v.oid == cfg.oid for v in kept)), 'P')
    E.prove('IpmReader.__init__/source', z3.BoolVal(isinstance(fld(E, rd, 'vbs_data'), VRef) and fld(E, rd, 'vbs_data').oid == f.oid), 'P')
    E.prove('IpmReader.__init__/first-record-is-number-1', E.as_int(E.getattr_value(rd, 'record_number')) == 1, 'P')


def install_dumps_contract(E, result):
    def apply_dumps(E, args, kw):
        E.ghost['dumps_args'] = (args, kw)
        return result
    E.contracts[I8 + 'dumps'] = apply_dumps


@unit('IpmWriter.write/contract', props=['C06'], functions=[M + 'IpmWriter.write', M + 'VbsWriter.write', M + 'IpmWriter.__init__'])
def u_ipmw_write(E):
    enc = E.fresh_seq('str', 'enc')
    cfg = E.new_dict({})
    w, sink, f, stream, r = writer_state(E, False, 'IpmWriter', {'encoding': enc, 'iso_config': cfg})
    rec = E.fresh_seq('bytes', 'encoded')
    E.assume(rec.n >= 1)
    E.assume(rec.n <= max_len(E))
    install_dumps_contract(E, rec)
    msg = E.new_dict({'MTI': lift('1144')})
    E.method(w, 'write', msg)
    args, kw = E.ghost['dumps_args']
    b = bound_call(E, I8 + 'dumps', args, kw)
    # object identity is a proof device (an equal copy of the message / configuration would serve the property as well): I-tier
    E.prove('IpmWriter.write/encodes-this-message', z3.BoolVal(isinstance(b.get('obj'), VRef) and b['obj'].oid == msg.oid), 'I')
    same_text(E, 'IpmWriter.write/uses-own-encoding', b.get('encoding'), enc)
    E.prove('IpmWriter.write/uses-own-config', z3.BoolVal(isinstance(b.get('iso_config'), VRef) and b['iso_config'].oid == cfg.oid), 'I')
    E.prove('IpmWriter.write/passes-a-configuration', z3.BoolVal(isinstance(b.get('iso_config'), VRef)), 'P')
    E.prove_value_eq('IpmWriter.write/frames-the-encoded-record', E.getf(f, 'content'),
                     seq_concat(seq_concat(stream, S.be32(rec.n)), rec), 'P')
    # constructor keeps its arguments
    f2 = E.new_file(seq_lit('bytes', b''), 0)
    w2 = E.instantiate(E.program.classes[M + 'IpmWriter'], [f2], {'encoding': enc, 'iso_config': cfg, 'blocked': TRUE})
    kept = [v for k, v in E.cell(w2).items() if isinstance(v, V)]
    E.prove('IpmWriter.__init__/encoding-kept', z3.BoolVal(any(v is enc for v in kept)), 'P')
    E.prove('IpmWriter.__init__/config-kept', z3.BoolVal(any(isinstance(v, VRef) and v.oid == cfg.oid for v in kept)), 'P')
    bl = fld(E, w2, 'out_file')
    E.prove('IpmWriter.__init__/blocked-sink', z3.BoolVal(isinstance(bl, VRef) and E.kind_of(bl) == 'obj'), 'P')
    # a writer built by the real constructor with a custom configuration encodes with THAT configuration
    install_dumps_contract(E, rec)
    f3 = E.new_file(seq_lit('bytes', b''), 0)
    w3 = E.instantiate(E.program.classes[M + 'IpmWriter'], [f3], {'encoding': enc, 'iso_config': cfg})
    E.ghost.pop('dumps_args', None)
    E.method(w3, 'write', msg)
    a3, k3 = E.ghost.get('dumps_args', ([], {}))
    b3 = bound_call(E, I8 + 'dumps', a3, k3)
    E.prove('IpmWriter(real constructor).write/uses-the-configuration-it-was-given', z3.BoolVal(isinstance(b3.get('iso_config'), VRef) and b3['iso_config'].oid == cfg.oid), 'I')
    E.prove('IpmWriter(real constructor).write/passes-a-configuration', z3.BoolVal(isinstance(b3.get('iso_config'), VRef)), 'P')
    same_text(E, 'IpmWriter(real constructor).write/uses-the-encoding-it-was-given', b3.get('encoding'), enc)


# ---------------------------------------------------------------- instance isolation (C06) - frames

@unit('reader-writer/frames', props=['C06'], functions=[M + 'VbsReader.__next__', M + 'VbsWriter.write', M + 'VbsWriter.close'])
def u_frames(E):
    """two instances on different files: an operation on one leaves every field of the other, and the other's file,
    untouched (so any sequential interleaving of whole calls commutes)"""
    rdA, fA, SA, qA, kA = reader_state(E)
    wB, sinkB, fB, streamB, _ = writer_state(E, False)
    rdC, fC, SC, qC, kC = reader_state(E)
    before = state_fingerprint(E, {'rdC': rdC, 'fC': fC, 'wB': wB, 'fB': fB})
    try:
        E.method(rdA, '__next__')
    except PyRaise:
        pass
    mid = state_fingerprint(E, {'rdC': rdC, 'fC': fC, 'wB': wB, 'fB': fB})
    for k2 in before:
        E.prove('frames/reader-op-leaves-others/%s' % k2, z3.BoolVal(mid.get(k2) is before[k2]), 'P', 'frame')
    before2 = state_fingerprint(E, {'rdC': rdC, 'fC': fC, 'rdA': rdA, 'fA': fA})
    rec = E.fresh_seq('bytes', 'rec')
    E.assume(rec.n >= 1)
    E.assume(rec.n <= 6000)
    E.method(wB, 'write', rec)
    E.method(wB, 'close')
    after2 = state_fingerprint(E, {'rdC': rdC, 'fC': fC, 'rdA': rdA, 'fA': fA})
    for k2 in before2:
        E.prove('frames/writer-op-leaves-others/%s' % k2, z3.BoolVal(after2.get(k2) is before2[k2]), 'P', 'frame')


# ---------------------------------------------------------------- convenience functions (2 symbolic records)

@unit('vbs_list_to_bytes+vbs_bytes_to_list/two-records', props=['C03', 'C06'], functions=[M + 'vbs_list_to_bytes', M + 'vbs_bytes_to_list', M + 'VbsWriter.write_many'])
def u_convenience(E):
    """glue of the convenience functions on a two-record list with fully symbolic records
    (record COUNT is concrete here; any count follows from the step lemmas)"""
    r1 = E.fresh_seq('bytes', 'r1')
    r2 = E.fresh_seq('bytes', 'r2')
    for r in (r1, r2):
        E.assume(r.n >= 1)
        E.assume(r.n <= max_len(E))
    want = seq_concat(seq_concat(seq_concat(seq_concat(S.be32(r1.n), r1), S.be32(r2.n)), r2), S.be32(z3.IntVal(0)))
    lst = E.new_list(seq_items('list', [r1, r2]))
    out = E.call(M + 'vbs_list_to_bytes', lst)
    E.prove_value_eq('vbs_list_to_bytes/layout', out, want, 'P')
    back = E.call(M + 'vbs_bytes_to_list', want)
    bl = E.list_val(back)
    E.prove('vbs_bytes_to_list/count', bl.n == 2, 'P')
    if bl.clen() == 2:
        E.prove_value_eq('vbs_bytes_to_list/first', bl.at(z3.IntVal(0)), r1, 'P')
        E.prove_value_eq('vbs_bytes_to_list/second', bl.at(z3.IntVal(1)), r2, 'P')
    # write_many = write for each
    f = E.new_file(seq_lit('bytes', b''), 0)
    w = E.instantiate(E.program.classes[M + 'VbsWriter'], [f], {})
    E.method(w, 'write_many', E.new_list(seq_items('list', [r1, r2])))
    E.method(w, 'close')
    E.prove_value_eq('write_many/layout', E.getf(f, 'content'), want, 'P')


# ---------------------------------------------------------------- operator message (C10)

@unit('print_exception_details/message', props=['C10'], functions=['cardutil.cli.print_exception_details'])
def u_print_exc(E):
    k = E.fresh_int('k')
    E.assume(k >= 1)
    ci = E.program.classes[M + 'MciIpmDataError']
    err = E.instantiate(ci, [lift('msg')], {'record_number': VInt(k), 'binary_context_data': seq_lit('bytes', b'\x00\x00')})
    E.prove('CardutilError/record_number-stored', E.as_int(E.getattr_value(err, 'record_number')) == k, 'P')
    E.call('cardutil.cli.print_exception_details', err)
    want = seq_concat(lift('Error detected in record '), E.call_value(E.lookup_global('str', E.program.modules['cardutil']), [VInt(k)], {}))
    found = False
    for line in E.stdout:
        if len(line) == 1 and isinstance(line[0], VSeq) and line[0].kind == 'str':
            pre = conc_str(seq_slice(line[0], 0, 25, E.decide))
            if pre == 'Error detected in record ':
                found = True
                E.prove_value_eq('print_exception_details/names-record-k', line[0], want, 'P')
    E.prove('print_exception_details/prints-record-line', z3.BoolVal(found), 'P')


@unit('IpmWriter.write_many/every-record-encoded-with-the-writers-configuration', props=['C06', 'C19', 'C20'],
      functions=[M + 'VbsWriter.write_many', M + 'IpmWriter.write', M + 'IpmWriter.__init__'])
def u_ipmw_write_many(E):
    """whatever path leads from IpmWriter.write_many to iso8583.dumps (inherited loop over write, or an override), each record
    is encoded once, in order, with the writer's own encoding and configuration, and framed into the file"""
    enc = E.fresh_seq('str', 'enc')
    cfg = E.new_dict({'2': E.new_dict({})})
    rec = E.fresh_seq('bytes', 'encoded')
    E.assume(rec.n >= 1)
    E.assume(rec.n <= max_len(E))
    calls = []

    def apply_dumps(E2, args, kw):
        calls.append((list(args), dict(kw)))
        return rec
    E.contracts[I8 + 'dumps'] = apply_dumps
    for blocked in (False, True):
        del calls[:]
        f = E.new_file(seq_lit('bytes', b''), 0)
        w = E.instantiate(E.program.classes[M + 'IpmWriter'], [f], {'encoding': enc, 'iso_config': cfg, 'blocked': VBool(blocked)})
        m1, m2 = E.new_dict({'MTI': lift('1144')}), E.new_dict({'MTI': lift('1240')})
        E.method(w, 'write_many', E.new_list(seq_items('list', [m1, m2])))
        tag = 'IpmWriter.write_many[%s]' % ('1014' if blocked else 'vbs')
        E.prove(tag + '/one-encoding-per-record', z3.BoolVal(len(calls) == 2), 'P')
        for k, (m, c) in enumerate(zip((m1, m2), calls)):
            a, kw = c
            bb = bound_call(E, I8 + 'dumps', a, kw)
            obj, cfg_arg, enc_arg = bb.get('obj'), bb.get('iso_config'), bb.get('encoding')
            E.prove('%s/record-%d-encoded-with-a-configuration' % (tag, k), z3.BoolVal(isinstance(cfg_arg, VRef)), 'P')
            # object identity is a proof device (an equal copy would do): I-tier; the encoding is compared by value
            E.prove('%s/record-%d-is-the-%s-message' % (tag, k, 'first' if k == 0 else 'second'), z3.BoolVal(isinstance(obj, VRef) and obj.oid == m.oid), 'I')
            E.prove('%s/record-%d-encoded-with-the-writers-configuration' % (tag, k), z3.BoolVal(isinstance(cfg_arg, VRef) and cfg_arg.oid == cfg.oid), 'I')
            if isinstance(enc_arg, VSeq):
                E.prove_value_eq('%s/record-%d-encoded-with-the-writers-encoding' % (tag, k), enc_arg, enc, 'P')
            else:
                E.prove('%s/record-%d-encoded-with-the-writers-encoding' % (tag, k), False, 'P')
        if not blocked:
            one = seq_concat(S.be32(rec.n), rec)
            E.prove_value_eq(tag + '/both-records-framed-in-order', E.getf(f, 'content'), seq_concat(one, one), 'P')


def enter_unit(E, blocked, finalised_by):
    """C11: entering a `with` block is not a finalisation and not a re-opening: it changes nothing, before or after the writer
    was finalised -- so histories such as close(); with w: pass  or two with-blocks are covered by the refinalise units"""
    w, sink, f, stream, r = writer_state(E, blocked)
    if finalised_by == 'close':
        E.method(w, 'close')
    elif finalised_by == 'exit':
        E.method(w, '__exit__', NONE, NONE, NONE)
    refs = {'file': f, 'writer': w}
    if blocked:
        refs['blocker'] = sink
    before = state_fingerprint(E, refs)
    out = E.method(w, '__enter__')
    after = state_fingerprint(E, refs)
    tag = 'VbsWriter.__enter__[%s,%s]' % ('1014' if blocked else 'vbs', finalised_by or 'open')
    E.prove(tag + '/returns-the-writer', z3.BoolVal(isinstance(out, VRef) and out.oid == w.oid), 'P')
    for k in sorted(set(before) | set(after)):
        if k not in before or k not in after:
            E.prove('%s/state-unchanged/%s' % (tag, k), False, 'I')
        else:
            E.prove_value_eq('%s/state-unchanged/%s' % (tag, k), after[k], before[k], 'P')


for _b in (False, True):
    for _f in (None, 'close', 'exit'):
        def _mk2(b=_b, f=_f):
            def u(E):
                enter_unit(E, b, f)
            return u
        unit('VbsWriter.__enter__[%s,%s]/no-effect' % ('1014' if _b else 'vbs', _f or 'open'), props=['C11'], functions=[M + 'VbsWriter.__enter__'])(_mk2())
