"""Message-level loop invariants for cardutil/iso8583.py over ALL element subsets (C01, C02, C07, C08):
_iso8583_to_dict and _dict_to_iso8583 are executed with their `for bit in range(2, 128)` loops cut by invariants; the
per-element functions are replaced by their contracts (proved per configuration shape in iso_field.py), so one symbolic
execution covers every bitmap / every subset of configured elements.  The packaged configuration table is used as read from
the tree (the loops consult the configuration only through lookups by bit number)."""
import z3
from pyvc.runner import unit
from pyvc.values import *
from pyvc.engine import PyRaise
from pyvc import models_iso as MI
from .bitarray import install_bitarray_contracts, bit_of_byte_int
from .iso_field import Q, ERR, codec

MOFF = z3.Function('DEC_OFF', z3.IntSort(), z3.IntSort())        # offset of element b in the data part (decode)
INC = z3.Function('DEC_INC', z3.IntSort(), z3.IntSort())         # bytes element b occupies (prefix + declared length)
PRESB = z3.Function('BITMAP_BIT', z3.IntSort(), z3.BoolSort())   # bit b of the bitmap
EOFF = z3.Function('ENC_OFF', z3.IntSort(), z3.IntSort())
FLEN = z3.Function('ENC_FLEN', z3.IntSort(), z3.IntSort())
FBYTE = z3.Function('ENC_FBYTE', z3.IntSort(), z3.IntSort(), z3.IntSort())


def packaged_bit_config(E):
    cfg = E.lookup_global('config', E.program.modules['cardutil.config'])
    return E.dict_get(cfg, lift('bit_config'), strict=True)


def abstract_bit_config(E):
    """ANY configuration table (which bits are configured, and how, is uninterpreted); key set for iteration = the packaged one"""
    keys = list(E.getf(packaged_bit_config(E), 'val'))
    return E.new_cell({'__kind__': 'dict', 'val': MI.SymCfg(keys)})


def is_cfg_of(E, cfg, b):
    if not isinstance(cfg, VRef) or E.kind_of(cfg) != 'dict':
        return z3.BoolVal(False)
    v = E.getf(cfg, 'val')
    if not isinstance(v, MI.CfgEntry):
        return z3.BoolVal(False)
    return v.bit == b


# ================================================================================================ decode
def install_field_decode_contract(E):
    """_iso8583_to_field by contract (iso_field.py proves it for every configuration shape, any bytes):
    raises only Iso8583DataError; on return the increment is prefix + declared length >= 0 and the dict holds what the
    element's own bytes decode to."""
    def apply(E, args, kw):
        bit, cfg, data = args[0], args[1], args[2]
        b = E.as_int(bit)
        md = E.ghost['message_data']
        E.prove_value_eq('pre@call _iso8583_to_field/element-decoded-from-its-own-offset', data, seq_slice(md, MOFF(b), None, E.decide), 'P', 'pre@call')
        E.prove('pre@call _iso8583_to_field/configuration-of-this-bit', is_cfg_of(E, cfg, b), 'P', 'pre@call')
        if E.branch(E.fresh_bool('field_raises')):
            raise PyRaise(E.instantiate(E.program.classes[ERR], [lift('bad field')], {}))
        E.fact(INC(b) >= 0)
        return VTuple([E.new_cell({'__kind__': 'dict', 'val': MI.FieldRes(b)}), VInt(INC(b))])
    E.contracts[Q + '_iso8583_to_field'] = apply


class DecodeLoop:
    """`for bit in range(2, 128)` of _iso8583_to_dict.  message_pointer = MOFF(bit); the result holds the elements flagged below bit"""
    ghosts = []

    def __init__(self, G):
        self.G = G

    def entry(self, ctx):
        return {}

    def step(self, ctx, g):
        return {}

    def side(self, ctx, g):
        return [MOFF(2 + g['i']) >= 0]

    def facts(self, ctx, g):
        E = ctx.E
        bit = 2 + g['i']
        bl = E.list_val(ctx.entry('bitmap_list'))
        flag = E.truth(bl.at(bit))
        return [PRESB(bit) == flag,
                z3.Implies(g['i'] < 126, MOFF(bit + 1) == MOFF(bit) + z3.If(PRESB(bit), INC(bit), 0)),
                z3.Implies(PRESB(bit), INC(bit) >= 0)]

    def state(self, ctx, g):
        E = ctx.E
        bit = 2 + g['i']
        base = ctx.pre.heap[ctx.pre.locals['return_values'].oid]['val']
        d = E.new_cell({'__kind__': 'dict', 'val': MI.MsgDict(base, bit)})
        return {'message_pointer': VInt(MOFF(bit)), 'return_values': d}


@unit('_iso8583_to_dict/all-bitmaps', props=['C08', 'C07', 'C01', 'C02'], functions=[Q + '_iso8583_to_dict', Q + '_get_bitmap_list', Q + 'loads'])
def u_decode_loop(E):
    """ANY bytes: whenever decoding returns, every element flagged in the bitmap is configured and was decoded from its own offset,
    offsets advance by each element's own (non-negative) size, and the elements tile the data with nothing left over"""
    install_bitarray_contracts(E)
    install_field_decode_contract(E)
    enc, cd = codec(E)
    raw = E.fresh_seq('bytes', 'raw')
    bc = abstract_bit_config(E)
    E.assume(raw.n >= 20)
    data = seq_slice(raw, 20, None, E.decide)
    E.ghost['message_data'] = data
    E.ghost['msg_present'] = lambda b: PRESB(b)

    E.fact(MOFF(2) == 0)
    E.loop_specs[(Q + '_iso8583_to_dict', 0)] = DecodeLoop({})
    E.native_input({'kind': 'raw', 'raw': raw})
    tag = '_iso8583_to_dict[all bitmaps]'
    E.cover(tag + '/pre')
    try:
        out = E.call(Q + 'loads', raw, encoding=enc, iso_config=bc)
    except PyRaise as pr:
        E.prove(tag + '/only-the-library-error-escapes(%s)' % E.exc_name(pr.exc), z3.BoolVal(E.exc_is(pr.exc, ERR)), 'P', 'xpost')
        return
    E.cover(tag + '/returns')
    dv = E.getf(out, 'val')
    ok = isinstance(dv, MI.MsgDict)
    E.prove(tag + '/result=MTI+one-result-per-flagged-element', z3.BoolVal(ok and set(dv.base) == {'MTI'}), 'P')
    if ok:
        E.prove(tag + '/all-elements-2..127-walked', dv.upto == 128, 'P')
    E.prove(tag + '/elements-tile-the-whole-data-part', MOFF(128) == data.n, 'P')
    # bit b of the bitmap is bit (7 - (b-1) mod 8) of byte (b-1) div 8 : instance at an arbitrary element
    b = E.fresh_int('b')
    E.assume(z3.And(b >= 2, b <= 127))


@unit('_iso8583_to_dict/loop-step-facts', props=['C08'], functions=[Q + '_iso8583_to_dict'])
def u_decode_monotone(E):
    """offsets never move backwards: from MOFF(b+1) = MOFF(b) + (flagged ? size : 0) with size >= 0 (lemma used to read the
    tiling clause as `no overlap, nothing skipped`)"""
    b = E.fresh_int('b')
    E.assume(MOFF(b + 1) == MOFF(b) + z3.If(PRESB(b), INC(b), 0))
    E.assume(z3.Implies(PRESB(b), INC(b) >= 0))
    E.prove('decode-offsets/monotone', MOFF(b + 1) >= MOFF(b), 'P', 'lemma')
    E.prove('decode-offsets/element-occupies-exactly-its-size', z3.Implies(PRESB(b), MOFF(b + 1) - MOFF(b) == INC(b)), 'P', 'lemma')


# ================================================================================================ encode
def install_field_encode_contract(E):
    """_field_to_iso8583 by contract: returns the element's rendering FIELD(b) (iso_field.py proves its bytes per shape) or
    refuses with Iso8583DataError"""
    def apply(E, args, kw):
        cfg, value = args[0], args[1]
        if not (isinstance(value, VOpaque) and value.sort_name == 'fieldval'):
            raise Unsupported('encode contract on a concrete value')
        b = value.t.arg(0)
        E.prove('pre@call _field_to_iso8583/configuration-of-this-bit', is_cfg_of(E, cfg, b), 'P', 'pre@call')
        E.prove('pre@call _field_to_iso8583/encoding-passed-on', z3.BoolVal(kw.get('encoding') is E.ghost['enc']), 'P', 'pre@call')
        if E.branch(E.fresh_bool('field_refused')):
            raise PyRaise(E.instantiate(E.program.classes[ERR], [lift('refused')], {}))
        E.fact(FLEN(b) >= 0)

        def at(k, b=b):
            e = FBYTE(b, I(k))
            E.fact(z3.And(e >= 0, e <= 255))
            return e
        return VSeq('bytes', FLEN(b), at)
    E.contracts[Q + '_field_to_iso8583'] = apply

    def pds_none(E, args, kw):
        return E.new_list(seq_items('list', []))          # this unit: messages without PDSxxxx keys (PDS placement: iso_msg.py)
    E.contracts[Q + '_pds_to_de'] = pds_none


def out_stream(E):
    """the data part as the documented concatenation: element b (when present) occupies [EOFF(b), EOFF(b+1)) with its rendering"""
    E.ghost.setdefault('enc_inst', [])

    def elem_fact(e, p):
        fs = []
        for b in E.ghost['enc_inst']:
            fs.append(z3.Implies(z3.And(MI.msg_present(b), p >= EOFF(b), p < EOFF(b + 1)), e == FBYTE(b, p - EOFF(b))))
        return z3.And(*fs) if fs else z3.BoolVal(True)
    return E.fresh_seq('bytes', 'OUT', elem_fact=elem_fact)


class EncodeLoop:
    ghosts = []

    def __init__(self, G):
        self.G = G

    def entry(self, ctx):
        return {}

    def step(self, ctx, g):
        return {}

    def side(self, ctx, g):
        bit = 2 + g['i']
        return [EOFF(bit) >= 0, EOFF(bit) <= self.G['OUT'].n]

    def facts(self, ctx, g):
        bit = 2 + g['i']
        ctx.E.ghost['enc_inst'] = [bit]
        return [EOFF(bit + 1) == EOFF(bit) + z3.If(MI.msg_present(bit), FLEN(bit), 0),
                z3.Implies(MI.msg_present(bit), FLEN(bit) >= 0), EOFF(bit + 1) <= self.G['OUT'].n]

    def state(self, ctx, g):
        E = ctx.E
        bit = 2 + g['i']
        flags = VSeq('list', 128, lambda j, bit=bit: VBool(z3.Or(I(j) == 0, z3.And(I(j) >= 1, I(j) + 1 < bit, MI.msg_present(I(j) + 1)))))
        return {'output_data': seq_slice(self.G['OUT'], 0, EOFF(bit), E.decide), 'bitmap_values': flags}


def mk_encode(hexb):
    @unit('_dict_to_iso8583/all-subsets[%s bitmap]' % ('hex' if hexb else 'binary'), props=['C02', 'C01'], functions=[Q + '_dict_to_iso8583', Q + 'dumps'])
    def u(E):
        """EVERY subset of elements 2..127: bytes = MTI, bitmap (bit 1 set, bit n set iff element n present, bit 128 clear), then the
        present elements' renderings in ascending order"""
        install_bitarray_contracts(E)
        install_field_encode_contract(E)
        enc, cd = codec(E)
        E.ghost['enc'] = enc
        bc = abstract_bit_config(E)
        mti = seq_items('str', [z3.Int('mti%d' % k) for k in range(4)])
        for c in mti.items:
            E.fact(z3.And(c >= 48, c <= 57))
        msg = E.new_cell({'__kind__': 'dict', 'val': MI.SymMsg(mti)})
        OUT = out_stream(E)
        E.fact(EOFF(2) == 0)
        E.assume(OUT.n == EOFF(128))
        E.loop_specs[(Q + '_dict_to_iso8583', 1)] = EncodeLoop({'OUT': OUT})
        tag = '_dict_to_iso8583[all subsets,%s]' % ('hex' if hexb else 'binary')
        E.native_input({'kind': 'message', 'bits': [2, 3], 'hex': hexb})
        E.cover(tag + '/pre')
        try:
            out = E.call(Q + 'dumps', msg, encoding=enc, iso_config=bc, hex_bitmap=VBool(hexb))
        except PyRaise as pr:
            # refusal by an element (over-length value) or an unconfigured element (KeyError: not a well-formed message)
            E.prove(tag + '/only-refusal-or-unconfigured-element(%s)' % E.exc_name(pr.exc), z3.BoolVal(E.exc_is(pr.exc, ERR) or E.exc_is(pr.exc, KeyError)), 'P', 'xpost')
            return
        hl = 36 if hexb else 20
        E.prove(tag + '/length=MTI+bitmap+elements', out.n == hl + EOFF(128), 'P')
        for k in range(4):
            E.prove(tag + '/MTI-character-%d' % k, I(out.at(z3.IntVal(k))) == cd.ENC(I(mti.items[k])), 'P')
        # bitmap: every bit 1..128 (complete finite split over the bit position; presence of each element symbolic)
        for b in range(1, 129):
            want = z3.BoolVal(True) if b == 1 else (MI.msg_present(z3.IntVal(b)) if b <= 127 else z3.BoolVal(False))
            j, k = (b - 1) // 8, (b - 1) % 8
            if hexb:
                ch = I(out.at(z3.IntVal(4 + 2 * j + (0 if k < 4 else 1))))
                nibv = z3.If(ch <= 57, ch - 48, ch - 87)
                bitset = (nibv / (8 >> (k % 4))) % 2 == 1
                if k % 4 == 0:
                    E.prove(tag + '/hex-bitmap-lowercase-hex-digit-%d' % (2 * j + (0 if k < 4 else 1)), z3.Or(z3.And(ch >= 48, ch <= 57), z3.And(ch >= 97, ch <= 102)), 'P')
            else:
                bitset = (I(out.at(z3.IntVal(4 + j))) / (128 >> k)) % 2 == 1
            E.prove(tag + '/bitmap-bit-%d-set-iff-element-present' % b if 2 <= b <= 127 else tag + ('/bitmap-bit-1-set' if b == 1 else '/bitmap-bit-128-clear'), bitset == want, 'P')
        p = E.fresh_int('p')
        E.assume(z3.And(p >= 0, p < OUT.n))
        E.prove(tag + '/data-part=present-elements-in-ascending-order', I(out.at(hl + p)) == I(OUT.at(p)), 'P')
    return u


mk_encode(False)
mk_encode(True)
